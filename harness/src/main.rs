//! vcheck: property-based / fuzzing checks for ironcalc/IronCalc.
//!
//!   vcheck <Cxx> [--tier quick|thorough] [--seed N]
//!   vcheck --replay <file>
//!
//! Exit codes: 0 held on everything explored; 1 violation (VIOLATION line printed);
//! 2 inconclusive (usage, internal error).

mod engine;
mod props;

use std::path::PathBuf;

use engine::{Ctx, Tier};
use serde_json::Value;

fn root() -> PathBuf {
    if let Ok(r) = std::env::var("VERIF_ROOT") {
        return PathBuf::from(r);
    }
    PathBuf::from("/verif")
}

fn load_replay(path: &std::path::Path) -> Result<(String, String, Value, Option<String>), String> {
    let text = std::fs::read_to_string(path).map_err(|e| format!("{}: {e}", path.display()))?;
    let doc: Value = serde_json::from_str(&text).map_err(|e| format!("{}: {e}", path.display()))?;
    let prop = doc["property"].as_str().ok_or("replay: no property")?.to_string();
    let campaign = doc["campaign"].as_str().ok_or("replay: no campaign")?.to_string();
    let sig = doc["signature"].as_str().map(|s| s.to_string());
    Ok((prop, campaign, doc["case"].clone(), sig))
}

fn main() {
    // glibc serves large blocks with mmap/munmap; with 16 workers allocating (zip deflate buffers,
    // workbook copies) the page faults dominate the run time. Keep such blocks on the heap.
    {
        extern "C" {
            fn mallopt(param: i32, value: i32) -> i32;
        }
        const M_TRIM_THRESHOLD: i32 = -1;
        const M_MMAP_THRESHOLD: i32 = -3;
        // SAFETY: plain libc configuration call made before any thread is started
        unsafe {
            mallopt(M_MMAP_THRESHOLD, 32 << 20);
            mallopt(M_TRIM_THRESHOLD, 512 << 20);
        }
    }
    engine::panics::install_hook();
    let args: Vec<String> = std::env::args().skip(1).collect();
    if args.is_empty() {
        eprintln!("usage: vcheck <Cxx> [--tier quick|thorough] [--seed N] | --replay <file>");
        std::process::exit(2);
    }
    let registry = props::registry();
    if args[0] == "--list" {
        for p in &registry {
            println!("{}", p.id);
        }
        return;
    }
    if args[0] == "--time-ops" {
        // development aid: time each op of a C01-style case given as JSON on the command line
        let case: props::c01::Case = serde_json::from_str(&args[1]).expect("case json");
        let mut um = engine::ops::new_user_model(&case.locale, &case.language);
        for op in &case.ops {
            let t = std::time::Instant::now();
            let r = engine::ops::apply(&mut um, op);
            let a = t.elapsed();
            let t = std::time::Instant::now();
            let s = engine::snapshot::snapshot(um.get_model(), Default::default());
            println!("{:?} -> {:?} in {:?}; snapshot {} keys in {:?}", op.kind(), r, a, s.len(), t.elapsed());
        }
        return;
    }
    if args[0] == "--replay" {
        let path = PathBuf::from(args.get(1).expect("--replay <file>"));
        let (prop, campaign, case, _) = match load_replay(&path) {
            Ok(x) => x,
            Err(e) => {
                eprintln!("{e}");
                std::process::exit(2);
            }
        };
        let p = registry.iter().find(|p| p.id == prop).unwrap_or_else(|| {
            eprintln!("unknown property {prop}");
            std::process::exit(2)
        });
        let mut ctx = Ctx::new(&prop, Tier::Quick, 0, root());
        ctx.strict = true;
        match (p.replay)(&ctx, &campaign, &case) {
            Ok(o) => match o.failure {
                Some(f) => {
                    println!("VIOLATION property={} replay={}", prop, path.display());
                    println!("  signature={}", f.signature);
                    println!("  detail: {}", f.detail);
                    std::process::exit(1);
                }
                None => {
                    println!("replay passes: property={} file={}", prop, path.display());
                    std::process::exit(0);
                }
            },
            Err(e) => {
                eprintln!("replay error: {e}");
                std::process::exit(2);
            }
        }
    }
    let id = args[0].clone();
    let mut tier = match std::env::var("VERIF_TIER").as_deref() {
        Ok("thorough") => Tier::Thorough,
        _ => Tier::Quick,
    };
    let mut tier_explicit = false;
    let mut seed: u64 = std::env::var("VERIF_SEED")
        .ok()
        .and_then(|s| s.trim().parse::<i64>().ok())
        .map(|v| v as u64)
        .unwrap_or(1);
    let mut i = 1;
    while i < args.len() {
        match args[i].as_str() {
            "--tier" => {
                tier = match args.get(i + 1).map(|s| s.as_str()) {
                    Some("thorough") => Tier::Thorough,
                    Some("quick") => Tier::Quick,
                    _ => {
                        eprintln!("bad --tier");
                        std::process::exit(2)
                    }
                };
                tier_explicit = true;
                i += 2;
            }
            "--seed" => {
                seed = args
                    .get(i + 1)
                    .and_then(|s| s.parse::<i64>().ok())
                    .map(|v| v as u64)
                    .unwrap_or(1);
                i += 2;
            }
            other => {
                eprintln!("unknown argument {other}");
                std::process::exit(2);
            }
        }
    }
    let _ = tier_explicit;
    let p = registry.iter().find(|p| p.id == id).unwrap_or_else(|| {
        eprintln!("unknown property {id}");
        std::process::exit(2)
    });
    let ctx = Ctx::new(&id, tier, seed, root());

    // 1. Replay tier: known findings first, then every other committed regression input.
    let mut listed_replays: Vec<PathBuf> = vec![];
    for f in ctx.findings.entries.clone() {
        let Some(rel) = &f.replay else {
            println!("KNOWN-FINDING: property={} {} {} (no replay file)", id, f.signature, f.what);
            continue;
        };
        let path = ctx.root.join(rel);
        listed_replays.push(path.clone());
        match load_replay(&path) {
            Ok((_, campaign, case, _)) => {
                let mut strict = Ctx::new(&id, tier, seed, root());
                strict.strict = true;
                match (p.replay)(&strict, &campaign, &case) {
                    Ok(o) => match o.failure {
                        Some(fl) if fl.signature == f.signature => {
                            println!("KNOWN-FINDING: property={} {} {}", id, f.signature, f.what);
                        }
                        Some(fl) => {
                            // fails differently from what is listed: not excused
                            ctx.violation(&campaign, &fl, case);
                        }
                        None => {
                            println!(
                                "note: listed finding no longer reproduces: property={} {}",
                                id, f.signature
                            );
                        }
                    },
                    Err(e) => {
                        eprintln!("replay error for {}: {e}", path.display());
                        std::process::exit(2);
                    }
                }
            }
            Err(e) => {
                eprintln!("{e}");
                std::process::exit(2);
            }
        }
    }
    let dir = ctx.root.join("replays").join(&id);
    if let Ok(rd) = std::fs::read_dir(&dir) {
        let mut files: Vec<PathBuf> = rd
            .filter_map(|e| e.ok().map(|e| e.path()))
            .filter(|p| p.extension().map(|e| e == "json").unwrap_or(false))
            .collect();
        files.sort();
        for path in files {
            if listed_replays.contains(&path) {
                continue;
            }
            match load_replay(&path) {
                Ok((_, campaign, case, _)) => match (p.replay)(&ctx, &campaign, &case) {
                    Ok(o) => {
                        let name = format!("replay:{campaign}");
                        if ctx.record(&name, &o, &|| case.clone()) {
                            ctx.violation(&campaign, o.failure.as_ref().unwrap(), case.clone());
                        }
                    }
                    Err(e) => {
                        eprintln!("replay error for {}: {e}", path.display());
                        std::process::exit(2);
                    }
                },
                Err(e) => {
                    eprintln!("{e}");
                    std::process::exit(2);
                }
            }
        }
    }

    // 2. Generated campaigns.
    if !ctx.stopped() {
        (p.run)(&ctx);
    }
    std::process::exit(ctx.finish());
}
