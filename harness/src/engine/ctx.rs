//! Core driver: tiers, seeds, statistics, evidence, known findings, campaigns with shrinking.

use std::collections::{BTreeMap, HashSet};
use std::hash::{Hash, Hasher};
use std::path::PathBuf;
use std::sync::atomic::{AtomicBool, Ordering};
use std::sync::Mutex;
use std::time::Instant;

use proptest::strategy::{Strategy, ValueTree};
use proptest::test_runner::{Config, RngAlgorithm, TestRng, TestRunner};
use serde_json::{json, Value};

use super::findings::KnownFindings;

#[derive(Clone, Copy, PartialEq, Eq, Debug)]
pub enum Tier {
    Quick,
    Thorough,
}

impl Tier {
    pub fn name(&self) -> &'static str {
        match self {
            Tier::Quick => "quick",
            Tier::Thorough => "thorough",
        }
    }
    /// Pick a work amount by tier.
    pub fn pick<T>(&self, quick: T, thorough: T) -> T {
        match self {
            Tier::Quick => quick,
            Tier::Thorough => thorough,
        }
    }
}

#[derive(Clone, Debug)]
pub struct Failure {
    /// Root-cause class of the failure, computed from the (shrunk) input. Unit of counting.
    pub signature: String,
    /// Human-readable description (diff, values).
    pub detail: String,
}

/// What one executed case reports back.
#[derive(Clone, Debug, Default)]
pub struct Outcome {
    /// `Some(key)` if the case is non-trivial by the property's rule; `key` identifies the case
    /// for distinct counting (canonical encoding of the case).
    pub nontrivial: Option<String>,
    /// Generator-distribution labels.
    pub labels: Vec<String>,
    pub failure: Option<Failure>,
    /// Number of candidate cases steered away from known findings inside this case.
    pub excluded: u64,
}

impl Outcome {
    pub fn pass() -> Self {
        Outcome::default()
    }
    pub fn nontrivial(mut self, key: impl Into<String>) -> Self {
        self.nontrivial = Some(key.into());
        self
    }
    pub fn label(mut self, l: impl Into<String>) -> Self {
        self.labels.push(l.into());
        self
    }
    pub fn fail(mut self, signature: impl Into<String>, detail: impl Into<String>) -> Self {
        if self.failure.is_none() {
            self.failure = Some(Failure {
                signature: signature.into(),
                detail: detail.into(),
            });
        }
        self
    }
    pub fn failed(&self) -> bool {
        self.failure.is_some()
    }
}

pub fn hash64<T: Hash + ?Sized>(t: &T) -> u64 {
    // DefaultHasher::new() uses fixed keys: deterministic across processes.
    #[allow(deprecated)]
    let mut h = std::collections::hash_map::DefaultHasher::new();
    t.hash(&mut h);
    h.finish()
}

#[derive(Default)]
pub struct Stats {
    pub evaluations: u64,
    pub nontrivial: HashSet<u64>,
    pub labels: BTreeMap<String, u64>,
    pub known_hits: BTreeMap<String, u64>,
    pub excluded: u64,
    pub samples: Vec<Value>,
    pub per_campaign: BTreeMap<String, u64>,
    pub violations: Vec<(String, String, PathBuf)>, // signature, detail, replay path
    pub notes: Vec<String>,
}

const MAX_SAMPLES: usize = 8;

impl Stats {
    /// Record one executed case. `case` is only rendered when needed (sample).
    /// Returns true if the case is a new (unlisted) violation.
    pub fn record(
        &mut self,
        ctx: &Ctx,
        campaign: &str,
        outcome: &Outcome,
        case: &dyn Fn() -> Value,
    ) -> bool {
        let st = self;
        st.evaluations += 1;
        match st.per_campaign.get_mut(campaign) {
            Some(c) => *c += 1,
            None => {
                st.per_campaign.insert(campaign.to_string(), 1);
            }
        }
        st.excluded += outcome.excluded;
        for l in &outcome.labels {
            match st.labels.get_mut(l) {
                Some(c) => *c += 1,
                None => {
                    st.labels.insert(l.clone(), 1);
                }
            }
        }
        if let Some(k) = &outcome.nontrivial {
            let h = hash64(&(campaign, k));
            if st.nontrivial.insert(h) && st.samples.len() < MAX_SAMPLES {
                // spread samples over campaigns: at most 3 per campaign
                let n = st
                    .samples
                    .iter()
                    .filter(|s| s.get("campaign").and_then(|c| c.as_str()) == Some(campaign))
                    .count();
                if n < 3 {
                    st.samples.push(json!({"campaign": campaign, "case": case()}));
                }
            }
        }
        if let Some(f) = &outcome.failure {
            if !ctx.strict && ctx.findings.is_known(&f.signature) {
                *st.known_hits.entry(f.signature.clone()).or_insert(0) += 1;
                return false;
            }
            return true;
        }
        false
    }
}

pub struct Ctx {
    pub id: String,
    pub tier: Tier,
    pub seed: u64,
    pub root: PathBuf, // /verif
    pub findings: KnownFindings,
    pub stats: Mutex<Stats>,
    pub stop: AtomicBool,
    pub start: Instant,
    pub rule: Mutex<String>,
    pub assumptions: Mutex<Vec<String>>,
    pub exhaustive: AtomicBool,
    pub threads: usize,
    /// strict mode (replay): known findings are reported as failures too
    pub strict: bool,
    /// development aid (VERIF_COLLECT=1): keep going after a violation, reporting each new
    /// signature once
    pub collect: bool,
    /// development aid (VERIF_SLOW=<ms>): print cases slower than this
    pub slow_ms: Option<u128>,
    pub seen: Mutex<HashSet<String>>,
}

impl Ctx {
    pub fn new(id: &str, tier: Tier, seed: u64, root: PathBuf) -> Ctx {
        let findings = KnownFindings::load(&root.join("known_findings.json"), id);
        let threads = std::env::var("VERIF_THREADS")
            .ok()
            .and_then(|s| s.parse().ok())
            .unwrap_or_else(|| {
                std::thread::available_parallelism()
                    .map(|n| n.get())
                    .unwrap_or(8)
                    .min(16)
            });
        Ctx {
            id: id.to_string(),
            tier,
            seed,
            root,
            findings,
            stats: Mutex::new(Stats::default()),
            stop: AtomicBool::new(false),
            start: Instant::now(),
            rule: Mutex::new(String::new()),
            assumptions: Mutex::new(vec![]),
            exhaustive: AtomicBool::new(false),
            threads,
            strict: false,
            collect: std::env::var("VERIF_COLLECT").is_ok(),
            slow_ms: std::env::var("VERIF_SLOW").ok().and_then(|s| s.parse().ok()),
            seen: Mutex::new(HashSet::new()),
        }
    }

    pub fn set_rule(&self, rule: &str) {
        *self.rule.lock().unwrap() = rule.to_string();
    }
    pub fn assume(&self, a: &str) {
        self.assumptions.lock().unwrap().push(a.to_string());
    }
    pub fn note(&self, n: impl Into<String>) {
        self.stats.lock().unwrap().notes.push(n.into());
    }
    pub fn set_exhaustive(&self, b: bool) {
        self.exhaustive.store(b, Ordering::SeqCst);
    }
    pub fn stopped(&self) -> bool {
        self.stop.load(Ordering::SeqCst)
    }

    /// Seed for a named sub-stream.
    pub fn subseed(&self, campaign: &str, shard: u64) -> u64 {
        hash64(&(self.seed, &self.id, campaign, shard))
    }

    /// True if a failure signature is a listed known finding for this property (and we are not
    /// in strict replay mode).
    pub fn is_known(&self, signature: &str) -> bool {
        !self.strict && self.findings.is_known(signature)
    }

    /// Is the avoidance switch of a listed finding on? Generators use this to steer away from
    /// triggers of *listed* findings. Switches are keyed by known_findings.json entries.
    pub fn avoid(&self, switch: &str) -> bool {
        self.findings.avoid(switch)
    }

    /// Record one executed case (locks the shared statistics; workers use `Stats::record` on a
    /// local accumulator and `merge`). Returns true if the case is a new (unlisted) violation.
    pub fn record(&self, campaign: &str, outcome: &Outcome, case: &dyn Fn() -> Value) -> bool {
        let mut st = self.stats.lock().unwrap();
        st.record(self, campaign, outcome, case)
    }

    pub fn merge(&self, local: Stats) {
        let mut st = self.stats.lock().unwrap();
        st.evaluations += local.evaluations;
        st.excluded += local.excluded;
        for h in local.nontrivial {
            st.nontrivial.insert(h);
        }
        for (k, v) in local.labels {
            *st.labels.entry(k).or_insert(0) += v;
        }
        for (k, v) in local.known_hits {
            *st.known_hits.entry(k).or_insert(0) += v;
        }
        for (k, v) in local.per_campaign {
            *st.per_campaign.entry(k).or_insert(0) += v;
        }
        for s in local.samples {
            if st.samples.len() >= MAX_SAMPLES {
                break;
            }
            let c = s.get("campaign").and_then(|c| c.as_str()).unwrap_or("").to_string();
            let n = st
                .samples
                .iter()
                .filter(|x| x.get("campaign").and_then(|c| c.as_str()) == Some(c.as_str()))
                .count();
            if n < 3 {
                st.samples.push(s);
            }
        }
        st.notes.extend(local.notes);
    }

    /// Register a violation (already shrunk). Writes the replay file and prints the VIOLATION line.
    pub fn violation(&self, campaign: &str, failure: &Failure, case: Value) {
        let dir = self.root.join("out").join("violations").join(&self.id);
        let _ = std::fs::create_dir_all(&dir);
        let name = format!(
            "{}-{:016x}.json",
            campaign.replace(|c: char| !c.is_ascii_alphanumeric(), "_"),
            hash64(&(campaign, &failure.signature, case.to_string()))
        );
        let path = dir.join(name);
        let doc = json!({
            "property": self.id,
            "campaign": campaign,
            "signature": failure.signature,
            "detail": failure.detail,
            "case": case,
        });
        let _ = std::fs::write(&path, serde_json::to_string_pretty(&doc).unwrap());
        println!(
            "VIOLATION property={} replay={}",
            self.id,
            path.display()
        );
        println!("  campaign={} signature={}", campaign, failure.signature);
        let d: String = failure.detail.chars().take(1500).collect();
        println!("  detail: {}", d.replace('\n', "\n          "));
        let mut st = self.stats.lock().unwrap();
        st.violations
            .push((failure.signature.clone(), failure.detail.clone(), path));
        if !self.collect {
            self.stop.store(true, Ordering::SeqCst);
        }
    }

    /// Generic proptest-driven campaign, sharded over threads.
    ///
    /// * `make_strategy` builds the strategy (called once per worker).
    /// * `check` executes one case and returns its outcome. It must be a pure function of the case.
    /// * `encode` renders the case for samples / replay files.
    ///
    /// On an unlisted failure the case is shrunk with the predicate "still fails with the same
    /// signature", written as a replay file and reported; the campaign stops.
    pub fn campaign<T, S, MS, CK, EN>(
        &self,
        name: &str,
        cases: u64,
        make_strategy: MS,
        check: CK,
        encode: EN,
    ) where
        T: std::fmt::Debug + Clone,
        S: Strategy<Value = T>,
        MS: Fn() -> S + Sync,
        CK: Fn(&T) -> Outcome + Sync,
        EN: Fn(&T) -> Value + Sync,
    {
        if self.stopped() || cases == 0 {
            return;
        }
        let shards = (self.threads as u64).min(cases).max(1);
        let per = cases / shards;
        let extra = cases % shards;
        std::thread::scope(|scope| {
            for shard in 0..shards {
                let n = per + if shard < extra { 1 } else { 0 };
                let make_strategy = &make_strategy;
                let check = &check;
                let encode = &encode;
                std::thread::Builder::new()
                    .stack_size(512 << 20)
                    .spawn_scoped(scope, move || {
                        self.campaign_worker(name, shard, n, make_strategy, check, encode)
                    })
                    .expect("spawn worker");
            }
        });
    }

    fn campaign_worker<T, S, MS, CK, EN>(
        &self,
        name: &str,
        shard: u64,
        cases: u64,
        make_strategy: &MS,
        check: &CK,
        encode: &EN,
    ) where
        T: std::fmt::Debug + Clone,
        S: Strategy<Value = T>,
        MS: Fn() -> S,
        CK: Fn(&T) -> Outcome,
        EN: Fn(&T) -> Value,
    {
        let seed = self.subseed(name, shard);
        let mut seed_bytes = [0u8; 32];
        for i in 0..4 {
            seed_bytes[i * 8..(i + 1) * 8]
                .copy_from_slice(&hash64(&(seed, i as u64)).to_le_bytes());
        }
        let config = Config {
            failure_persistence: None,
            ..Config::default()
        };
        let mut runner = TestRunner::new_with_rng(
            config,
            TestRng::from_seed(RngAlgorithm::ChaCha, &seed_bytes),
        );
        let strategy = make_strategy();
        let mut local = Stats::default();
        for _ in 0..cases {
            if self.stopped() {
                break;
            }
            let mut tree = match strategy.new_tree(&mut runner) {
                Ok(t) => t,
                Err(_) => continue,
            };
            let value = tree.current();
            let t0 = Instant::now();
            let outcome = check(&value);
            if let Some(ms) = self.slow_ms {
                let el = t0.elapsed().as_millis();
                if el > ms {
                    eprintln!("SLOW {el} ms: {}", encode(&value));
                }
            }
            let is_new = local.record(self, name, &outcome, &|| encode(&value));
            if !is_new {
                continue;
            }
            // Unlisted failure: shrink with "same signature" predicate.
            let sig = outcome.failure.as_ref().unwrap().signature.clone();
            if self.collect && !self.seen.lock().unwrap().insert(sig.clone()) {
                continue;
            }
            let mut best = (value.clone(), outcome.failure.clone().unwrap());
            let mut budget = 3000u32;
            if tree.simplify() {
                loop {
                    if budget == 0 {
                        break;
                    }
                    budget -= 1;
                    let cur = tree.current();
                    let o = check(&cur);
                    let same = o
                        .failure
                        .as_ref()
                        .map(|f| f.signature == sig)
                        .unwrap_or(false);
                    if same {
                        best = (cur, o.failure.unwrap());
                        if !tree.simplify() {
                            break;
                        }
                    } else if !tree.complicate() {
                        break;
                    }
                }
            }
            // Another worker may have reported first; report anyway (distinct file), then stop.
            self.violation(name, &best.1, encode(&best.0));
            if !self.collect {
                break;
            }
        }
        self.merge(local);
    }

    /// Simple sequential/parallel enumeration helper: runs `check` over items, sharded by index.
    pub fn enumerate<T, CK, EN>(&self, name: &str, items: &[T], check: CK, encode: EN)
    where
        T: Sync,
        CK: Fn(&T) -> Outcome + Sync,
        EN: Fn(&T) -> Value + Sync,
    {
        if self.stopped() || items.is_empty() {
            return;
        }
        let shards = self.threads.min(items.len()).max(1);
        let chunk = items.len().div_ceil(shards);
        std::thread::scope(|scope| {
            for part in items.chunks(chunk) {
                let check = &check;
                let encode = &encode;
                std::thread::Builder::new()
                    .stack_size(512 << 20)
                    .spawn_scoped(scope, move || {
                        let mut local = Stats::default();
                        for it in part {
                            if self.stopped() {
                                break;
                            }
                            let o = check(it);
                            if local.record(self, name, &o, &|| encode(it)) {
                                self.violation(name, o.failure.as_ref().unwrap(), encode(it));
                                break;
                            }
                        }
                        self.merge(local);
                    })
                    .expect("spawn worker");
            }
        });
    }

    /// Write the evidence file and return the process exit code.
    pub fn finish(&self) -> i32 {
        let st = self.stats.lock().unwrap();
        let wall = self.start.elapsed().as_secs_f64();
        let mut samples = st.samples.clone();
        if samples.is_empty() {
            samples.push(json!("(no non-trivial case produced)"));
        }
        let known: Vec<Value> = self
            .findings
            .entries
            .iter()
            .map(|f| {
                json!({"signature": f.signature, "hits_this_run": st.known_hits.get(&f.signature).copied().unwrap_or(0)})
            })
            .collect();
        let ev = json!({
            "property_id": self.id,
            "tier": self.tier.name(),
            "seed": self.seed,
            "level": "exploration",
            "coverage": {
                "evaluations": st.evaluations,
                "distinct_nontrivial": st.nontrivial.len(),
                "rule": *self.rule.lock().unwrap(),
                "samples": samples,
                "exhaustive": self.exhaustive.load(Ordering::SeqCst),
                "per_campaign": st.per_campaign,
                "labels": st.labels,
                "known_findings": known,
                "excluded_by_construction": st.excluded,
                "notes": st.notes,
            },
            "assumptions": *self.assumptions.lock().unwrap(),
            "wall_s": (wall * 1000.0).round() / 1000.0,
            "violations": st.violations.len(),
        });
        let dir = self.root.join("evidence");
        let _ = std::fs::create_dir_all(&dir);
        let path = dir.join(format!("{}.json", self.id));
        std::fs::write(&path, serde_json::to_string_pretty(&ev).unwrap())
            .expect("write evidence");
        println!(
            "{} tier={} seed={} evaluations={} distinct_nontrivial={} known_hits={} violations={} wall={:.1}s",
            self.id,
            self.tier.name(),
            self.seed,
            st.evaluations,
            st.nontrivial.len(),
            st.known_hits.values().sum::<u64>(),
            st.violations.len(),
            wall
        );
        if st.violations.is_empty() {
            0
        } else {
            1
        }
    }
}
