//! Cell-input generators (text a user types into a cell) for histories and input properties.

use proptest::prelude::*;

/// Hot window used by history generators so that operations interact.
pub const HOT_ROWS: i32 = 10;
pub const HOT_COLS: i32 = 8;

pub fn col_name(c: i32) -> String {
    ironcalc_base::expressions::utils::number_to_column(c).unwrap_or_else(|| "A".into())
}

/// A1-style reference into the hot window, with optional `$`.
pub fn hot_ref() -> impl Strategy<Value = String> {
    (1..=HOT_ROWS, 1..=HOT_COLS, 0..4u8).prop_map(|(r, c, abs)| {
        format!(
            "{}{}{}{}",
            if abs & 1 == 1 { "$" } else { "" },
            col_name(c),
            if abs & 2 == 2 { "$" } else { "" },
            r
        )
    })
}

pub fn hot_range() -> impl Strategy<Value = String> {
    (1..=HOT_ROWS, 1..=HOT_COLS, 0..3i32, 0..3i32).prop_map(|(r, c, h, w)| {
        format!(
            "{}{}:{}{}",
            col_name(c),
            r,
            col_name((c + w).min(HOT_COLS + 2)),
            (r + h).min(HOT_ROWS + 2)
        )
    })
}

fn sheet_prefix() -> impl Strategy<Value = String> {
    prop_oneof![
        6 => Just(String::new()),
        1 => Just("Sheet1!".to_string()),
        1 => Just("Sheet2!".to_string()),
        1 => Just("'New name'!".to_string()),
        1 => Just("Ghost!".to_string()),
    ]
}

/// Formulas for history generators: small, referencing the hot window, other sheets, names,
/// spills. All non-volatile.
pub fn history_formula() -> BoxedStrategy<String> {
    history_formula_with(true)
}

/// `literals`: include array literals and dynamic-array formulas (spills). Off in the restricted
/// profiles: array literals display locale-dependently and formulas that read another
/// formula's spill can be evaluated before it (listed findings).
pub fn history_formula_with(literals: bool) -> BoxedStrategy<String> {
    let r = || (sheet_prefix(), hot_ref()).prop_map(|(p, r)| format!("{p}{r}"));
    let rg = || (sheet_prefix(), hot_range()).prop_map(|(p, r)| format!("{p}{r}"));
    prop_oneof![
        4 => (r(), -5..20i32).prop_map(|(a, n)| format!("={a}+{n}")),
        3 => (r(), r()).prop_map(|(a, b)| format!("={a}*{b}")),
        3 => rg().prop_map(|a| format!("=SUM({a})")),
        2 => (r(), r()).prop_map(|(a, b)| format!("=IF({a}>0,{b},\"neg\")")),
        1 => (r(), r()).prop_map(|(a, b)| format!("={a}&\"-\"&{b}")),
        1 => rg().prop_map(|a| format!("=COUNTA({a})")),
        1 => (1..4i32, 1..4i32).prop_map(move |(a, b)| if literals { format!("=SEQUENCE({a},{b})") } else { format!("=MAX({a},{b})") }),
        1 => rg().prop_map(move |a| if literals { format!("={a}*2") } else { format!("=SUM({a})*2") }),
        1 => Just("=alpha".to_string()),
        1 => Just("=bravo+1".to_string()),
        1 => if literals { Just("={1,2;3,4}".to_string()) } else { Just("=2^3".to_string()) },
        1 => r().prop_map(|a| format!("=-{a}%")),
        1 => (r(), r(), r()).prop_map(|(a, b, c)| format!("={a}-({b}-{c})")),
        1 => Just("=1/0".to_string()),
        1 => r().prop_map(move |a| if literals { format!("={a}#") } else { format!("=ABS({a})") }),
        1 => Just("=UNKNOWNFN(1)".to_string()),
        1 => Just("=1+".to_string()),
        // typed without the closing parenthesis: the engine completes the formula
        1 => prop_oneof![rg().prop_map(|a| format!("=SUM({a}")), r().prop_map(|a| format!("=ABS({a}*2"))],
    ]
    .boxed()
}

#[derive(Clone, Copy, Debug, PartialEq, Eq)]
pub enum InputClass {
    /// every shape
    Full,
    /// no shape that implies a number format, quote prefix, link or row auto-fit
    Plain,
    /// additionally: survives being re-typed from its display text (no arrays/spills/names,
    /// no long numbers)
    Safe,
}

/// Formulas that are plain single-cell formulas (no spills, arrays, names, parse errors).
pub fn safe_formula() -> impl Strategy<Value = String> {
    let r = || hot_ref();
    let rg = || hot_range();
    prop_oneof![
        4 => (r(), -5..20i32).prop_map(|(a, n)| format!("={a}+{n}")),
        3 => (r(), r()).prop_map(|(a, b)| format!("={a}*{b}")),
        3 => rg().prop_map(|a| format!("=SUM({a})")),
        2 => (r(), r()).prop_map(|(a, b)| format!("=IF({a}>0,{b},\"neg\")")),
        1 => (r(), r()).prop_map(|(a, b)| format!("={a}&\"-\"&{b}")),
        1 => rg().prop_map(|a| format!("=COUNTA({a})")),
        1 => (r(), r(), r()).prop_map(|(a, b, c)| format!("={a}-{b}*{c}")),
        1 => (sheet_sel_name(), r()).prop_map(|(s, a)| format!("={s}!{a}+1")),
    ]
}

fn sheet_sel_name() -> impl Strategy<Value = String> {
    prop_oneof![Just("Sheet1".to_string()), Just("Sheet2".to_string())]
}

/// Classes of typed input.
pub fn cell_input(class: InputClass) -> BoxedStrategy<String> {
    if class == InputClass::Safe {
        return prop_oneof![
            6 => (-1000..1000i32).prop_map(|n| n.to_string()),
            3 => (-1000..1000i32, 1..100u32).prop_map(|(n, d)| format!("{n}.{d:02}")),
            4 => "[a-z]{1,6}".prop_map(|s| s),
            1 => Just("Hello World".to_string()),
            2 => prop_oneof![Just("TRUE".to_string()), Just("FALSE".to_string())],
            1 => Just(String::new()),
            10 => safe_formula(),
        ]
        .boxed();
    }
    let plain = prop_oneof![
        6 => (-1000..1000i32).prop_map(|n| n.to_string()),
        3 => (-1000..1000i32, 0..100u32).prop_map(|(n, d)| format!("{n}.{d:02}")),
        1 => if class == InputClass::Full { Just("123456789012345678".to_string()) } else { Just("1234567".to_string()) },
        4 => "[a-z]{1,6}".prop_map(|s| s),
        1 => Just("Hello World".to_string()),
        1 => Just("ñandú €".to_string()),
        2 => prop_oneof![Just("TRUE".to_string()), Just("FALSE".to_string()), Just("true".to_string())],
        1 => prop_oneof![Just("#N/A".to_string()), Just("#DIV/0!".to_string()), Just("#REF!".to_string())],
        1 => Just(String::new()),
        10 => history_formula_with(class == InputClass::Full),
    ];
    if class == InputClass::Plain {
        return plain.boxed();
    }
    prop_oneof![
        20 => plain,
        1 => Just("1e3".to_string()),
        1 => Just("10%".to_string()),
        1 => Just("$5.50".to_string()),
        1 => Just("1,234".to_string()),
        1 => Just("2024-03-01".to_string()),
        1 => Just("'123".to_string()),
        1 => Just("'=1+1".to_string()),
        1 => Just("https://example.com/x".to_string()),
        1 => Just("line1\nline2".to_string()),
        1 => Just("12:30".to_string()),
        1 => Just(" 7 ".to_string()),
    ]
    .boxed()
}
