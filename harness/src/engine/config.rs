//! Language / locale configurations.

pub const LANGUAGES: [&str; 5] = ["en", "es", "fr", "de", "it"];

/// Locales supported by the engine, sorted (taken from the engine at run time so that a newly
/// added locale is picked up).
pub fn locales() -> Vec<String> {
    let mut l = ironcalc_base::get_supported_locales();
    l.sort();
    l
}

/// All (language, locale) pairs.
pub fn configs() -> Vec<(String, String)> {
    let mut v = vec![];
    for lang in LANGUAGES {
        for loc in locales() {
            v.push((lang.to_string(), loc));
        }
    }
    v
}
