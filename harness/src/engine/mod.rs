#![allow(dead_code)]
pub mod config;
pub mod ctx;
pub mod findings;
pub mod inputs;
pub mod nodes;
pub mod ops;
pub mod panics;
pub mod snapshot;

pub use ctx::{hash64, Ctx, Failure, Outcome, Tier};
