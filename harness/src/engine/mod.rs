pub mod config;
pub mod ctx;
pub mod findings;
pub mod panics;

pub use ctx::{hash64, Ctx, Failure, Outcome, Tier};
