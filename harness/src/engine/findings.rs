//! Known-findings file: committed, never written at run time.
//!
//! Format (`/verif/known_findings.json`):
//! ```json
//! { "findings": [ { "property": "C01", "signature": "...", "what": "...", "replay": "replays/C01/x.json",
//!                   "avoid": ["switch-name"], "in_campaigns": false } ],
//!   "fixed": [ "fixed: property=C23 <commit> <what failed>" ] }
//! ```
//! A failure is excused iff its signature equals a listed signature for the same property.

use std::path::Path;

use serde::Deserialize;

#[derive(Deserialize, Clone, Debug)]
pub struct Finding {
    pub property: String,
    pub signature: String,
    pub what: String,
    #[serde(default)]
    pub replay: Option<String>,
    #[serde(default)]
    pub avoid: Vec<String>,
    /// true: generated campaigns can still hit this finding (its trigger cannot be excluded by
    /// construction), so a campaign failure with this signature is counted, not reported.
    /// false (default): the finding is demonstrated by its replay file only; campaigns never
    /// excuse its signature, so a new defect with the same symptom is still reported.
    #[serde(default)]
    pub in_campaigns: bool,
}

#[derive(Deserialize, Default)]
struct File {
    #[serde(default)]
    findings: Vec<Finding>,
    #[serde(default)]
    #[allow(dead_code)]
    fixed: Vec<String>,
}

#[derive(Default)]
pub struct KnownFindings {
    pub entries: Vec<Finding>,
    /// switches of all listed findings of *all* properties (a defect listed under C12 is also
    /// avoided by C14's generator)
    pub switches: Vec<String>,
}

impl KnownFindings {
    pub fn load(path: &Path, property: &str) -> KnownFindings {
        let text = match std::fs::read_to_string(path) {
            Ok(t) => t,
            Err(_) => return KnownFindings::default(),
        };
        let file: File = match serde_json::from_str(&text) {
            Ok(f) => f,
            Err(e) => {
                eprintln!("known_findings.json does not parse: {e}");
                std::process::exit(2);
            }
        };
        let no_avoid = std::env::var("VERIF_NO_AVOID").is_ok();
        let mut switches = vec![];
        if !no_avoid {
            for f in &file.findings {
                for s in &f.avoid {
                    if !switches.contains(s) {
                        switches.push(s.clone());
                    }
                }
            }
        }
        KnownFindings {
            entries: file
                .findings
                .into_iter()
                .filter(|f| f.property == property)
                .collect(),
            switches,
        }
    }

    pub fn is_known(&self, signature: &str) -> bool {
        self.entries.iter().any(|f| f.in_campaigns && f.signature == signature)
    }

    pub fn avoid(&self, switch: &str) -> bool {
        self.switches.iter().any(|s| s == switch)
    }
}
