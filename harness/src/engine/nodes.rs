//! Helpers over the parser's `Node`: generic child walker and reference-leaf extraction.

use ironcalc_base::expressions::parser::Node;
use ironcalc_base::Model;

/// Visit `node` and all its descendants (pre-order).
pub fn walk<'a>(node: &'a Node, f: &mut dyn FnMut(&'a Node)) {
    f(node);
    match node {
        Node::OpRangeKind { left, right }
        | Node::OpConcatenateKind { left, right }
        | Node::OpSumKind { left, right, .. }
        | Node::OpProductKind { left, right, .. }
        | Node::OpPowerKind { left, right }
        | Node::CompareKind { left, right, .. } => {
            walk(left, f);
            walk(right, f);
        }
        Node::FunctionKind { args, .. } | Node::NamedFunctionKind { args, .. } => {
            for a in args {
                walk(a, f);
            }
        }
        Node::LambdaDefKind { body, .. } => walk(body, f),
        Node::LambdaCallKind { lambda, args } => {
            walk(lambda, f);
            for a in args {
                walk(a, f);
            }
        }
        Node::ImplicitIntersection { child, .. } | Node::SpillRangeOperator { child } => walk(child, f),
        Node::UnaryKind { right, .. } => walk(right, f),
        _ => {}
    }
}

/// A resolved reference leaf of a formula hosted at a given cell.
#[derive(Clone, Debug, PartialEq)]
pub struct RefLeaf {
    /// target sheet index; None for references to nonexistent sheets
    pub sheet: Option<u32>,
    pub row1: i32,
    pub col1: i32,
    pub row2: i32,
    pub col2: i32,
    pub is_range: bool,
}

/// Resolve the reference leaves of `node` for a formula hosted at (`row`, `column`).
/// Stored nodes keep *relative* coordinates for non-absolute parts.
pub fn ref_leaves(node: &Node, row: i32, column: i32) -> Vec<RefLeaf> {
    let mut out = vec![];
    walk(node, &mut |n| match n {
        Node::ReferenceKind { sheet_index, absolute_row, absolute_column, row: r, column: c, .. } => {
            let rr = if *absolute_row { *r } else { *r + row };
            let cc = if *absolute_column { *c } else { *c + column };
            out.push(RefLeaf { sheet: Some(*sheet_index), row1: rr, col1: cc, row2: rr, col2: cc, is_range: false });
        }
        Node::RangeKind {
            sheet_index,
            absolute_row1,
            absolute_column1,
            row1,
            column1,
            absolute_row2,
            absolute_column2,
            row2,
            column2,
            ..
        } => {
            let r1 = if *absolute_row1 { *row1 } else { *row1 + row };
            let c1 = if *absolute_column1 { *column1 } else { *column1 + column };
            let r2 = if *absolute_row2 { *row2 } else { *row2 + row };
            let c2 = if *absolute_column2 { *column2 } else { *column2 + column };
            out.push(RefLeaf {
                sheet: Some(*sheet_index),
                row1: r1.min(r2),
                col1: c1.min(c2),
                row2: r1.max(r2),
                col2: c1.max(c2),
                is_range: true,
            });
        }
        Node::WrongReferenceKind { absolute_row, absolute_column, row: r, column: c, .. } => {
            let rr = if *absolute_row { *r } else { *r + row };
            let cc = if *absolute_column { *c } else { *c + column };
            out.push(RefLeaf { sheet: None, row1: rr, col1: cc, row2: rr, col2: cc, is_range: false });
        }
        Node::WrongRangeKind {
            absolute_row1,
            absolute_column1,
            row1,
            column1,
            absolute_row2,
            absolute_column2,
            row2,
            column2,
            ..
        } => {
            let r1 = if *absolute_row1 { *row1 } else { *row1 + row };
            let c1 = if *absolute_column1 { *column1 } else { *column1 + column };
            let r2 = if *absolute_row2 { *row2 } else { *row2 + row };
            let c2 = if *absolute_column2 { *column2 } else { *column2 + column };
            out.push(RefLeaf { sheet: None, row1: r1.min(r2), col1: c1.min(c2), row2: r1.max(r2), col2: c1.max(c2), is_range: true });
        }
        _ => {}
    });
    out
}

/// All formula cells of the model with their parsed node: (sheet, row, column, node).
pub fn formula_cells<'a>(model: &'a Model) -> Vec<(u32, i32, i32, &'a Node)> {
    let mut out = vec![];
    for (si, ws) in model.workbook.worksheets.iter().enumerate() {
        for (&row, rd) in &ws.sheet_data {
            for (&col, cell) in rd {
                if let Some(f) = cell.get_formula() {
                    if let Some((node, _)) = model.parsed_formulas.get(si).and_then(|v| v.get(f as usize)) {
                        out.push((si as u32, row, col, node));
                    }
                }
            }
        }
    }
    out
}

/// Does any formula in the workbook reference (a cell of) the rows [row, row+n) of `sheet`?
pub fn any_formula_reads_rows(model: &Model, sheet: u32, row: i32, n: i32) -> bool {
    for (_s, r, c, node) in formula_cells(model) {
        for leaf in ref_leaves(node, r, c) {
            if leaf.sheet == Some(sheet) && leaf.row1 < row + n && leaf.row2 >= row {
                return true;
            }
        }
    }
    false
}

pub fn any_formula_reads_columns(model: &Model, sheet: u32, col: i32, n: i32) -> bool {
    for (_s, r, c, node) in formula_cells(model) {
        for leaf in ref_leaves(node, r, c) {
            if leaf.sheet == Some(sheet) && leaf.col1 < col + n && leaf.col2 >= col {
                return true;
            }
        }
    }
    false
}

/// Does any formula reference a nonexistent sheet?
pub fn has_ghost_refs(model: &Model) -> bool {
    // every stored formula, including ones no cell uses any more (undo can bring them back)
    for sheet in &model.parsed_formulas {
        for (node, _) in sheet {
            if ref_leaves(node, 1, 1).iter().any(|l| l.sheet.is_none()) {
                return true;
            }
        }
    }
    false
}
