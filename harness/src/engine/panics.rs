//! Panic capture: `catch` runs a closure, returning the panic (message + location) as a value.

use std::cell::RefCell;
use std::panic::{catch_unwind, AssertUnwindSafe};

#[derive(Clone, Debug, PartialEq)]
pub struct Panic {
    pub message: String,
    pub file: String,
    pub line: u32,
}

impl Panic {
    /// Root-cause class: source file + message with digits and quoted payloads normalised.
    pub fn class(&self) -> String {
        let file = self
            .file
            .rsplit("/src/")
            .next()
            .unwrap_or(&self.file)
            .to_string();
        let mut msg = String::new();
        let mut last_digit = false;
        for c in self.message.chars().take(80) {
            if c.is_ascii_digit() {
                if !last_digit {
                    msg.push('N');
                }
                last_digit = true;
            } else {
                last_digit = false;
                msg.push(if c == ' ' { '_' } else { c });
            }
        }
        format!("panic:{}:{}", file, msg)
    }
    pub fn describe(&self) -> String {
        format!("panic at {}:{}: {}", self.file, self.line, self.message)
    }
}

thread_local! {
    static LAST: RefCell<Option<Panic>> = const { RefCell::new(None) };
    static QUIET: RefCell<bool> = const { RefCell::new(false) };
}

pub fn install_hook() {
    let default = std::panic::take_hook();
    std::panic::set_hook(Box::new(move |info| {
        let message = if let Some(s) = info.payload().downcast_ref::<&str>() {
            s.to_string()
        } else if let Some(s) = info.payload().downcast_ref::<String>() {
            s.clone()
        } else {
            "<non-string panic>".to_string()
        };
        let (file, line) = info
            .location()
            .map(|l| (l.file().to_string(), l.line()))
            .unwrap_or(("<unknown>".to_string(), 0));
        LAST.with(|l| {
            *l.borrow_mut() = Some(Panic {
                message,
                file,
                line,
            })
        });
        let quiet = QUIET.with(|q| *q.borrow());
        if !quiet {
            default(info);
        }
    }));
}

/// Run `f`, capturing a panic as a value. The panic message is not printed.
pub fn catch<T>(f: impl FnOnce() -> T) -> Result<T, Panic> {
    QUIET.with(|q| *q.borrow_mut() = true);
    LAST.with(|l| *l.borrow_mut() = None);
    let r = catch_unwind(AssertUnwindSafe(f));
    QUIET.with(|q| *q.borrow_mut() = false);
    match r {
        Ok(v) => Ok(v),
        Err(_) => Err(LAST.with(|l| l.borrow_mut().take()).unwrap_or(Panic {
            message: "<unknown>".into(),
            file: "<unknown>".into(),
            line: 0,
        })),
    }
}
