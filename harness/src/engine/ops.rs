//! Operation language over `UserModel`, its generators and interpreter.
//!
//! An `Op` is a concrete, serialisable operation. Sheet arguments are *selectors* resolved
//! against the current number of sheets (`sel % count`), conditional-format indices likewise, so
//! that removing an op from a history (shrinking) never makes the rest meaningless. Execution is
//! a pure function of the op list, so replay files hold the op list as generated.

use ironcalc_base::cf_types::{CfRuleInput, Cfvo, ColorScaleThreshold, TextOperator, ValueOperator};
use ironcalc_base::expressions::types::Area;
use ironcalc_base::types::{Color, Dxf, DxfFont, Fill, Link, Style, StyleIncludes, Theme};
use ironcalc_base::{BorderArea, ClipboardData, UserModel};
use proptest::prelude::*;
use serde::{Deserialize, Serialize};

use super::inputs::{cell_input, InputClass, HOT_COLS, HOT_ROWS};
use super::panics::{self, Panic};

pub const LAST_ROW: i32 = 1_048_576;
pub const LAST_COLUMN: i32 = 16_384;

#[derive(Clone, Debug, Serialize, Deserialize, PartialEq)]
pub struct A {
    pub s: u8,
    pub row: i32,
    pub col: i32,
    pub w: i32,
    pub h: i32,
}

#[derive(Clone, Debug, Serialize, Deserialize, PartialEq)]
pub enum Op {
    Input { s: u8, row: i32, col: i32, text: String },
    ArrayFormula { s: u8, row: i32, col: i32, w: i32, h: i32, text: String },
    ClearContents(A),
    ClearAll(A),
    ClearFormatting(A),
    UpdateStyle { a: A, path: String, value: String },
    Border { a: A, kind: String, style: String, color: String },
    PasteStyles { style: Box<Style>, w: u8, h: u8 },
    NamedStyleCreate { name: String, style: Box<Style>, num_only: bool },
    NamedStyleUpdate { name: String, new_name: String, style: Box<Style>, num_only: bool },
    NamedStyleDelete { name: String },
    NamedStyleApply { name: String },
    InsertRows { s: u8, row: i32, n: i32 },
    InsertCols { s: u8, col: i32, n: i32 },
    DeleteRows { s: u8, row: i32, n: i32 },
    DeleteCols { s: u8, col: i32, n: i32 },
    MoveRows { s: u8, row: i32, n: i32, delta: i32 },
    MoveCols { s: u8, col: i32, n: i32, delta: i32 },
    ColsWidth { s: u8, c1: i32, c2: i32, width: f64 },
    RowsHeight { s: u8, r1: i32, r2: i32, height: f64 },
    ColsHidden { s: u8, c1: i32, c2: i32, hidden: bool },
    RowsHidden { s: u8, r1: i32, r2: i32, hidden: bool },
    NewSheet,
    DeleteSheet(u8),
    DuplicateSheet(u8),
    RenameSheet(u8, String),
    MoveSheet(u8, u8),
    HideSheet(u8),
    UnhideSheet(u8),
    SheetColor(u8, String),
    /// colour passed to the engine unvalidated (`Color::Rgb(text)`)
    SheetColorRaw(u8, String),
    FrozenRows(u8, i32),
    FrozenCols(u8, i32),
    GridLines(u8, bool),
    NameNew { name: String, scope: Option<u8>, formula: String },
    NameUpdate { name: String, scope: Option<u8>, new_name: String, new_scope: Option<u8>, formula: String },
    NameDelete { name: String, scope: Option<u8> },
    LinkSet { s: u8, row: i32, col: i32, link: Link, label: Option<String> },
    LinkDelete { s: u8, row: i32, col: i32 },
    CfAdd { s: u8, range: String, rule: Box<CfRuleInput> },
    CfUpdate { s: u8, idx: u8, range: String, rule: Box<CfRuleInput> },
    CfDelete { s: u8, idx: u8 },
    CfRaise { s: u8, idx: u8 },
    CfLower { s: u8, idx: u8 },
    /// select `src` on its sheet, copy, select target cell, paste (optionally as cut)
    CopyPaste { src: A, ts: u8, trow: i32, tcol: i32, cut: bool },
    PasteCsv { a: A, csv: String },
    AutofillRows { a: A, to_row: i32 },
    AutofillCols { a: A, to_col: i32 },
    SetLocale(String),
    SetTimezone(String),
    SetName(String),
    SetTheme(u8),
    // ---- not recorded in history
    SetLanguage(String),
    SelectSheet(u8),
    SelectCell { row: i32, col: i32 },
    SelectRange { r1: i32, c1: i32, r2: i32, c2: i32 },
    Key(String),
    ExpandSelection(String),
    AreaSelecting { row: i32, col: i32 },
    NavigateEdge(String),
    WindowSize(f64, f64),
    Pause,
    Resume,
    Evaluate,
    Undo,
    Redo,
    Flush,
}

impl Op {
    pub fn kind(&self) -> &'static str {
        match self {
            Op::Input { .. } => "Input",
            Op::ArrayFormula { .. } => "ArrayFormula",
            Op::ClearContents(_) => "ClearContents",
            Op::ClearAll(_) => "ClearAll",
            Op::ClearFormatting(_) => "ClearFormatting",
            Op::UpdateStyle { .. } => "UpdateStyle",
            Op::Border { .. } => "Border",
            Op::PasteStyles { .. } => "PasteStyles",
            Op::NamedStyleCreate { .. } => "NamedStyleCreate",
            Op::NamedStyleUpdate { .. } => "NamedStyleUpdate",
            Op::NamedStyleDelete { .. } => "NamedStyleDelete",
            Op::NamedStyleApply { .. } => "NamedStyleApply",
            Op::InsertRows { .. } => "InsertRows",
            Op::InsertCols { .. } => "InsertCols",
            Op::DeleteRows { .. } => "DeleteRows",
            Op::DeleteCols { .. } => "DeleteCols",
            Op::MoveRows { .. } => "MoveRows",
            Op::MoveCols { .. } => "MoveCols",
            Op::ColsWidth { .. } => "ColsWidth",
            Op::RowsHeight { .. } => "RowsHeight",
            Op::ColsHidden { .. } => "ColsHidden",
            Op::RowsHidden { .. } => "RowsHidden",
            Op::NewSheet => "NewSheet",
            Op::DeleteSheet(_) => "DeleteSheet",
            Op::DuplicateSheet(_) => "DuplicateSheet",
            Op::RenameSheet(..) => "RenameSheet",
            Op::MoveSheet(..) => "MoveSheet",
            Op::HideSheet(_) => "HideSheet",
            Op::UnhideSheet(_) => "UnhideSheet",
            Op::SheetColor(..) => "SheetColor",
            Op::SheetColorRaw(..) => "SheetColorRaw",
            Op::FrozenRows(..) => "FrozenRows",
            Op::FrozenCols(..) => "FrozenCols",
            Op::GridLines(..) => "GridLines",
            Op::NameNew { .. } => "NameNew",
            Op::NameUpdate { .. } => "NameUpdate",
            Op::NameDelete { .. } => "NameDelete",
            Op::LinkSet { .. } => "LinkSet",
            Op::LinkDelete { .. } => "LinkDelete",
            Op::CfAdd { .. } => "CfAdd",
            Op::CfUpdate { .. } => "CfUpdate",
            Op::CfDelete { .. } => "CfDelete",
            Op::CfRaise { .. } => "CfRaise",
            Op::CfLower { .. } => "CfLower",
            Op::CopyPaste { cut: false, .. } => "CopyPaste",
            Op::CopyPaste { cut: true, .. } => "CutPaste",
            Op::PasteCsv { .. } => "PasteCsv",
            Op::AutofillRows { .. } => "AutofillRows",
            Op::AutofillCols { .. } => "AutofillCols",
            Op::SetLocale(_) => "SetLocale",
            Op::SetTimezone(_) => "SetTimezone",
            Op::SetName(_) => "SetName",
            Op::SetTheme(_) => "SetTheme",
            Op::SetLanguage(_) => "SetLanguage",
            Op::SelectSheet(_) => "SelectSheet",
            Op::SelectCell { .. } => "SelectCell",
            Op::SelectRange { .. } => "SelectRange",
            Op::Key(_) => "Key",
            Op::ExpandSelection(_) => "ExpandSelection",
            Op::AreaSelecting { .. } => "AreaSelecting",
            Op::NavigateEdge(_) => "NavigateEdge",
            Op::WindowSize(..) => "WindowSize",
            Op::Pause => "Pause",
            Op::Resume => "Resume",
            Op::Evaluate => "Evaluate",
            Op::Undo => "Undo",
            Op::Redo => "Redo",
            Op::Flush => "Flush",
        }
    }

    pub fn is_structural(&self) -> bool {
        matches!(
            self,
            Op::InsertRows { .. }
                | Op::InsertCols { .. }
                | Op::DeleteRows { .. }
                | Op::DeleteCols { .. }
                | Op::MoveRows { .. }
                | Op::MoveCols { .. }
        )
    }
    pub fn is_sheet_op(&self) -> bool {
        matches!(
            self,
            Op::NewSheet
                | Op::DeleteSheet(_)
                | Op::DuplicateSheet(_)
                | Op::RenameSheet(..)
                | Op::MoveSheet(..)
                | Op::HideSheet(_)
                | Op::UnhideSheet(_)
        )
    }
}

pub fn leak(s: &str) -> &'static str {
    // language / locale ids come from a fixed small set; leak each once
    use std::collections::HashMap;
    use std::sync::Mutex;
    static POOL: Mutex<Option<HashMap<String, &'static str>>> = Mutex::new(None);
    let mut g = POOL.lock().unwrap();
    let m = g.get_or_insert_with(HashMap::new);
    if let Some(v) = m.get(s) {
        return v;
    }
    let l: &'static str = Box::leak(s.to_string().into_boxed_str());
    m.insert(s.to_string(), l);
    l
}

pub fn new_user_model(locale: &str, language: &str) -> UserModel<'static> {
    UserModel::new_empty("model", leak(locale), "UTC", leak(language)).expect("new_empty")
}

fn sheet_count(um: &UserModel) -> u32 {
    um.get_model().workbook.worksheets.len() as u32
}

/// Sheet selectors 0..=199 are resolved modulo the current sheet count; 200..=255 are passed
/// through as raw (nonexistent) sheet indices -- used by the invalid-argument generators.
pub fn res_sheet(um: &UserModel, sel: u8) -> u32 {
    if sel >= 200 {
        return sel as u32;
    }
    let n = sheet_count(um).max(1);
    sel as u32 % n
}

fn area(um: &UserModel, a: &A) -> Area {
    Area {
        sheet: res_sheet(um, a.s),
        row: a.row,
        column: a.col,
        width: a.w,
        height: a.h,
    }
}

fn border_area(kind: &str, style: &str, color: &str) -> Result<BorderArea, String> {
    let v = serde_json::json!({"item": {"style": style, "color": color}, "type": kind});
    serde_json::from_value::<BorderArea>(v).map_err(|e| e.to_string())
}

pub fn theme(i: u8) -> Theme {
    let mut t = Theme::default();
    match i % 3 {
        0 => {}
        1 => {
            t.name = "Verif".into();
            t.accent1 = "#112233".into();
            t.dk1 = "#010101".into();
        }
        _ => {
            t.name = "Other".into();
            t.lt1 = "#FEFEFE".into();
            t.hlink = "#00AA00".into();
        }
    }
    t
}

#[derive(Debug, Clone, PartialEq)]
pub enum Applied {
    Ok,
    Err(String),
    Panic(Panic),
    /// `Flush` returns the queue bytes
    Flushed(Vec<u8>),
}

impl Applied {
    pub fn is_ok(&self) -> bool {
        matches!(self, Applied::Ok | Applied::Flushed(_))
    }
}

fn r(x: Result<(), String>) -> Applied {
    match x {
        Ok(()) => Applied::Ok,
        Err(e) => Applied::Err(e),
    }
}

/// Execute one op. Panics are captured.
pub fn apply(um: &mut UserModel<'static>, op: &Op) -> Applied {
    match panics::catch(|| apply_inner(um, op)) {
        Ok(a) => a,
        Err(p) => Applied::Panic(p),
    }
}

fn apply_inner(um: &mut UserModel<'static>, op: &Op) -> Applied {
    match op {
        Op::Input { s, row, col, text } => {
            let sh = res_sheet(um, *s);
            r(um.set_user_input(sh, *row, *col, text))
        }
        Op::ArrayFormula { s, row, col, w, h, text } => {
            let sh = res_sheet(um, *s);
            r(um.set_user_array_formula(sh, *row, *col, *w, *h, text))
        }
        Op::ClearContents(a) => r(um.range_clear_contents(&area(um, a))),
        Op::ClearAll(a) => r(um.range_clear_all(&area(um, a))),
        Op::ClearFormatting(a) => r(um.range_clear_formatting(&area(um, a))),
        Op::UpdateStyle { a, path, value } => r(um.update_range_style(&area(um, a), path, value)),
        Op::Border { a, kind, style, color } => match border_area(kind, style, color) {
            Ok(b) => r(um.set_area_with_border(&area(um, a), &b)),
            Err(e) => Applied::Err(format!("harness: {e}")),
        },
        Op::PasteStyles { .. } | Op::NamedStyleApply { .. } if selection_cells(um) > 4096 => {
            // cost guard: these operations touch every cell of the selection, and hiding a
            // column/row selects a whole column/row (1M cells)
            Applied::Err("harness: cost guard, selection too large".into())
        }
        Op::PasteStyles { style, w, h } => {
            let row: Vec<Style> = (0..(*w).max(1)).map(|_| (**style).clone()).collect();
            let m: Vec<Vec<Style>> = (0..(*h).max(1)).map(|_| row.clone()).collect();
            r(um.on_paste_styles(&m))
        }
        Op::NamedStyleCreate { name, style, num_only } => {
            r(um.create_named_style(name, style, includes(*num_only)))
        }
        Op::NamedStyleUpdate { name, new_name, style, num_only } => {
            r(um.update_named_style(name, new_name, style, includes(*num_only)))
        }
        Op::NamedStyleDelete { name } => r(um.delete_named_style(name)),
        Op::NamedStyleApply { name } => r(um.on_apply_named_style(name)),
        Op::InsertRows { s, row, n } => {
            let sh = res_sheet(um, *s);
            r(um.insert_rows(sh, *row, *n))
        }
        Op::InsertCols { s, col, n } => {
            let sh = res_sheet(um, *s);
            r(um.insert_columns(sh, *col, *n))
        }
        Op::DeleteRows { s, row, n } => {
            let sh = res_sheet(um, *s);
            r(um.delete_rows(sh, *row, *n))
        }
        Op::DeleteCols { s, col, n } => {
            let sh = res_sheet(um, *s);
            r(um.delete_columns(sh, *col, *n))
        }
        Op::MoveRows { s, row, n, delta } => {
            let sh = res_sheet(um, *s);
            r(um.move_rows_action(sh, *row, *n, *delta))
        }
        Op::MoveCols { s, col, n, delta } => {
            let sh = res_sheet(um, *s);
            r(um.move_columns_action(sh, *col, *n, *delta))
        }
        Op::ColsWidth { s, c1, c2, width } => {
            let sh = res_sheet(um, *s);
            r(um.set_columns_width(sh, *c1, *c2, *width))
        }
        Op::RowsHeight { s, r1, r2, height } => {
            let sh = res_sheet(um, *s);
            r(um.set_rows_height(sh, *r1, *r2, *height))
        }
        Op::ColsHidden { s, c1, c2, hidden } => {
            let sh = res_sheet(um, *s);
            r(um.set_columns_hidden(sh, *c1, *c2, *hidden))
        }
        Op::RowsHidden { s, r1, r2, hidden } => {
            let sh = res_sheet(um, *s);
            r(um.set_rows_hidden(sh, *r1, *r2, *hidden))
        }
        Op::NewSheet => r(um.new_sheet()),
        Op::DeleteSheet(s) => {
            let sh = res_sheet(um, *s);
            r(um.delete_sheet(sh))
        }
        Op::DuplicateSheet(s) => {
            let sh = res_sheet(um, *s);
            r(um.duplicate_sheet(sh))
        }
        Op::RenameSheet(s, name) => {
            let sh = res_sheet(um, *s);
            r(um.rename_sheet(sh, name))
        }
        Op::MoveSheet(s, t) => {
            let sh = res_sheet(um, *s);
            let to = res_sheet(um, *t);
            r(um.move_sheet(sh, to))
        }
        Op::HideSheet(s) => {
            let sh = res_sheet(um, *s);
            r(um.hide_sheet(sh))
        }
        Op::UnhideSheet(s) => {
            let sh = res_sheet(um, *s);
            r(um.unhide_sheet(sh))
        }
        Op::SheetColor(s, c) => {
            let sh = res_sheet(um, *s);
            match Color::from_param(c) {
                Ok(color) => r(um.set_sheet_color(sh, &color)),
                Err(e) => Applied::Err(format!("harness: {e}")),
            }
        }
        Op::SheetColorRaw(s, c) => {
            let sh = res_sheet(um, *s);
            r(um.set_sheet_color(sh, &Color::Rgb(c.clone())))
        }
        Op::FrozenRows(s, n) => {
            let sh = res_sheet(um, *s);
            r(um.set_frozen_rows_count(sh, *n))
        }
        Op::FrozenCols(s, n) => {
            let sh = res_sheet(um, *s);
            r(um.set_frozen_columns_count(sh, *n))
        }
        Op::GridLines(s, b) => {
            let sh = res_sheet(um, *s);
            r(um.set_show_grid_lines(sh, *b))
        }
        Op::NameNew { name, scope, formula } => {
            let sc = scope.map(|s| res_sheet(um, s));
            r(um.new_defined_name(name, sc, formula))
        }
        Op::NameUpdate { name, scope, new_name, new_scope, formula } => {
            let sc = scope.map(|s| res_sheet(um, s));
            let nsc = new_scope.map(|s| res_sheet(um, s));
            r(um.update_defined_name(name, sc, new_name, nsc, formula))
        }
        Op::NameDelete { name, scope } => {
            let sc = scope.map(|s| res_sheet(um, s));
            r(um.delete_defined_name(name, sc))
        }
        Op::LinkSet { s, row, col, link, label } => {
            let sh = res_sheet(um, *s);
            r(um.set_cell_link(sh, *row, *col, link.clone(), label.as_deref()))
        }
        Op::LinkDelete { s, row, col } => {
            let sh = res_sheet(um, *s);
            r(um.delete_cell_link(sh, *row, *col))
        }
        Op::CfAdd { s, range, rule } => {
            let sh = res_sheet(um, *s);
            r(um.add_conditional_formatting(sh, range, (**rule).clone()))
        }
        Op::CfUpdate { s, idx, range, rule } => {
            let sh = res_sheet(um, *s);
            let i = cf_index(um, sh, *idx);
            r(um.update_conditional_formatting(sh, i, range, (**rule).clone()))
        }
        Op::CfDelete { s, idx } => {
            let sh = res_sheet(um, *s);
            let i = cf_index(um, sh, *idx);
            r(um.delete_conditional_formatting(sh, i))
        }
        Op::CfRaise { s, idx } => {
            let sh = res_sheet(um, *s);
            let i = cf_index(um, sh, *idx);
            r(um.raise_conditional_formatting_priority(sh, i))
        }
        Op::CfLower { s, idx } => {
            let sh = res_sheet(um, *s);
            let i = cf_index(um, sh, *idx);
            r(um.lower_conditional_formatting_priority(sh, i))
        }
        Op::CopyPaste { src, ts, trow, tcol, cut } => {
            let ssh = res_sheet(um, src.s);
            let tsh = res_sheet(um, *ts);
            // view changes are not recorded in history
            if let Err(e) = um.set_selected_sheet(ssh) {
                return Applied::Err(format!("select: {e}"));
            }
            if let Err(e) = um.set_selected_cell(src.row, src.col) {
                return Applied::Err(format!("select: {e}"));
            }
            if let Err(e) = um.set_selected_range(src.row, src.col, src.row + src.h - 1, src.col + src.w - 1) {
                return Applied::Err(format!("select: {e}"));
            }
            let clip = match um.copy_to_clipboard() {
                Ok(c) => c,
                Err(e) => return Applied::Err(format!("copy: {e}")),
            };
            // through serde exactly as the bindings do
            let v = match serde_json::to_value(&clip) {
                Ok(v) => v,
                Err(e) => return Applied::Err(format!("harness: {e}")),
            };
            let data: ClipboardData = match serde_json::from_value(v["data"].clone()) {
                Ok(d) => d,
                Err(e) => return Applied::Err(format!("harness: {e}")),
            };
            let range: (i32, i32, i32, i32) = match serde_json::from_value(v["range"].clone()) {
                Ok(d) => d,
                Err(e) => return Applied::Err(format!("harness: {e}")),
            };
            let sheet: u32 = v["sheet"].as_u64().unwrap_or(0) as u32;
            if let Err(e) = um.set_selected_sheet(tsh) {
                return Applied::Err(format!("select: {e}"));
            }
            if let Err(e) = um.set_selected_cell(*trow, *tcol) {
                return Applied::Err(format!("select: {e}"));
            }
            r(um.paste_from_clipboard(sheet, range, &data, *cut))
        }
        Op::PasteCsv { a, csv } => {
            // a UI pastes at the selected cell: select it first (view changes are not recorded)
            // (with invalid targets the selection cannot be set; the paste call is still made)
            let sh = res_sheet(um, a.s);
            let _ = um.set_selected_sheet(sh);
            let _ = um.set_selected_cell(a.row, a.col);
            r(um.paste_csv_string(&area(um, a), csv))
        }
        Op::AutofillRows { a, to_row } => r(um.auto_fill_rows(&area(um, a), *to_row)),
        Op::AutofillCols { a, to_col } => r(um.auto_fill_columns(&area(um, a), *to_col)),
        Op::SetLocale(l) => r(um.set_locale(l)),
        Op::SetTimezone(t) => r(um.set_timezone(t)),
        Op::SetName(n) => {
            um.set_name(n);
            Applied::Ok
        }
        Op::SetTheme(i) => {
            um.set_theme(theme(*i));
            Applied::Ok
        }
        Op::SetLanguage(l) => r(um.set_language(leak(l))),
        Op::SelectSheet(s) => {
            let sh = res_sheet(um, *s);
            r(um.set_selected_sheet(sh))
        }
        Op::SelectCell { row, col } => r(um.set_selected_cell(*row, *col)),
        Op::SelectRange { r1, c1, r2, c2 } => {
            // the selected cell must be a corner of the range
            if let Err(e) = um.set_selected_cell(*r1, *c1) {
                return Applied::Err(e);
            }
            r(um.set_selected_range(*r1, *c1, *r2, *c2))
        }
        Op::Key(k) => match k.as_str() {
            "ArrowRight" => r(um.on_arrow_right()),
            "ArrowLeft" => r(um.on_arrow_left()),
            "ArrowUp" => r(um.on_arrow_up()),
            "ArrowDown" => r(um.on_arrow_down()),
            "PageDown" => r(um.on_page_down()),
            "PageUp" => r(um.on_page_up()),
            _ => Applied::Err("harness: unknown key".into()),
        },
        Op::ExpandSelection(k) => r(um.on_expand_selected_range(k)),
        Op::AreaSelecting { row, col } => r(um.on_area_selecting(*row, *col)),
        Op::NavigateEdge(d) => {
            use ironcalc_base::worksheet::NavigationDirection as D;
            let dir = match d.as_str() {
                "Left" => D::Left,
                "Right" => D::Right,
                "Up" => D::Up,
                _ => D::Down,
            };
            r(um.on_navigate_to_edge_in_direction(dir))
        }
        Op::WindowSize(w, h) => {
            um.set_window_width(*w);
            um.set_window_height(*h);
            Applied::Ok
        }
        Op::Pause => {
            um.pause_evaluation();
            Applied::Ok
        }
        Op::Resume => {
            um.resume_evaluation();
            um.evaluate();
            Applied::Ok
        }
        Op::Evaluate => {
            um.evaluate();
            Applied::Ok
        }
        Op::Undo => r(um.undo()),
        Op::Redo => r(um.redo()),
        Op::Flush => Applied::Flushed(um.flush_send_queue()),
    }
}

fn selection_cells(um: &UserModel) -> i64 {
    let v = um.get_selected_view();
    let [r1, c1, r2, c2] = v.range;
    ((r2 - r1).abs() as i64 + 1) * ((c2 - c1).abs() as i64 + 1)
}

fn includes(num_only: bool) -> StyleIncludes {
    if num_only {
        StyleIncludes {
            number_format: true,
            font: false,
            fill: false,
            border: false,
            alignment: false,
            protection: false,
        }
    } else {
        StyleIncludes::default()
    }
}

fn cf_index(um: &UserModel, sheet: u32, idx: u8) -> u32 {
    let n = um
        .get_model()
        .workbook
        .worksheets
        .get(sheet as usize)
        .map(|w| w.conditional_formatting.len())
        .unwrap_or(0);
    if n == 0 || idx >= 200 {
        idx as u32
    } else {
        idx as u32 % n as u32
    }
}

// ------------------------------------------------------------------------------------------
// Generators
// ------------------------------------------------------------------------------------------

pub fn sheet_sel() -> impl Strategy<Value = u8> {
    prop_oneof![4 => Just(0u8), 2 => Just(1u8), 1 => Just(2u8), 1 => Just(3u8)]
}

pub fn hot_row() -> impl Strategy<Value = i32> {
    prop_oneof![30 => 1..=HOT_ROWS, 1 => Just(LAST_ROW), 1 => Just(LAST_ROW - 1)]
}
pub fn hot_col() -> impl Strategy<Value = i32> {
    prop_oneof![30 => 1..=HOT_COLS, 1 => Just(LAST_COLUMN), 1 => Just(LAST_COLUMN - 1)]
}

pub fn hot_area() -> impl Strategy<Value = A> {
    prop_oneof![
        20 => (sheet_sel(), 1..=HOT_ROWS, 1..=HOT_COLS, 1..4i32, 1..4i32)
            .prop_map(|(s, row, col, w, h)| A { s, row, col, w, h }),
        // whole rows / whole columns
        1 => (sheet_sel(), 1..=HOT_ROWS, 1..3i32)
            .prop_map(|(s, row, h)| A { s, row, col: 1, w: LAST_COLUMN, h }),
        1 => (sheet_sel(), 1..=HOT_COLS, 1..3i32)
            .prop_map(|(s, col, w)| A { s, row: 1, col, w, h: LAST_ROW }),
    ]
}

pub fn small_area() -> impl Strategy<Value = A> {
    (sheet_sel(), 1..=HOT_ROWS, 1..=HOT_COLS, 1..4i32, 1..4i32)
        .prop_map(|(s, row, col, w, h)| A { s, row, col, w, h })
}

pub fn color_param() -> impl Strategy<Value = String> {
    prop_oneof![
        Just("#FF0000".to_string()),
        Just("#00FF00".to_string()),
        Just("#123ABC".to_string()),
        Just("[4, 0.4]".to_string()),
        Just("".to_string()),
    ]
}

pub fn style_edit() -> impl Strategy<Value = (String, String)> {
    prop_oneof![
        Just(("font.b".to_string(), "true".to_string())),
        Just(("font.b".to_string(), "false".to_string())),
        Just(("font.i".to_string(), "true".to_string())),
        Just(("font.u".to_string(), "true".to_string())),
        Just(("font.strike".to_string(), "true".to_string())),
        color_param().prop_map(|c| ("font.color".to_string(), c)),
        (6..30i32).prop_map(|n| ("font.size".to_string(), n.to_string())),
        (-3..4i32).prop_map(|n| ("font.size_delta".to_string(), n.to_string())),
        color_param().prop_map(|c| ("fill.color".to_string(), c)),
        prop_oneof![
            Just("0.00"),
            Just("#,##0"),
            Just("0%"),
            Just("yyyy-mm-dd"),
            Just("general"),
            Just("$#,##0.00"),
            Just("0.00E+00")
        ]
        .prop_map(|f| ("num_fmt".to_string(), f.to_string())),
        Just(("alignment".to_string(), "".to_string())),
        prop_oneof![Just("center"), Just("left"), Just("right"), Just("general")]
            .prop_map(|v| ("alignment.horizontal".to_string(), v.to_string())),
        prop_oneof![Just("top"), Just("center"), Just("bottom")]
            .prop_map(|v| ("alignment.vertical".to_string(), v.to_string())),
        Just(("alignment.wrap_text".to_string(), "true".to_string())),
    ]
}

pub fn gen_style() -> impl Strategy<Value = Style> {
    (
        prop_oneof![Just("general"), Just("0.00"), Just("0%"), Just("#,##0.00"), Just("dd/mm/yyyy")],
        any::<bool>(),
        any::<bool>(),
        prop_oneof![Just(10), Just(12), Just(14)],
        color_param(),
        color_param(),
    )
        .prop_map(|(nf, b, i, sz, fc, fill)| {
            let mut s = Style::default();
            s.num_fmt = nf.to_string();
            s.font.b = b;
            s.font.i = i;
            s.font.sz = sz;
            s.font.color = Color::from_param(&fc).unwrap_or_default();
            s.fill = Fill {
                color: Color::from_param(&fill).unwrap_or_default(),
            };
            s
        })
}

pub fn style_name() -> impl Strategy<Value = String> {
    prop_oneof![
        8 => Just("MyStyle".to_string()),
        2 => Just("Other".to_string()),
        1 => Just("Percent".to_string()),
        1 => Just("Good".to_string()),
        1 => Just("normal".to_string()),
    ]
}

pub fn sheet_name() -> impl Strategy<Value = String> {
    prop_oneof![
        Just("New name".to_string()),
        Just("Data".to_string()),
        Just("Sheet2".to_string()),
        Just("Ghost".to_string()),
        Just("O'Brien".to_string()),
        Just("A1".to_string()),
        Just("sheet1".to_string()),
        Just("Über-Blatt".to_string()),
    ]
}

pub fn defined_name() -> impl Strategy<Value = String> {
    prop_oneof![8 => Just("alpha".to_string()), 2 => Just("bravo".to_string()), 1 => Just("Rate".to_string())]
}

/// `ranges`: include range-valued names (a formula using one spills; off in the restricted
/// profiles, see the listed evaluation-order finding)
pub fn name_formula(ranges: bool) -> impl Strategy<Value = String> {
    prop_oneof![
        4 => Just("Sheet1!$A$1".to_string()),
        3 => if ranges { Just("Sheet1!$A$1:$B$3".to_string()) } else { Just("Sheet1!$B$2".to_string()) },
        1 => Just("Sheet2!$C$2".to_string()),
        1 => Just("$B$2".to_string()),
        1 => Just("'New name'!$A$1".to_string()),
    ]
}

pub fn gen_link() -> impl Strategy<Value = Link> {
    prop_oneof![
        Just(Link::External { target: "https://example.com".into(), tooltip: None }),
        Just(Link::External { target: "mailto:a@b.c".into(), tooltip: Some("tip".into()) }),
        Just(Link::Internal { location: "Sheet1!A3".into(), tooltip: None }),
    ]
}

fn dxf() -> impl Strategy<Value = Dxf> {
    (color_param(), any::<bool>()).prop_map(|(c, b)| Dxf {
        font: Some(DxfFont { b: Some(b), ..Default::default() }),
        fill: Some(Fill { color: Color::from_param(&c).unwrap_or_default() }),
        ..Default::default()
    })
}

pub fn cf_range() -> impl Strategy<Value = String> {
    (1..=HOT_ROWS, 1..=HOT_COLS, 0..3i32, 0..3i32).prop_map(|(r, c, h, w)| {
        format!(
            "{}{}:{}{}",
            super::inputs::col_name(c),
            r,
            super::inputs::col_name(c + w),
            r + h
        )
    })
}

pub fn cf_rule() -> impl Strategy<Value = CfRuleInput> {
    prop_oneof![
        (dxf(), 0..20i32).prop_map(|(format, n)| CfRuleInput::CellIs {
            operator: ValueOperator::GreaterThan,
            formula: n.to_string(),
            formula2: None,
            format,
            stop_if_true: false,
        }),
        dxf().prop_map(|format| CfRuleInput::Formula {
            formula: "$A1>2".to_string(),
            format,
            stop_if_true: true,
        }),
        dxf().prop_map(|format| CfRuleInput::Text {
            operator: TextOperator::Contains,
            value: "a".to_string(),
            format,
            stop_if_true: false,
        }),
        dxf().prop_map(|format| CfRuleInput::DuplicateValues { format, stop_if_true: false }),
        Just(CfRuleInput::ColorScale {
            thresholds: vec![
                ColorScaleThreshold { cfvo: Cfvo::Min, color: Color::Rgb("#FF0000".into()) },
                ColorScaleThreshold { cfvo: Cfvo::Max, color: Color::Rgb("#00FF00".into()) },
            ],
        }),
    ]
}

/// Generator profile. `Full` is the whole operation language; `Edit` and `Structural` are the
/// restricted domains used while findings are listed in known_findings.json (each restriction is
/// attributable to a listed finding, see DESIGN.md).
#[derive(Clone, Copy, Debug, PartialEq, Eq, Serialize, Deserialize)]
pub enum Profile {
    Full,
    /// no row/column insert/delete/move; plain inputs; no band (whole row/column) styles; no
    /// grid-edge cells
    Edit,
    /// row/column insert/delete/move with re-type-safe content only: no arrays, spills, names,
    /// links, conditional formats
    Structural,
    /// `Edit` plus whole-row / whole-column style operations (band styles)
    EditBands,
}

/// Recording operations with *valid-looking* arguments from small domains.
pub fn recording_op(profile: Profile) -> BoxedStrategy<Op> {
    let full = profile == Profile::Full;
    let class = match profile {
        Profile::Full => InputClass::Full,
        Profile::Edit | Profile::EditBands => InputClass::Plain,
        Profile::Structural => InputClass::Safe,
    };
    let bands = full || profile == Profile::EditBands;
    let row = || if full { hot_row().boxed() } else { (1..=HOT_ROWS).boxed() };
    let col = || if full { hot_col().boxed() } else { (1..=HOT_COLS).boxed() };
    let area = || if bands { hot_area().boxed() } else { small_area().boxed() };
    let input = (sheet_sel(), row(), col(), cell_input(class))
        .prop_map(|(s, row, col, text)| Op::Input { s, row, col, text });
    let array = (sheet_sel(), 1..=HOT_ROWS, 1..=HOT_COLS, 1..3i32, 1..3i32, super::inputs::history_formula())
        .prop_map(|(s, row, col, w, h, text)| Op::ArrayFormula { s, row, col, w, h, text });
    // cost guard: clears of a whole row/column walk every cell of the band (seconds to minutes);
    // they are generated for small areas only
    let clear = prop_oneof![
        small_area().prop_map(Op::ClearContents),
        small_area().prop_map(Op::ClearAll),
        small_area().prop_map(Op::ClearFormatting),
    ];
    let style = prop_oneof![
        3 => (area(), style_edit()).prop_map(|(a, (path, value))| Op::UpdateStyle { a, path, value }),
        1 => (
            area(),
            prop_oneof![Just("All"), Just("Inner"), Just("Outer"), Just("Top"), Just("Right"), Just("Bottom"), Just("Left"), Just("CenterH"), Just("CenterV"), Just("None")],
            prop_oneof![Just("thin"), Just("medium"), Just("thick"), Just("double")],
            prop_oneof![Just("#FF0000"), Just("#000000")],
        )
            .prop_map(|(a, kind, style, color)| Op::Border {
                a,
                kind: kind.to_string(),
                style: style.to_string(),
                color: color.to_string(),
            }),
        1 => (gen_style(), 1..3u8, 1..3u8).prop_map(|(s, w, h)| Op::PasteStyles { style: Box::new(s), w, h }),
    ];
    let named = prop_oneof![
        2 => (style_name(), gen_style(), any::<bool>())
            .prop_map(|(name, s, num_only)| Op::NamedStyleCreate { name, style: Box::new(s), num_only }),
        2 => (style_name(), style_name(), gen_style(), any::<bool>()).prop_map(|(name, new_name, s, num_only)| {
            Op::NamedStyleUpdate { name, new_name, style: Box::new(s), num_only }
        }),
        2 => style_name().prop_map(|name| Op::NamedStyleDelete { name }),
        2 => style_name().prop_map(|name| Op::NamedStyleApply { name }),
    ];
    let structural = prop_oneof![
        (sheet_sel(), 1..=HOT_ROWS, 1..4i32).prop_map(|(s, row, n)| Op::InsertRows { s, row, n }),
        (sheet_sel(), 1..=HOT_COLS, 1..4i32).prop_map(|(s, col, n)| Op::InsertCols { s, col, n }),
        (sheet_sel(), 1..=HOT_ROWS, 1..4i32).prop_map(|(s, row, n)| Op::DeleteRows { s, row, n }),
        (sheet_sel(), 1..=HOT_COLS, 1..4i32).prop_map(|(s, col, n)| Op::DeleteCols { s, col, n }),
        (sheet_sel(), 1..=HOT_ROWS, 1..3i32, -3..4i32).prop_map(|(s, row, n, delta)| Op::MoveRows { s, row, n, delta }),
        (sheet_sel(), 1..=HOT_COLS, 1..3i32, -3..4i32).prop_map(|(s, col, n, delta)| Op::MoveCols { s, col, n, delta }),
    ];
    let sizes = prop_oneof![
        (sheet_sel(), 1..=HOT_COLS, 0..3i32, prop_oneof![Just(20.0), Just(90.0), Just(133.5)])
            .prop_map(|(s, c1, d, width)| Op::ColsWidth { s, c1, c2: c1 + d, width }),
        (sheet_sel(), 1..=HOT_ROWS, 0..3i32, prop_oneof![Just(10.0), Just(25.0), Just(61.25)])
            .prop_map(|(s, r1, d, height)| Op::RowsHeight { s, r1, r2: r1 + d, height }),
        (sheet_sel(), 1..=HOT_COLS, 0..3i32, any::<bool>())
            .prop_map(|(s, c1, d, hidden)| Op::ColsHidden { s, c1, c2: c1 + d, hidden }),
        (sheet_sel(), 1..=HOT_ROWS, 0..3i32, any::<bool>())
            .prop_map(|(s, r1, d, hidden)| Op::RowsHidden { s, r1, r2: r1 + d, hidden }),
    ];
    let sheets = prop_oneof![
        3 => Just(Op::NewSheet),
        2 => sheet_sel().prop_map(Op::DeleteSheet),
        2 => sheet_sel().prop_map(Op::DuplicateSheet),
        2 => (sheet_sel(), sheet_name())
            .prop_map(move |(s, n)| {
                // listed finding: a sheet whose name differs only in case from the way formulas
                // and defined names spell it confuses later renames
                let n = if !full && n == "sheet1" { "Summary".to_string() } else { n };
                Op::RenameSheet(s, n)
            }),
        2 => (sheet_sel(), sheet_sel()).prop_map(|(s, t)| Op::MoveSheet(s, t)),
        1 => sheet_sel().prop_map(Op::HideSheet),
        1 => sheet_sel().prop_map(Op::UnhideSheet),
        1 => (sheet_sel(), color_param()).prop_map(|(s, c)| Op::SheetColor(s, c)),
        1 => (sheet_sel(), 0..4i32).prop_map(|(s, n)| Op::FrozenRows(s, n)),
        1 => (sheet_sel(), 0..4i32).prop_map(|(s, n)| Op::FrozenCols(s, n)),
        1 => (sheet_sel(), any::<bool>()).prop_map(|(s, b)| Op::GridLines(s, b)),
    ];
    // few distinct (name, scope) pairs so that update / delete often address an existing name,
    // and scope changes (global <-> sheet 0 <-> sheet 1) are common
    let scope = || prop_oneof![3 => Just(None), 2 => Just(Some(0u8)), 1 => Just(Some(1u8))];
    let names = prop_oneof![
        3 => (defined_name(), scope(), name_formula(full)).prop_map(|(name, scope, formula)| Op::NameNew { name, scope, formula }),
        3 => (defined_name(), scope(), defined_name(), scope(), name_formula(full)).prop_map(
            |(name, scope, new_name, new_scope, formula)| Op::NameUpdate { name, scope, new_name, new_scope, formula }
        ),
        2 => (defined_name(), scope()).prop_map(|(name, scope)| Op::NameDelete { name, scope }),
    ];
    let links = prop_oneof![
        2 => (sheet_sel(), 1..=HOT_ROWS, 1..=HOT_COLS, gen_link(), prop_oneof![Just(None), Just(Some("label".to_string()))])
            .prop_map(|(s, row, col, link, label)| Op::LinkSet { s, row, col, link, label }),
        1 => (sheet_sel(), 1..=HOT_ROWS, 1..=HOT_COLS).prop_map(|(s, row, col)| Op::LinkDelete { s, row, col }),
    ];
    let cfs = prop_oneof![
        3 => (sheet_sel(), cf_range(), cf_rule()).prop_map(|(s, range, rule)| Op::CfAdd { s, range, rule: Box::new(rule) }),
        1 => (sheet_sel(), 0..3u8, cf_range(), cf_rule())
            .prop_map(|(s, idx, range, rule)| Op::CfUpdate { s, idx, range, rule: Box::new(rule) }),
        1 => (sheet_sel(), 0..3u8).prop_map(|(s, idx)| Op::CfDelete { s, idx }),
        1 => (sheet_sel(), 0..3u8).prop_map(|(s, idx)| Op::CfRaise { s, idx }),
        1 => (sheet_sel(), 0..3u8).prop_map(|(s, idx)| Op::CfLower { s, idx }),
    ];
    let csv = if profile == Profile::Full {
        prop_oneof![Just("1\t2\n3\t4"), Just("a\tb"), Just("=A1+1\tx\n5"), Just("https://a.b\t7")].boxed()
    } else {
        prop_oneof![Just("1\t2\n3\t4"), Just("a\tb"), Just("=A1+1\tx\n5")].boxed()
    };
    let paste = prop_oneof![
        3 => (small_area(), sheet_sel(), 1..=HOT_ROWS, 1..=HOT_COLS, any::<bool>())
            .prop_map(|(src, ts, trow, tcol, cut)| Op::CopyPaste { src, ts, trow, tcol, cut }),
        1 => (small_area(), csv)
            .prop_map(|(a, csv)| Op::PasteCsv { a, csv: csv.to_string() }),
        1 => (small_area(), -3..6i32).prop_map(|(a, d)| {
            let to_row = if d >= 0 { a.row + a.h - 1 + d } else { a.row + d };
            Op::AutofillRows { a, to_row }
        }),
        1 => (small_area(), -3..6i32).prop_map(|(a, d)| {
            let to_col = if d >= 0 { a.col + a.w - 1 + d } else { a.col + d };
            Op::AutofillCols { a, to_col }
        }),
    ];
    let workbook = prop_oneof![
        prop_oneof![Just("en"), Just("en-GB"), Just("es"), Just("fr"), Just("de"), Just("it")]
            .prop_map(|l| Op::SetLocale(l.to_string())),
        prop_oneof![Just("UTC"), Just("Europe/Berlin"), Just("America/New_York")]
            .prop_map(|t| Op::SetTimezone(t.to_string())),
        prop_oneof![Just("model"), Just("Budget 2024"), Just("")].prop_map(|n| Op::SetName(n.to_string())),
        (0..3u8).prop_map(Op::SetTheme),
    ];
    match profile {
        Profile::Full => prop_oneof![
            30 => input,
            3 => array,
            6 => clear,
            8 => style,
            4 => named,
            12 => structural,
            6 => sizes,
            10 => sheets,
            4 => names,
            3 => links,
            4 => cfs,
            6 => paste,
            3 => workbook,
        ]
        .boxed(),
        Profile::Edit | Profile::EditBands => prop_oneof![
            30 => input,
            6 => clear,
            8 => style,
            4 => named,
            6 => sizes,
            10 => sheets,
            8 => names,
            3 => links,
            6 => cfs,
            6 => paste,
            3 => workbook,
        ]
        .boxed(),
        Profile::Structural => prop_oneof![
            30 => input,
            6 => clear,
            8 => style,
            18 => structural,
            6 => sizes,
            8 => sheets,
            6 => paste,
        ]
        .boxed(),
    }
}

/// A fixed, recorded prefix that creates the objects many operations need before they can succeed
/// (a second sheet, values and formulas, a global and a sheet-scoped defined name, a named style,
/// a conditional format, a link). Histories start with it half of the time, so that update /
/// delete / apply operations on existing objects are exercised often.
pub fn rich_setup(profile: Profile) -> Vec<Op> {
    let inp = |s: u8, row: i32, col: i32, t: &str| Op::Input { s, row, col, text: t.to_string() };
    let mut v = vec![
        Op::NewSheet,
        inp(0, 1, 1, "5"),
        inp(0, 2, 2, "=A1*2"),
        inp(0, 3, 1, "text"),
        inp(1, 1, 1, "=Sheet1!A1+1"),
    ];
    if profile != Profile::Structural {
        v.push(Op::NameNew { name: "alpha".into(), scope: None, formula: "Sheet1!$A$1".into() });
        v.push(Op::NameNew { name: "alpha".into(), scope: Some(1), formula: "Sheet1!$B$2".into() });
        v.push(Op::NameNew { name: "bravo".into(), scope: Some(0), formula: "Sheet2!$C$2".into() });
        v.push(inp(0, 4, 4, "=alpha+1"));
        v.push(Op::NamedStyleCreate {
            name: "MyStyle".into(),
            style: Box::new({
                let mut s = Style::default();
                s.font.b = true;
                s.num_fmt = "0.00".into();
                s
            }),
            num_only: false,
        });
        v.push(Op::CfAdd {
            s: 0,
            range: "A1:B3".into(),
            rule: Box::new(CfRuleInput::ColorScale {
                thresholds: vec![
                    ColorScaleThreshold { cfvo: Cfvo::Min, color: Color::Rgb("#FF0000".into()) },
                    ColorScaleThreshold { cfvo: Cfvo::Max, color: Color::Rgb("#00FF00".into()) },
                ],
            }),
        });
        v.push(Op::LinkSet {
            s: 1,
            row: 3,
            col: 3,
            link: Link::External { target: "https://example.com".into(), tooltip: None },
            label: Some("label".into()),
        });
    }
    v
}

/// Run-time guards of the restricted profiles: returns a reason when the op must be skipped
/// because it would trigger a *listed* finding in the current state.
pub fn guard(um: &UserModel, op: &Op, profile: Profile) -> Option<&'static str> {
    if profile == Profile::Full {
        return None;
    }
    let model = um.get_model();
    match op {
        Op::Input { s, row, .. } => {
            let sh = res_sheet(um, *s);
            if model.is_row_hidden(sh, *row).unwrap_or(false) {
                return Some("input-into-hidden-row");
            }
        }
        Op::NameUpdate { .. } if model.get_locale() != "en" => {
            return Some("name-update-in-non-en-locale");
        }
        Op::NameUpdate { name, scope, new_name, new_scope, .. }
            if {
                // listed finding: renaming a defined name cannot be undone exactly when the name
                // (old or new spelling) also exists in another scope, or when name and scope change
                // together: formulas are re-bound by spelling
                let lname = name.to_lowercase();
                let lnew = new_name.to_lowercase();
                let count = |n: &str| model.workbook.defined_names.iter().filter(|d| d.name.to_lowercase() == n).count();
                let renames = lname != lnew;
                // a formula that already spells the new name (unbound, #NAME?) would be captured
                let spelled = |n: &str| {
                    model.workbook.worksheets.iter().any(|w| w.shared_formulas.iter().any(|f| f.to_lowercase().contains(n)))
                };
                (renames && (count(&lname) > 1 || count(&lnew) > 0 || spelled(&lnew))) || (renames && scope != new_scope) || (!renames && scope != new_scope && count(&lname) > 1)
            } =>
        {
            return Some("name-update-with-shadowing-or-rescoping");
        }
        Op::NameNew { formula, .. } | Op::NameUpdate { formula, .. } => {
            match formula.split_once('!') {
                Some((sheet, _)) => {
                    let name = sheet.trim_matches('\'').to_lowercase();
                    if !model.workbook.worksheets.iter().any(|w| w.name.to_lowercase() == name) {
                        return Some("defined-name-on-nonexistent-sheet");
                    }
                }
                None => return Some("defined-name-without-sheet"),
            }
        }
        Op::NamedStyleUpdate { .. } => {
            let xfs = &model.workbook.styles.cell_xfs;
            for ws in &model.workbook.worksheets {
                for rd in ws.sheet_data.values() {
                    for cell in rd.values() {
                        if xfs.get(cell.get_style() as usize).map(|x| x.xf_id != 0).unwrap_or(false) {
                            return Some("named-style-update-with-linked-cells");
                        }
                    }
                }
            }
        }
        Op::ColsWidth { s, c1, c2, .. } => {
            let sh = res_sheet(um, *s);
            if (*c1..=*c2).any(|c| model.is_column_hidden(sh, c).unwrap_or(false)) {
                return Some("resize-hidden-column");
            }
        }
        Op::RowsHeight { s, r1, r2, .. } => {
            let sh = res_sheet(um, *s);
            if (*r1..=*r2).any(|r| model.is_row_hidden(sh, r).unwrap_or(false)) {
                return Some("resize-hidden-row");
            }
        }
        Op::AutofillRows { a, .. } | Op::AutofillCols { a, .. } => {
            let sh = res_sheet(um, a.s);
            if let Some(ws) = model.workbook.worksheets.get(sh as usize) {
                if !ws.links.is_empty() {
                    return Some("autofill-on-sheet-with-links");
                }
            }
            // listed finding (C02): redo / replicas re-type auto-filled cells, which infers a
            // number format from formatted precedents that the original fill did not apply
            for ws in &model.workbook.worksheets {
                for rd in ws.sheet_data.values() {
                    for cell in rd.values() {
                        let idx = cell.get_style();
                        if let Some(xf) = model.workbook.styles.cell_xfs.get(idx as usize) {
                            if xf.num_fmt_id != 0 {
                                return Some("autofill-with-formatted-cells");
                            }
                        }
                    }
                }
            }
        }

        Op::DeleteSheet(s) => {
            let sh = res_sheet(um, *s);
            if let Some(ws) = model.workbook.worksheets.get(sh as usize) {
                if !ws.links.is_empty() || !ws.conditional_formatting.is_empty() {
                    return Some("delete-sheet-with-links-or-cf");
                }
            }
            if !model.workbook.defined_names.is_empty() {
                return Some("delete-sheet-with-defined-names");
            }
        }
        Op::RenameSheet(..) => {
            if model.get_locale() != "en" {
                return Some("rename-in-non-en-locale");
            }
            if super::nodes::has_ghost_refs(model) {
                return Some("rename-with-ghost-reference");
            }
        }
        Op::DeleteRows { s, row, n } => {
            let sh = res_sheet(um, *s);
            if super::nodes::any_formula_reads_rows(model, sh, *row, *n) {
                return Some("delete-band-referenced");
            }
        }
        Op::DeleteCols { s, col, n } => {
            let sh = res_sheet(um, *s);
            if super::nodes::any_formula_reads_columns(model, sh, *col, *n) {
                return Some("delete-band-referenced");
            }
        }
        _ => {}
    }
    None
}

/// Context operations that do not record history (selection, evaluation cadence, language).
pub fn context_op() -> BoxedStrategy<Op> {
    prop_oneof![
        3 => sheet_sel().prop_map(Op::SelectSheet),
        3 => (hot_row(), hot_col()).prop_map(|(row, col)| Op::SelectCell { row, col }),
        3 => (1..=HOT_ROWS, 1..=HOT_COLS, 0..3i32, 0..3i32)
            .prop_map(|(r, c, h, w)| Op::SelectRange { r1: r, c1: c, r2: r + h, c2: c + w }),
        1 => Just(Op::Pause),
        1 => Just(Op::Resume),
        1 => Just(Op::Evaluate),
        1 => prop_oneof![Just("en"), Just("es"), Just("fr"), Just("de"), Just("it")]
            .prop_map(|l| Op::SetLanguage(l.to_string())),
    ]
    .boxed()
}

pub fn nav_op() -> BoxedStrategy<Op> {
    prop_oneof![
        6 => prop_oneof![Just("ArrowRight"), Just("ArrowLeft"), Just("ArrowUp"), Just("ArrowDown"), Just("PageDown"), Just("PageUp")]
            .prop_map(|k| Op::Key(k.to_string())),
        3 => prop_oneof![Just("ArrowRight"), Just("ArrowLeft"), Just("ArrowUp"), Just("ArrowDown")]
            .prop_map(|k| Op::ExpandSelection(k.to_string())),
        2 => (hot_row(), hot_col()).prop_map(|(row, col)| Op::AreaSelecting { row, col }),
        3 => prop_oneof![Just("Left"), Just("Right"), Just("Up"), Just("Down")]
            .prop_map(|d| Op::NavigateEdge(d.to_string())),
        1 => (prop_oneof![Just(800.0), Just(50.0), Just(3000.0)], prop_oneof![Just(600.0), Just(30.0)])
            .prop_map(|(w, h)| Op::WindowSize(w, h)),
    ]
    .boxed()
}
