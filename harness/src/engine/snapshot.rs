//! Observable snapshot of a workbook as a flat map `aspect key -> rendered value`.
//!
//! The workbook is read through the public getters named in the properties' `observe_at`
//! (`get_localized_cell_content`, `get_formatted_cell_value`, `get_style_for_cell`,
//! `get_row_height`, `get_column_width`, `get_worksheets_properties`, `get_defined_name_list`, ...);
//! `Model::workbook` is used to enumerate *which* keys to ask about and for the typed value of a
//! cell. Storage details that the API does not expose are normalised away:
//!   * style / dxf / shared-string / formula pool indices are never compared, only resolved values;
//!   * a cell that shows exactly what a missing cell at that position shows is dropped;
//!   * a row/column descriptor that describes default attributes is dropped; column attributes
//!     are run-length normalised over 1..=16384 so descriptor layout does not matter;
//!   * defined names and named styles are maps (list order is not observable);
//!   * sizes are rendered with 10 significant digits (width is stored divided by 9).

use std::collections::BTreeMap;

use ironcalc_base::expressions::token::Error;
use ironcalc_base::types::{Cell, FormulaValue, SpillValue, Style, Worksheet};
use ironcalc_base::Model;

pub type Snapshot = BTreeMap<String, String>;

#[derive(Clone, Debug, PartialEq)]
pub enum TV {
    Empty,
    Num(f64),
    Text(String),
    Bool(bool),
    Err(String),
    Unevaluated,
}

impl TV {
    pub fn render(&self, sig15: bool) -> String {
        match self {
            TV::Empty => "empty".to_string(),
            TV::Num(n) => {
                if sig15 {
                    format!("n:{}", sig(*n, 15))
                } else {
                    format!("n:{:?}", n)
                }
            }
            TV::Text(s) => format!("s:{s:?}"),
            TV::Bool(b) => format!("b:{b}"),
            TV::Err(e) => format!("e:{e}"),
            TV::Unevaluated => "unevaluated".to_string(),
        }
    }
    pub fn is_number(&self) -> bool {
        matches!(self, TV::Num(_))
    }
}

/// Render with `digits` significant digits (decimal scientific), normalising -0.
pub fn sig(x: f64, digits: usize) -> String {
    if x == 0.0 {
        return "0".to_string();
    }
    if !x.is_finite() {
        return format!("{x}");
    }
    format!("{:.*e}", digits - 1, x)
}

pub fn error_kind(e: &Error) -> String {
    // Display form (English), used as the error *kind*
    format!("{e}")
}

pub fn typed_value(cell: Option<&Cell>, shared_strings: &[String]) -> TV {
    match cell {
        None => TV::Empty,
        Some(c) => match c {
            Cell::EmptyCell { .. } => TV::Empty,
            Cell::BooleanCell { v, .. } => TV::Bool(*v),
            Cell::NumberCell { v, .. } => TV::Num(*v),
            Cell::ErrorCell { ei, .. } => TV::Err(error_kind(ei)),
            Cell::SharedString { si, .. } => match shared_strings.get(*si as usize) {
                Some(s) => TV::Text(s.clone()),
                None => TV::Err(format!("<dangling shared string {si}>")),
            },
            Cell::CellFormula { v, .. } | Cell::ArrayFormula { v, .. } => match v {
                FormulaValue::Unevaluated => TV::Unevaluated,
                FormulaValue::Boolean(b) => TV::Bool(*b),
                FormulaValue::Number(n) => TV::Num(*n),
                FormulaValue::Text(s) => TV::Text(s.clone()),
                FormulaValue::Error { ei, .. } => TV::Err(error_kind(ei)),
            },
            Cell::SpillCell { v, .. } => match v {
                SpillValue::Boolean(b) => TV::Bool(*b),
                SpillValue::Number(n) => TV::Num(*n),
                SpillValue::Text(s) => TV::Text(s.clone()),
                SpillValue::Error(ei) => TV::Err(error_kind(ei)),
            },
        },
    }
}

pub fn cell_value(model: &Model, sheet: u32, row: i32, column: i32) -> TV {
    match model.workbook.worksheets.get(sheet as usize) {
        Some(ws) => typed_value(ws.cell(row, column), &model.workbook.shared_strings),
        None => TV::Err("<no sheet>".into()),
    }
}

fn structure(cell: &Cell) -> String {
    match cell {
        Cell::ArrayFormula { r, kind, .. } => format!("{kind:?}Anchor{r:?}"),
        Cell::SpillCell { a, .. } => format!("Spill{a:?}"),
        _ => String::new(),
    }
}

pub fn style_json(s: &Style) -> String {
    serde_json::to_string(s).unwrap_or_else(|_| format!("{s:?}"))
}

#[derive(Clone, Copy)]
pub struct SnapOpts {
    /// numbers rendered to 15 significant digits instead of bit-exactly
    pub sig15: bool,
    /// include formatted text of cells
    pub formatted: bool,
    /// include workbook name / locale / timezone / theme / named styles
    pub workbook_meta: bool,
    /// include per-user view state (selection)
    pub view: bool,
    /// include error values' kind only (always) -- messages/origins are never compared
    pub sizes: bool,
}

impl Default for SnapOpts {
    fn default() -> Self {
        SnapOpts {
            sig15: false,
            formatted: true,
            workbook_meta: true,
            view: false,
            sizes: true,
        }
    }
}

/// Effective style a *missing* cell at (row, column) shows, following the documented lookup
/// order cell -> row -> column -> default, read through the public getters.
fn inherited_style(model: &Model, ws: &Worksheet, sheet: u32, row: i32, column: i32) -> Style {
    for r in &ws.rows {
        if r.r == row {
            if r.custom_format {
                if let Ok(Some(s)) = model.get_row_style(sheet, row) {
                    return s;
                }
            }
            break;
        }
    }
    if let Ok(Some(s)) = model.get_column_style(sheet, column) {
        return s;
    }
    Style::default()
}

fn put(map: &mut Snapshot, key: String, val: String) {
    map.insert(key, val);
}

pub fn snapshot(model: &Model, opts: SnapOpts) -> Snapshot {
    let mut m = Snapshot::new();
    let wb = &model.workbook;
    if opts.workbook_meta {
        put(&mut m, "wb.name".into(), wb.name.clone());
        put(&mut m, "wb.locale".into(), model.get_locale());
        put(&mut m, "wb.timezone".into(), model.get_timezone());
        put(
            &mut m,
            "wb.theme".into(),
            serde_json::to_string(&model.get_theme()).unwrap_or_default(),
        );
        for name in model.get_named_style_list() {
            let style = model
                .get_named_style(&name)
                .map(|s| style_json(&s))
                .unwrap_or_else(|e| format!("<error {e}>"));
            let inc = model
                .get_named_style_includes(&name)
                .map(|i| serde_json::to_string(&i).unwrap_or_default())
                .unwrap_or_else(|e| format!("<error {e}>"));
            put(&mut m, format!("named_style[{name}]"), format!("{style} includes {inc}"));
        }
    }
    let props = model.get_worksheets_properties();
    put(&mut m, "sheets.count".into(), props.len().to_string());
    for (i, p) in props.iter().enumerate() {
        put(&mut m, format!("sheet[{i}].name"), p.name.clone());
        put(&mut m, format!("sheet[{i}].id"), p.sheet_id.to_string());
        put(&mut m, format!("sheet[{i}].state"), p.state.clone());
        put(&mut m, format!("sheet[{i}].color"), format!("{:?}", p.color));
    }
    for (name, scope, formula) in model.get_defined_name_list() {
        put(
            &mut m,
            format!("defined_name[{}|{:?}]", name.to_lowercase(), scope),
            // sheet names and references are case-insensitive identifiers: a rename round trip
            // may change the case in which a name's formula spells its sheet
            format!("{} = {}", name.to_lowercase(), formula.to_lowercase()),
        );
    }
    for (i, ws) in wb.worksheets.iter().enumerate() {
        let sheet = i as u32;
        put(
            &mut m,
            format!("sheet[{i}].frozen_rows"),
            model.get_frozen_rows_count(sheet).map(|v| v.to_string()).unwrap_or_default(),
        );
        put(
            &mut m,
            format!("sheet[{i}].frozen_columns"),
            model.get_frozen_columns_count(sheet).map(|v| v.to_string()).unwrap_or_default(),
        );
        put(
            &mut m,
            format!("sheet[{i}].grid_lines"),
            ws.show_grid_lines.to_string(),
        );
        // cells
        for (&row, row_data) in &ws.sheet_data {
            for (&column, cell) in row_data {
                let content = model
                    .get_localized_cell_content(sheet, row, column)
                    .unwrap_or_else(|e| format!("<error {e}>"));
                let value = typed_value(Some(cell), &wb.shared_strings);
                let style = model
                    .get_style_for_cell(sheet, row, column)
                    .unwrap_or_default();
                let st = structure(cell);
                let is_default = content.is_empty()
                    && value == TV::Empty
                    && st.is_empty()
                    && style == inherited_style(model, ws, sheet, row, column);
                if is_default {
                    continue;
                }
                let k = format!("sheet[{i}].cell({row},{column})");
                if !content.is_empty() {
                    put(&mut m, format!("{k}.content"), content);
                }
                if value != TV::Empty {
                    put(&mut m, format!("{k}.value"), value.render(opts.sig15));
                }
                if opts.formatted {
                    let f = model
                        .get_formatted_cell_value(sheet, row, column)
                        .unwrap_or_else(|e| format!("<error {e}>"));
                    if !f.is_empty() {
                        put(&mut m, format!("{k}.formatted"), f);
                    }
                }
                let def = Style::default();
                if style == def {
                    // a cell overriding an inherited row/column style with the default style
                    put(&mut m, format!("{k}.style"), "default".into());
                }
                if style != def {
                    if style.num_fmt != def.num_fmt {
                        put(&mut m, format!("{k}.style.num_fmt"), style.num_fmt.clone());
                    }
                    if style.quote_prefix {
                        put(&mut m, format!("{k}.style.quote_prefix"), "true".into());
                    }
                    if style.font != def.font {
                        put(&mut m, format!("{k}.style.font"), serde_json::to_string(&style.font).unwrap_or_default());
                    }
                    if style.fill != def.fill {
                        put(&mut m, format!("{k}.style.fill"), serde_json::to_string(&style.fill).unwrap_or_default());
                    }
                    if style.border != def.border {
                        put(&mut m, format!("{k}.style.border"), serde_json::to_string(&style.border).unwrap_or_default());
                    }
                    if style.alignment != def.alignment {
                        put(&mut m, format!("{k}.style.alignment"), serde_json::to_string(&style.alignment).unwrap_or_default());
                    }
                }
                if !st.is_empty() {
                    put(&mut m, format!("{k}.array"), st);
                }
            }
        }
        // links
        for (&(row, column), link) in &ws.links {
            put(
                &mut m,
                format!("sheet[{i}].link({row},{column})"),
                serde_json::to_string(link).unwrap_or_default(),
            );
        }
        // rows
        for r in &ws.rows {
            let k = format!("sheet[{i}].row({})", r.r);
            let hidden = model.is_row_hidden(sheet, r.r).unwrap_or(false);
            if hidden {
                put(&mut m, format!("{k}.hidden"), "true".into());
            }
            if opts.sizes {
                let h = model.get_row_height(sheet, r.r).unwrap_or(f64::NAN);
                if !hidden && h != default_row_height(model, ws, sheet) {
                    put(&mut m, format!("{k}.height"), sig(h, 10));
                }
            }
            if r.custom_format {
                if let Ok(Some(s)) = model.get_row_style(sheet, r.r) {
                    if s != Style::default() {
                        put(&mut m, format!("{k}.style"), style_json(&s));
                    }
                }
            }
        }
        // columns, run-length normalised by attribute
        let mut bounds: Vec<i32> = vec![1];
        for c in &ws.cols {
            bounds.push(c.min.max(1));
            bounds.push(c.max.saturating_add(1));
        }
        bounds.retain(|b| (1..=16_384).contains(b));
        bounds.sort();
        bounds.dedup();
        let mut widths: Vec<(i32, String)> = vec![];
        let mut hiddens: Vec<(i32, String)> = vec![];
        let mut styles: Vec<(i32, String)> = vec![];
        let push = |v: &mut Vec<(i32, String)>, at: i32, s: String| {
            if v.last().map(|l| l.1 != s).unwrap_or(true) {
                v.push((at, s));
            }
        };
        for &b in &bounds {
            let hidden = model.is_column_hidden(sheet, b).unwrap_or(false);
            let w = model.get_column_width(sheet, b).unwrap_or(f64::NAN);
            push(&mut hiddens, b, hidden.to_string());
            push(&mut widths, b, if hidden { "hidden".into() } else { sig(w, 10) });
            let st = match model.get_column_style(sheet, b) {
                Ok(Some(s)) if s != Style::default() => style_json(&s),
                _ => "none".into(),
            };
            push(&mut styles, b, st);
        }
        put(&mut m, format!("sheet[{i}].cols.hidden"), format!("{hiddens:?}"));
        if opts.sizes {
            put(&mut m, format!("sheet[{i}].cols.width"), format!("{widths:?}"));
        }
        put(&mut m, format!("sheet[{i}].cols.style"), format!("{styles:?}"));
        // conditional formats, by priority order, with the resolved dxf
        if let Ok(list) = model.get_conditional_formatting_list(sheet) {
            for (pos, cf) in list.iter().enumerate() {
                let dxf = model
                    .get_dxf_for_conditional_formatting(sheet, cf.index)
                    .map(|d| serde_json::to_string(&d).unwrap_or_default())
                    .unwrap_or_else(|e| format!("<error {e}>"));
                let mut rule = serde_json::to_value(&cf.cf_rule).unwrap_or_default();
                if let Some(o) = rule.as_object_mut() {
                    o.remove("dxf_id");
                }
                put(
                    &mut m,
                    format!("sheet[{i}].cf[{pos}]"),
                    format!("range={} rule={} dxf={}", cf.range, rule, dxf),
                );
            }
        }
        if opts.view {
            if let Some(v) = ws.views.get(&0) {
                put(
                    &mut m,
                    format!("sheet[{i}].view"),
                    format!("{:?}", (v.row, v.column, v.range)),
                );
            }
        }
    }
    if opts.view {
        if let Some(v) = wb.views.get(&0) {
            put(&mut m, "wb.view.sheet".into(), v.sheet.to_string());
        }
    }
    m
}

fn default_row_height(model: &Model, ws: &Worksheet, sheet: u32) -> f64 {
    // height of a row without descriptor
    let mut probe = 1_048_576;
    while ws.rows.iter().any(|r| r.r == probe) {
        probe -= 1;
    }
    model.get_row_height(sheet, probe).unwrap_or(25.0)
}

/// Strip indices from a key to get the *aspect* (used in signatures).
pub fn aspect(key: &str) -> String {
    let mut out = String::new();
    let mut depth = 0;
    for c in key.chars() {
        match c {
            '[' | '(' => {
                depth += 1;
            }
            ']' | ')' => {
                depth -= 1;
            }
            _ if depth == 0 => out.push(c),
            _ => {}
        }
    }
    out
}

#[derive(Debug, Clone)]
pub struct DiffEntry {
    pub key: String,
    pub a: Option<String>,
    pub b: Option<String>,
}

pub fn diff(a: &Snapshot, b: &Snapshot) -> Vec<DiffEntry> {
    let mut out = vec![];
    for (k, va) in a {
        match b.get(k) {
            Some(vb) if vb == va => {}
            other => out.push(DiffEntry {
                key: k.clone(),
                a: Some(va.clone()),
                b: other.cloned(),
            }),
        }
    }
    for (k, vb) in b {
        if !a.contains_key(k) {
            out.push(DiffEntry {
                key: k.clone(),
                a: None,
                b: Some(vb.clone()),
            });
        }
    }
    out
}

/// Sorted, de-duplicated aspects of a diff.
pub fn aspects(d: &[DiffEntry]) -> Vec<String> {
    let mut v: Vec<String> = d.iter().map(|e| aspect(&e.key)).collect();
    v.sort();
    v.dedup();
    v
}

pub fn describe(d: &[DiffEntry], label_a: &str, label_b: &str, max: usize) -> String {
    let mut s = String::new();
    for e in d.iter().take(max) {
        s.push_str(&format!(
            "{}: {label_a}={} | {label_b}={}\n",
            e.key,
            e.a.as_deref().unwrap_or("<absent>"),
            e.b.as_deref().unwrap_or("<absent>")
        ));
    }
    if d.len() > max {
        s.push_str(&format!("... {} more differences\n", d.len() - max));
    }
    s
}
