//! C17 — Sheet rename, move and duplicate preserve values.
//!
//! Case = a workbook description (2..4 sheets with names from a pool that includes names needing
//! quotes; data in A1:C4 of every sheet, different per sheet; global and sheet-local defined names
//! — cell, range and LAMBDA; formula cells whose references carry sheet prefixes of existing
//! sheets and of sheets that do not exist) plus 1..4 sheet operations applied through `Model`:
//! rename to any valid name, move to any index, duplicate. en/en throughout.
//!
//! After every operation:
//!   * values: every cell of every sheet that existed before (identified by sheet id) has the same
//!     typed value. Not asserted for a rename whose new name equals (ignoring case) the name of a
//!     nonexistent sheet some formula or name mentions: those references start to resolve.
//!   * rename, text: every formula is displayed as the formula shown before with the sheet name
//!     replaced in exactly those reference leaves that pointed at the renamed sheet and carried a
//!     sheet prefix; same for the stored text of every defined name. (The expected text is
//!     produced from the node parsed *before* the operation by rewriting those leaves and
//!     printing with the engine's printer, so quoting rules are the engine's.)
//!   * move: displayed formulas and stored names are unchanged.
//!   * duplicate: the copy shows, cell by cell, the same typed values as its source; the formulas
//!     and names of all other sheets are unchanged.

use std::collections::{BTreeMap, BTreeSet};

use ironcalc_base::expressions::parser::stringify::{to_english_string, to_localized_string};
use ironcalc_base::expressions::parser::{new_parser_english, Node};
use ironcalc_base::expressions::types::CellReferenceRC;
use ironcalc_base::language::get_language;
use ironcalc_base::locale::get_locale;
use ironcalc_base::Model;
use proptest::prelude::*;
use serde::{Deserialize, Serialize};
use serde_json::Value;

use super::c10::{evaluation_assertion, first_diff, has_parse_error, map_nodes, show_tv, val, Val};
use super::formula_gen::{self as fg, BinOp, FTree, Profile, Style};
use crate::engine::nodes::walk;
use crate::engine::snapshot::{typed_value, TV};
use crate::engine::{panics, Ctx, Outcome, Tier};

// ------------------------------------------------------------------------------------------------
// case

#[derive(Clone, Debug, Serialize, Deserialize)]
pub enum NameKind {
    Cell { sheet: u8, col: i32, row: i32 },
    Range { sheet: u8, c1: i32, r1: i32, c2: i32, r2: i32 },
    /// `LAMBDA(x, x + <tree>)`
    Lambda(FTree),
}

#[derive(Clone, Debug, Serialize, Deserialize)]
pub struct NameSpec {
    pub name: String,
    /// sheet selector of the scope (None: global)
    pub scope: Option<u8>,
    pub kind: NameKind,
    /// LAMBDA typed with a leading `=`
    #[serde(default)]
    pub eq: bool,
    /// cell / range name whose formula spells its sheet in upper case (sheet names are case-insensitive)
    #[serde(default)]
    pub upper: bool,
}

#[derive(Clone, Debug, Serialize, Deserialize)]
pub enum SheetOp {
    Rename { sheet: u8, name: String },
    Move { sheet: u8, to: u8 },
    Duplicate { sheet: u8 },
}

#[derive(Clone, Debug, Serialize, Deserialize)]
pub struct Case {
    pub sheets: Vec<String>,
    pub names: Vec<NameSpec>,
    /// (sheet selector, formula)
    pub cells: Vec<(u8, FTree)>,
    pub ops: Vec<SheetOp>,
    /// switches of listed findings to steer away from (empty in their replays)
    #[serde(default)]
    pub avoid: Vec<String>,
}

/// a defined name that spells its sheet in another case is not followed by renames
pub const AVOID_CASE_VARIANT: &str = "c17-name-spells-sheet-in-other-case";
/// rename / duplicate rewrite every *range* reference to a nonexistent sheet
pub const AVOID_GHOST_RANGE: &str = "c17-range-to-nonexistent-sheet";
/// a defined name stored with a leading `=` is not followed by renames
pub const AVOID_EQ_NAME: &str = "c17-name-with-equals-prefix";

pub const GHOSTS: [&str; 2] = ["Ghost", "No Such"];

/// Valid sheet names: plain, needing quotes for every reason the lexer has, non-ASCII.
pub const NAME_POOL: [&str; 22] = [
    "Sheet1", "Data", "My Sheet", "It's", "A1", "R1C1", "2024", "a-b", "x.y", "Año", "TRUE", "Data&Co", "semi;colon", "com,ma", "(paren)", "🙈", "Sheet 2 (1)", "ghost", "NO SUCH", "Hoja1", "{b}", "a\"b",
];

pub const HOST_COL: i32 = 5;

fn cell_of_slot(k: usize) -> (i32, i32) {
    (6 + 4 * k as i32, HOST_COL)
}

// ------------------------------------------------------------------------------------------------
// generator

fn profile(sheets: &[String], names: &[NameSpec]) -> Profile {
    let mut p = Profile::all();
    p.functions = vec![
        ("SUM", 1, 3),
        ("MIN", 1, 2),
        ("MAX", 1, 2),
        ("AVERAGE", 1, 2),
        ("COUNT", 1, 2),
        ("COUNTA", 1, 2),
        ("ABS", 1, 1),
        ("ROUND", 2, 2),
        ("IF", 2, 3),
        ("IFERROR", 2, 2),
        ("AND", 1, 2),
        ("N", 1, 1),
        ("T", 1, 1),
        ("CONCATENATE", 1, 3),
        ("ISERROR", 1, 1),
        ("ISNUMBER", 1, 1),
        ("INDEX", 2, 3),
        ("ROWS", 1, 1),
        ("COLUMNS", 1, 1),
        ("SORT", 1, 1),
        ("XLOOKUP", 3, 3),
    ];
    let mut leaf_names = vec![];
    for n in names {
        match n.kind {
            // LAMBDA names are called, the others are used as leaves
            NameKind::Lambda(_) => p.functions.push((crate::props::c10::leak(&n.name), 1, 1)),
            _ => leaf_names.push(n.name.clone()),
        }
    }
    leaf_names.push("x".into());
    p.names = leaf_names;
    p.binary = fg::BIN_OPS.iter().copied().filter(|o| *o != BinOp::Range).collect();
    let mut s: Vec<String> = sheets.to_vec();
    s.extend(GHOSTS.iter().map(|g| g.to_string()));
    p.sheets = s;
    p.sheet_pct = 60;
    p.max_col = 3;
    p.max_row = 4;
    p.edge_refs = false;
    p.spaces_pct = 0;
    p.extra_parens_pct = 5;
    p.ref_weight = 20;
    p.errors = false;
    p.lambdas = false;
    p.let_ = false;
    p.at = false;
    // `X#` (also sheet-qualified): a rename has to descend into the operand
    p.spill = true;
    p
}

fn sanitize(t: &FTree) -> FTree {
    fg::map_children(t, &sanitize, &|n| match n {
        FTree::Num(s) if s.len() > 15 => FTree::Num("12345".into()),
        o => o,
    })
}

fn sheets_strategy() -> BoxedStrategy<Vec<String>> {
    prop::collection::vec(0..NAME_POOL.len(), 2..=4)
        .prop_map(|idx| {
            let mut out: Vec<String> = vec![];
            for i in idx {
                let n = NAME_POOL[i].to_string();
                // distinct ignoring case, and not a ghost name
                if !out.iter().any(|o| o.to_uppercase() == n.to_uppercase()) && !GHOSTS.iter().any(|g| g.to_uppercase() == n.to_uppercase()) {
                    out.push(n);
                }
            }
            if out.len() < 2 {
                out.push(if out.iter().any(|o| o == "Data") { "Sheet1".to_string() } else { "Data".to_string() });
            }
            out
        })
        .boxed()
}

fn names_strategy(n_sheets: usize, case_variants: bool) -> BoxedStrategy<Vec<NameSpec>> {
    let n = n_sheets as u8;
    let scope = move || prop_oneof![2 => Just(None), 1 => (0..n).prop_map(Some)];
    let cell = (scope(), 0..n, 1..=3i32, 1..=4i32).prop_map(|(scope, sheet, col, row)| (scope, NameKind::Cell { sheet, col, row }));
    let range = (scope(), 0..n, 1..=2i32, 1..=2i32, 0..=1i32, 0..=2i32).prop_map(|(scope, sheet, c1, r1, w, h)| (scope, NameKind::Range { sheet, c1, r1, c2: c1 + w, r2: r1 + h }));
    // the lambda body may mention sheets; it is generated with a generic sheet list and fixed up later
    let lambda = (scope(), 0..n, 1..=3i32, 1..=4i32, 0..3u8).prop_map(move |(scope, sheet, col, row, shape)| {
        let r = FTree::Ref { sheet: Some(fg::SheetRef { name: format!("\u{1}{sheet}"), quoted: false }), cell: fg::CellRef { col, row, abs_col: true, abs_row: true } };
        let body = match shape {
            0 => r,
            1 => FTree::func("SUM", vec![r, FTree::Range { sheet: Some(fg::SheetRef { name: "Ghost".into(), quoted: false }), a: fg::CellRef { col: 1, row: 1, abs_col: true, abs_row: true }, b: fg::CellRef { col: 2, row: 2, abs_col: true, abs_row: true } }]),
            _ => FTree::bin(BinOp::Mul, r, FTree::num(2)),
        };
        (scope, NameKind::Lambda(body))
    });
    prop::collection::vec((prop_oneof![3 => cell.boxed(), 3 => range.boxed(), 2 => lambda.boxed()], any::<bool>(), 0..10u8), 0..=4)
        .prop_map(move |v| {
            let mut out: Vec<NameSpec> = vec![];
            for (i, ((scope, kind), eq, up)) in v.into_iter().enumerate() {
                let base = match kind {
                    NameKind::Cell { .. } => "nm_c",
                    NameKind::Range { .. } => "nm_r",
                    NameKind::Lambda(_) => "nm_f",
                };
                // the same name may exist globally and locally: use few distinct names
                let mut name = format!("{base}{}", i % 2);
                // names are case-insensitive: the same name may be spelled differently in its
                // global and in its sheet-local definition
                if case_variants && up == 1 {
                    name = name.to_uppercase();
                }
                if out.iter().any(|o| o.name.eq_ignore_ascii_case(&name) && o.scope == scope) {
                    continue;
                }
                // one kind per name (a name is either called or used as a leaf)
                if out.iter().any(|o| o.name.eq_ignore_ascii_case(&name) && std::mem::discriminant(&o.kind) != std::mem::discriminant(&kind)) {
                    continue;
                }
                let eq = eq && matches!(kind, NameKind::Lambda(_));
                let upper = case_variants && up == 0 && !matches!(kind, NameKind::Lambda(_));
                out.push(NameSpec { name, scope, kind, eq, upper });
            }
            out
        })
        .boxed()
}

fn op_strategy() -> BoxedStrategy<SheetOp> {
    let new_name = prop_oneof![
        8 => (0..NAME_POOL.len()).prop_map(|i| NAME_POOL[i].to_string()),
        2 => (0..GHOSTS.len(), any::<bool>()).prop_map(|(i, lower)| if lower { GHOSTS[i].to_lowercase() } else { GHOSTS[i].to_string() }),
        2 => "[A-Za-z][A-Za-z0-9 _.]{0,8}".prop_map(|s| s),
        1 => Just("A".repeat(31)),
    ];
    prop_oneof![
        5 => (0..8u8, new_name).prop_map(|(sheet, name)| SheetOp::Rename { sheet, name }),
        3 => (0..8u8, 0..8u8).prop_map(|(sheet, to)| SheetOp::Move { sheet, to }),
        2 => (0..8u8).prop_map(|sheet| SheetOp::Duplicate { sheet }),
    ]
    .boxed()
}

fn case_strategy(depth: u32, max_ops: usize, avoid: Vec<String>) -> BoxedStrategy<Case> {
    let case_variants = true;
    sheets_strategy()
        .prop_flat_map(move |sheets| {
            let n = sheets.len();
            (Just(sheets), names_strategy(n, case_variants))
        })
        .prop_flat_map(move |(sheets, names)| {
            let p = profile(&sheets, &names);
            let n = sheets.len() as u8;
            let cells = prop::collection::vec((0..n, fg::source_strategy(&p, depth, 3, 80).prop_map(|t| super::c10::no_right_nested_sums(&sanitize(&t)))), 1..=6);
            (Just(sheets), Just(names), cells, prop::collection::vec(op_strategy(), 1..=max_ops))
        })
        .prop_map(move |(sheets, names, cells, ops)| Case { sheets, names, cells, ops, avoid: avoid.clone() })
        .boxed()
}

// ------------------------------------------------------------------------------------------------
// building

fn name_text(kind: &NameKind, upper: bool, sheets: &[String], style: &Style) -> String {
    let sref = |s: u8| {
        let n = &sheets[s as usize % sheets.len()];
        Some(fg::SheetRef { name: if upper { n.to_uppercase() } else { n.clone() }, quoted: false })
    };
    let abs = |col, row| fg::CellRef { col, row, abs_col: true, abs_row: true };
    match kind {
        NameKind::Cell { sheet, col, row } => fg::print(&FTree::Ref { sheet: sref(*sheet), cell: abs(*col, *row) }, style),
        NameKind::Range { sheet, c1, r1, c2, r2 } => fg::print(&FTree::Range { sheet: sref(*sheet), a: abs(*c1, *r1), b: abs(*c2, *r2) }, style),
        NameKind::Lambda(body) => {
            // placeholder sheet names "\u{1}<selector>" stand for "the sheet with that selector"
            fn fix(t: &FTree, sheets: &[String]) -> FTree {
                fg::map_children(t, &|c| fix(c, sheets), &|n| match n {
                    FTree::Ref { sheet: Some(s), cell } if s.name.starts_with('\u{1}') => {
                        let k: usize = s.name[1..].parse().unwrap_or(0);
                        FTree::Ref { sheet: Some(fg::SheetRef { name: sheets[k % sheets.len()].clone(), quoted: false }), cell }
                    }
                    o => o,
                })
            }
            let l = FTree::Lambda {
                params: vec![("x".into(), false)],
                body: Box::new(FTree::bin(BinOp::Add, FTree::Name("x".into()), FTree::paren(fix(body, sheets)))),
                call: None,
            };
            fg::print(&l, style)
        }
    }
}

pub struct Built {
    pub model: Model<'static>,
    pub rejected: usize,
    pub accepted: usize,
    pub excluded: u64,
}

/// Range references to nonexistent sheets become cell references to them (still ghosts).
fn without_ghost_ranges(t: &FTree, sheets: &[String], count: &std::cell::Cell<u64>) -> FTree {
    let is_ghost = |s: &Option<fg::SheetRef>| match s {
        Some(s) => !s.name.starts_with('\u{1}') && !sheets.iter().any(|x| *x == s.name),
        None => false,
    };
    fg::map_children(t, &|c| without_ghost_ranges(c, sheets, count), &|n| match n {
        FTree::Range { sheet, a, .. } | FTree::ColRange { sheet, a, .. } | FTree::RowRange { sheet, a, .. } if is_ghost(&sheet) => {
            count.set(count.get() + 1);
            FTree::Ref { sheet, cell: a }
        }
        o => o,
    })
}

pub fn fill_data(m: &mut Model, sheet: u32) -> Result<(), String> {
    let k = sheet as f64 * 10.0;
    let nums: [(i32, i32, f64); 9] = [(1, 1, 2.0 + k), (1, 2, 3.0 + k), (1, 3, 0.5), (2, 1, 5.0 + k), (2, 2, 7.0), (3, 1, 11.0 - k), (3, 2, -4.0), (4, 1, 1.25), (4, 2, 13.0 + k)];
    for (r, c, v) in nums {
        m.update_cell_with_number(sheet, r, c, v)?;
    }
    m.update_cell_with_text(sheet, 2, 3, &format!("abc{sheet}"))?;
    m.update_cell_with_bool(sheet, 3, 3, sheet % 2 == 0)?;
    Ok(())
}

fn build(case: &Case) -> Result<Built, String> {
    if case.sheets.is_empty() {
        return Err("no sheets".into());
    }
    let style = Style::new("en", "en")?;
    let mut m = Model::new_empty("c17", "en", "UTC", "en")?;
    m.rename_sheet_by_index(0, &case.sheets[0])?;
    for s in &case.sheets[1..] {
        m.add_sheet(s)?;
    }
    let n = case.sheets.len();
    for s in 0..n as u32 {
        fill_data(&mut m, s)?;
    }
    let avoid = |s: &str| case.avoid.iter().any(|a| a == s);
    let excluded = std::cell::Cell::new(0u64);
    for nm in &case.names {
        let mut nm = nm.clone();
        if nm.eq && avoid(AVOID_EQ_NAME) {
            nm.eq = false;
            excluded.set(excluded.get() + 1);
        }
        if nm.upper && avoid(AVOID_CASE_VARIANT) {
            nm.upper = false;
            excluded.set(excluded.get() + 1);
        }
        if avoid(AVOID_GHOST_RANGE) {
            if let NameKind::Lambda(body) = &nm.kind {
                nm.kind = NameKind::Lambda(without_ghost_ranges(body, &case.sheets, &excluded));
            }
        }
        let text = format!("{}{}", if nm.eq { "=" } else { "" }, name_text(&nm.kind, nm.upper, &case.sheets, &style));
        let scope = nm.scope.map(|s| (s as usize % n) as u32);
        // a rejected name (e.g. duplicate after selector resolution) is simply absent
        let _ = m.new_defined_name(&nm.name, scope, &text);
    }
    let mut per_sheet = vec![0usize; n];
    let (mut rejected, mut accepted) = (0, 0);
    for (sel, tree) in &case.cells {
        let s = *sel as usize % n;
        let (row, col) = cell_of_slot(per_sheet[s]);
        per_sheet[s] += 1;
        let tree = if avoid(AVOID_GHOST_RANGE) { without_ghost_ranges(tree, &case.sheets, &excluded) } else { tree.clone() };
        let text = format!("={}", fg::print(&tree, &style));
        if m.set_user_input(s as u32, row, col, text).is_err() {
            rejected += 1;
            continue;
        }
        let bad = match super::c10::formula_node(&m, s as u32, row, col) {
            Some(node) => has_parse_error(&node),
            None => true,
        };
        if bad {
            m.set_user_input(s as u32, row, col, String::new())?;
            rejected += 1;
        } else {
            accepted += 1;
        }
    }
    m.evaluate();
    Ok(Built { model: m, rejected, accepted, excluded: excluded.get() })
}

// ------------------------------------------------------------------------------------------------
// observation

#[derive(Clone, Debug, PartialEq)]
pub struct Leaf {
    pub kind: &'static str,
    pub index: Option<u32>,
    pub name: Option<String>,
}

pub fn leaves(n: &Node) -> Vec<Leaf> {
    let mut out = vec![];
    walk(n, &mut |x| match x {
        Node::ReferenceKind { sheet_name, sheet_index, .. } => out.push(Leaf { kind: "Reference", index: Some(*sheet_index), name: sheet_name.clone() }),
        Node::RangeKind { sheet_name, sheet_index, .. } => out.push(Leaf { kind: "Range", index: Some(*sheet_index), name: sheet_name.clone() }),
        Node::WrongReferenceKind { sheet_name, .. } => out.push(Leaf { kind: "WrongReference", index: None, name: sheet_name.clone() }),
        Node::WrongRangeKind { sheet_name, .. } => out.push(Leaf { kind: "WrongRange", index: None, name: sheet_name.clone() }),
        _ => {}
    });
    out
}

/// The node with the sheet name replaced in the prefixed reference leaves that point at sheet
/// `index` (named `old_name`). Sheet names are case-insensitive (`Model` looks them up and refuses
/// duplicates ignoring case), so a leaf the parser could not resolve but whose prefix equals the
/// old name ignoring case points at that sheet too.
pub fn renamed(node: &Node, index: u32, old_name: &str, new_name: &str) -> Node {
    let mut n = node.clone();
    let old_u = old_name.to_uppercase();
    map_nodes(&mut n, &mut |x| match x {
        Node::ReferenceKind { sheet_name, sheet_index, .. } | Node::RangeKind { sheet_name, sheet_index, .. } => {
            if *sheet_index == index && sheet_name.is_some() {
                *sheet_name = Some(new_name.to_string());
            }
        }
        Node::WrongReferenceKind { sheet_name, .. } | Node::WrongRangeKind { sheet_name, .. } => {
            if sheet_name.as_ref().map(|s| s.to_uppercase() == old_u).unwrap_or(false) {
                *sheet_name = Some(new_name.to_string());
            }
        }
        _ => {}
    });
    n
}

struct FormulaCell {
    node: Node,
    shown: String,
}

struct Obs {
    /// sheet ids in order
    ids: Vec<u32>,
    names_of_sheets: Vec<String>,
    values: BTreeMap<(u32, i32, i32), Val>,
    formulas: BTreeMap<(u32, i32, i32), FormulaCell>,
    /// (lower-case name, scope sheet id) -> stored text
    names: BTreeMap<(String, Option<u32>), String>,
}

fn observe(m: &Model) -> Result<Obs, String> {
    let mut values = BTreeMap::new();
    let mut formulas = BTreeMap::new();
    let mut ids = vec![];
    let mut names_of_sheets = vec![];
    for (si, ws) in m.workbook.worksheets.iter().enumerate() {
        ids.push(ws.sheet_id);
        names_of_sheets.push(ws.get_name());
        for (&r, rd) in &ws.sheet_data {
            for (&c, cell) in rd {
                let v = typed_value(Some(cell), &m.workbook.shared_strings);
                if v != TV::Empty {
                    values.insert((ws.sheet_id, r, c), val(&v));
                }
                if cell.get_formula().is_some() {
                    let node = super::c10::formula_node(m, si as u32, r, c).ok_or_else(|| format!("formula cell ({si},{r},{c}) without parsed node"))?;
                    let shown = m.get_cell_formula(si as u32, r, c)?.unwrap_or_default();
                    formulas.insert((ws.sheet_id, r, c), FormulaCell { node, shown });
                }
            }
        }
    }
    Ok(Obs { ids, names_of_sheets, values, formulas, names: super::c10::stored_names(m) })
}

fn ghost_names_used(m: &Model, obs: &Obs) -> BTreeSet<String> {
    let mut out = BTreeSet::new();
    for f in obs.formulas.values() {
        for l in leaves(&f.node) {
            if l.index.is_none() {
                if let Some(n) = l.name {
                    out.insert(n.to_uppercase());
                }
            }
        }
    }
    for node in name_nodes(m).values() {
        for l in leaves(node) {
            if l.index.is_none() {
                if let Some(n) = l.name {
                    out.insert(n.to_uppercase());
                }
            }
        }
    }
    out
}

/// Exact spellings of the nonexistent sheet names mentioned by formulas and names.
fn ghost_spellings(m: &Model, obs: &Obs) -> BTreeSet<String> {
    let mut out = BTreeSet::new();
    let mut add = |node: &Node| {
        for l in leaves(node) {
            if l.index.is_none() {
                if let Some(n) = l.name {
                    out.insert(n);
                }
            }
        }
    };
    for f in obs.formulas.values() {
        add(&f.node);
    }
    for node in name_nodes(m).values() {
        add(node);
    }
    out
}

fn name_ctx(m: &Model) -> CellReferenceRC {
    CellReferenceRC { sheet: m.workbook.worksheets[0].get_name(), row: 1, column: 1 }
}

/// Stored defined-name formulas parsed the way the engine parses them (English, A1, first sheet).
fn name_nodes(m: &Model) -> BTreeMap<(String, Option<u32>), Node> {
    let mut parser = new_parser_english(m.workbook.get_worksheet_names(), m.workbook.get_defined_names_with_scope(), m.workbook.tables.clone());
    let ctx = name_ctx(m);
    let mut out = BTreeMap::new();
    for d in &m.workbook.defined_names {
        let body = d.formula.strip_prefix('=').unwrap_or(&d.formula);
        out.insert((d.name.to_lowercase(), d.sheet_id), parser.parse(body, &ctx));
    }
    out
}

fn english(node: &Node, ctx: &CellReferenceRC) -> String {
    let (Ok(loc), Ok(lang)) = (get_locale("en"), get_language("en")) else { return String::new() };
    to_localized_string(node, ctx, loc, lang)
}

/// Class of the first leaf whose sheet prefix differs between the expected and the actual text.
fn leaf_class(expected_before: &Node, expected: &Node, actual: Option<&Node>, renamed_index: u32, old_name: &str) -> String {
    let b = leaves(expected_before);
    let e = leaves(expected);
    let Some(actual) = actual else { return "formula-gone".into() };
    let a = leaves(actual);
    if e.len() != a.len() || b.len() != e.len() {
        return "leaf-count".into();
    }
    for ((x, y), was) in e.iter().zip(a.iter()).zip(b.iter()) {
        if x.name != y.name {
            let target = match was.index {
                None if was.name.as_ref().map(|n| n.to_uppercase() == old_name.to_uppercase()).unwrap_or(false) => "renamed-sheet-spelled-in-other-case",
                None => "nonexistent-sheet",
                Some(i) if i == renamed_index => "renamed-sheet",
                Some(_) => "other-sheet",
            };
            return format!("leaf={}({target})", was.kind);
        }
    }
    "no-leaf".into()
}

// ------------------------------------------------------------------------------------------------
// check

pub fn check(case: &Case) -> Outcome {
    match panics::catch(|| check_inner(case)) {
        Ok(o) => o,
        Err(p) if evaluation_assertion(&p) => Outcome::pass().label("evaluation-debug-assertion"),
        Err(p) => Outcome::pass().fail(format!("C17:{}", p.class()), p.describe()),
    }
}

fn check_inner(case: &Case) -> Outcome {
    let mut o = Outcome::pass();
    let built = match build(case) {
        Ok(b) => b,
        Err(e) => return o.fail("C17:setup", e),
    };
    o.excluded += built.excluded;
    let mut m = built.model;
    for _ in 0..built.rejected {
        o = o.label("formula-rejected");
    }
    for _ in 0..built.accepted {
        o = o.label("formula-accepted");
    }
    let first = match observe(&m) {
        Ok(x) => x,
        Err(e) => return o.fail("C17:setup", e),
    };
    let has_ghost = !ghost_names_used(&m, &first).is_empty();
    let has_cross_range = first.formulas.iter().any(|((sid, _, _), f)| {
        let host = first.ids.iter().position(|i| i == sid).unwrap_or(0) as u32;
        leaves(&f.node).iter().any(|l| l.kind == "Range" && l.name.is_some() && l.index != Some(host))
    });
    let mut effective_ops = 0;
    for (k, op) in case.ops.iter().enumerate() {
        let before = match observe(&m) {
            Ok(x) => x,
            Err(e) => return o.fail("C17:setup", e),
        };
        let n = before.ids.len() as u32;
        let names_before = name_nodes(&m);
        let ctx_before = name_ctx(&m);
        let ghosts = ghost_names_used(&m, &before);
        let here = |m: &Model| format!("op {k} {op:?} on sheets {:?} (now {:?})", before.names_of_sheets, m.workbook.get_worksheet_names());
        match op {
            SheetOp::Rename { sheet, name } => {
                let idx = *sheet as u32 % n;
                let old = before.names_of_sheets[idx as usize].clone();
                if case.avoid.iter().any(|a| a == AVOID_CASE_VARIANT) && ghosts.contains(&name.to_uppercase()) && !ghost_spellings(&m, &before).contains(name) {
                    // the new name would equal a mentioned nonexistent sheet only ignoring case
                    // (listed: the parser resolves sheet prefixes case-sensitively)
                    o.excluded += 1;
                    continue;
                }
                if let Err(_e) = m.rename_sheet_by_index(idx, name) {
                    o = o.label("rename-refused");
                    // a refused rename changes nothing (C04's business; cheap to check here)
                    continue;
                }
                m.evaluate();
                effective_ops += 1;
                let resolves_ghost = ghosts.contains(&name.to_uppercase());
                o = o.label(if resolves_ghost { "rename:to-ghost-name" } else if old.to_uppercase() == name.to_uppercase() { "rename:case-variant-or-same" } else { "rename:plain" });
                let after = match observe(&m) {
                    Ok(x) => x,
                    Err(e) => return o.fail("C17:setup", e),
                };
                // text of formulas
                for (key, f) in &before.formulas {
                    let host_index = before.ids.iter().position(|i| *i == key.0).unwrap_or(0);
                    let expected_node = renamed(&f.node, idx, &old, name);
                    let ctx = CellReferenceRC { sheet: after.names_of_sheets[host_index].clone(), row: key.1, column: key.2 };
                    let expected = format!("={}", english(&expected_node, &ctx));
                    let actual = after.formulas.get(key);
                    if actual.map(|a| a.shown.as_str()) != Some(expected.as_str()) {
                        let class = leaf_class(&f.node, &expected_node, actual.map(|a| &a.node), idx, &old);
                        return o.fail(
                            format!("C17:rename:formula-text:{class}"),
                            format!(
                                "{}: cell {:?} showed {} before; expected {} after renaming {old:?} to {name:?}; shows {:?}",
                                here(&m),
                                key,
                                f.shown,
                                expected,
                                actual.map(|a| a.shown.clone())
                            ),
                        );
                    }
                }
                // text of names
                let ctx_after = name_ctx(&m);
                for (key, node) in &names_before {
                    if has_parse_error(node) {
                        continue;
                    }
                    let expected_node = renamed(node, idx, &old, name);
                    let expected = to_english_string(&expected_node, &ctx_after);
                    let actual = after.names.get(key);
                    if actual != Some(&expected) {
                        let actual_node = name_nodes(&m).get(key).cloned();
                        let class = leaf_class(node, &expected_node, actual_node.as_ref(), idx, &old);
                        return o.fail(
                            format!("C17:rename:name-text:{class}"),
                            format!(
                                "{}: name {:?} was stored as {:?}; expected {expected:?} after renaming {old:?} to {name:?}; stored {:?}",
                                here(&m),
                                key,
                                to_english_string(node, &ctx_before),
                                actual
                            ),
                        );
                    }
                }
                if after.names.len() != before.names.len() {
                    return o.fail("C17:rename:name-count", format!("{}: {} names before, {} after", here(&m), before.names.len(), after.names.len()));
                }
                if !resolves_ghost {
                    if let Some(d) = first_diff(&before.values, &after.values, &show_tv) {
                        let class = value_class(&before, &d_key(&before.values, &after.values));
                        return o.fail(format!("C17:rename:value:{class}"), format!("{}: (sheet id, row, column) {d}", here(&m)));
                    }
                } else {
                    o.excluded += 0;
                }
            }
            SheetOp::Move { sheet, to } => {
                let (idx, to) = (*sheet as u32 % n, *to as u32 % n);
                if let Err(e) = m.move_sheet(idx, to) {
                    return o.fail("C17:move:refused", format!("{}: {e}", here(&m)));
                }
                m.evaluate();
                if idx != to {
                    effective_ops += 1;
                }
                o = o.label(if idx == to { "move:same-place" } else { "move" });
                let after = match observe(&m) {
                    Ok(x) => x,
                    Err(e) => return o.fail("C17:setup", e),
                };
                let mut expected_ids = before.ids.clone();
                let id = expected_ids.remove(idx as usize);
                expected_ids.insert(to as usize, id);
                if after.ids != expected_ids {
                    return o.fail("C17:move:order", format!("{}: sheet ids {:?}, expected {:?}", here(&m), after.ids, expected_ids));
                }
                let shown = |o: &Obs| o.formulas.iter().map(|(k, f)| (*k, f.shown.clone())).collect::<BTreeMap<_, _>>();
                let s = |v: Option<&String>| v.cloned().unwrap_or_else(|| "<absent>".into());
                if let Some(d) = first_diff(&shown(&before), &shown(&after), &s) {
                    return o.fail("C17:move:formula-text", format!("{}: {d}", here(&m)));
                }
                if let Some(d) = first_diff(&before.names, &after.names, &s) {
                    return o.fail("C17:move:name-text", format!("{}: {d}", here(&m)));
                }
                if let Some(d) = first_diff(&before.values, &after.values, &show_tv) {
                    let class = value_class(&before, &d_key(&before.values, &after.values));
                    return o.fail(format!("C17:move:value:{class}"), format!("{}: (sheet id, row, column) {d}", here(&m)));
                }
            }
            SheetOp::Duplicate { sheet } => {
                let idx = *sheet as u32 % n;
                if n >= 6 {
                    o = o.label("duplicate-skipped:many-sheets");
                    continue;
                }
                let (new_name, new_index) = match m.duplicate_sheet(idx) {
                    Ok(x) => x,
                    Err(e) => return o.fail("C17:duplicate:refused", format!("{}: {e}", here(&m))),
                };
                m.evaluate();
                effective_ops += 1;
                o = o.label("duplicate");
                let after = match observe(&m) {
                    Ok(x) => x,
                    Err(e) => return o.fail("C17:setup", e),
                };
                let src_id = before.ids[idx as usize];
                let Some(&new_id) = after.ids.get(new_index as usize) else {
                    return o.fail("C17:duplicate:index", format!("{}: returned index {new_index}", here(&m)));
                };
                if before.ids.contains(&new_id) || after.ids.iter().filter(|i| **i == new_id).count() != 1 {
                    return o.fail("C17:duplicate:sheet-id", format!("{}: new sheet id {new_id}, ids {:?}", here(&m), after.ids));
                }
                // existing sheets: nothing changes
                let shown = |o: &Obs| o.formulas.iter().filter(|(k, _)| k.0 != new_id).map(|(k, f)| (*k, f.shown.clone())).collect::<BTreeMap<_, _>>();
                let s = |v: Option<&String>| v.cloned().unwrap_or_else(|| "<absent>".into());
                if let Some(d) = first_diff(&shown(&before), &shown(&after), &s) {
                    return o.fail("C17:duplicate:formula-text-of-existing-sheet", format!("{}: {d}", here(&m)));
                }
                let old_names: BTreeMap<_, _> = after.names.iter().filter(|(k, _)| k.1 != Some(new_id)).map(|(k, v)| (k.clone(), v.clone())).collect();
                if let Some(d) = first_diff(&before.names, &old_names, &s) {
                    return o.fail("C17:duplicate:name-text-of-existing-name", format!("{}: {d}", here(&m)));
                }
                let old_values: BTreeMap<_, _> = after.values.iter().filter(|(k, _)| k.0 != new_id).map(|(k, v)| (*k, v.clone())).collect();
                if let Some(d) = first_diff(&before.values, &old_values, &show_tv) {
                    let class = value_class(&before, &d_key(&before.values, &old_values));
                    return o.fail(format!("C17:duplicate:value-of-existing-sheet:{class}"), format!("{}: (sheet id, row, column) {d}", here(&m)));
                }
                // the copy computes what its source computes
                let src: BTreeMap<(i32, i32), Val> = after.values.iter().filter(|(k, _)| k.0 == src_id).map(|(k, v)| ((k.1, k.2), v.clone())).collect();
                let copy: BTreeMap<(i32, i32), Val> = after.values.iter().filter(|(k, _)| k.0 == new_id).map(|(k, v)| ((k.1, k.2), v.clone())).collect();
                if let Some(d) = first_diff(&src, &copy, &show_tv) {
                    let key = d_key(&src, &copy).map(|(r, c)| (src_id, r, c));
                    let class = value_class(&before, &key);
                    let f = key.and_then(|k| after.formulas.get(&k).map(|f| f.shown.clone()));
                    let g = key.and_then(|k| after.formulas.get(&(new_id, k.1, k.2)).map(|f| f.shown.clone()));
                    return o.fail(
                        format!("C17:duplicate:copy-value:{class}"),
                        format!("{}: copy {new_name:?}: (row, column) {d} (source -> copy); source formula {f:?}, copy formula {g:?}; names {:?}", here(&m), after.names),
                    );
                }
            }
        }
    }
    if has_ghost {
        o = o.label("has-ghost-reference");
    }
    if has_cross_range {
        o = o.label("has-cross-sheet-range");
    }
    if has_ghost && has_cross_range && effective_ops > 0 {
        o = o.nontrivial(serde_json::to_string(case).unwrap_or_default());
    }
    o
}

/// Key of the first differing entry.
fn d_key<K: Ord + Copy, V: PartialEq>(a: &BTreeMap<K, V>, b: &BTreeMap<K, V>) -> Option<K> {
    for (k, va) in a {
        if b.get(k) != Some(va) {
            return Some(*k);
        }
    }
    b.keys().find(|k| !a.contains_key(k)).copied()
}

/// What kind of reference leaves the formula of the differing cell has (signature fragment).
fn value_class(before: &Obs, key: &Option<(u32, i32, i32)>) -> String {
    let Some(k) = key else { return "cell-set".into() };
    let Some(f) = before.formulas.get(k) else { return "not-a-formula(spill-or-data)".into() };
    let mut kinds: BTreeSet<String> = BTreeSet::new();
    for l in leaves(&f.node) {
        if l.name.is_some() {
            kinds.insert(l.kind.to_string());
        }
    }
    let mut uses_name = false;
    walk(&f.node, &mut |n| {
        if matches!(n, Node::DefinedNameKind(_) | Node::NamedFunctionKind { .. }) {
            uses_name = true
        }
    });
    if uses_name {
        kinds.insert("name".into());
    }
    if kinds.is_empty() {
        return "no-sheet-prefix".into();
    }
    kinds.into_iter().collect::<Vec<_>>().join("+")
}

pub fn run(ctx: &Ctx) {
    ctx.set_rule(
        "workbook of 2..4 sheets (names from a pool of 22 incl. names that need quotes), data in A1:C4 of every sheet, 0..4 defined \
         names (global / sheet-local; cell, range, LAMBDA), 1..6 formula cells whose references carry prefixes of existing and of \
         nonexistent sheets (60 %), then 1..4 (quick) / 1..8 (thorough) operations rename / move / duplicate; non-trivial = at least \
         one reference to a nonexistent sheet and one cross-sheet range reference present and at least one operation took effect; \
         distinct by the case.",
    );
    ctx.assume("en/en only (C10 covers renames under other configurations)");
    ctx.assume("formulas do not read sheet names or formula text (no SHEET, SHEETS, CELL, INDIRECT, FORMULATEXT)");
    ctx.assume("for a rename whose new name equals (ignoring case) a nonexistent sheet name used in the workbook only the textual clause is asserted");
    ctx.assume("a typed text the parser rejects is removed before the operations (counted as formula-rejected)");
    let (cases, depth, ops) = match ctx.tier {
        Tier::Quick => (100000, 2, 4),
        Tier::Thorough => (2000000, 3, 8),
    };
    let enc = |c: &Case| serde_json::to_value(c).unwrap_or(Value::Null);
    let mut avoid = vec![];
    for sw in [AVOID_CASE_VARIANT, AVOID_GHOST_RANGE, AVOID_EQ_NAME] {
        if ctx.avoid(sw) {
            avoid.push(sw.to_string());
        }
    }
    ctx.campaign("sheet-ops", cases, || case_strategy(depth, ops, avoid.clone()), check, enc);
}

pub fn replay(_ctx: &Ctx, _campaign: &str, case: &Value) -> Result<Outcome, String> {
    let c: Case = serde_json::from_value(case.clone()).map_err(|e| e.to_string())?;
    Ok(check(&c))
}
