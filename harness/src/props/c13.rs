//! C13 — Deleting rows or columns shifts the rest and breaks only what was deleted.
//!
//! Same workbooks and machinery as C12 (`props/geom.rs`) with a deletion band. Oracle R-geom for
//! deletion: every cell outside the band keeps content kind, content text (non-formulas), typed
//! value, resolved style and link at π(p); every formula tree equals the old tree with its
//! reference leaves re-targeted at π(target): a single-cell leaf into the band is `#REF!`, a
//! range that contains the band shrinks, a range that loses a corner must stop being a valid
//! reference (what it becomes is not asserted); formulas that read no deleted cell — directly or
//! through other formulas — compute the same value.

use serde_json::Value;

use super::geom::{self, EditCase, GenCfg, Kind};
use crate::engine::{Ctx, Outcome, Tier};

pub fn check(case: &EditCase) -> Outcome {
    let run = geom::check_single_edit("C13", Kind::Delete, case);
    let mut o = run.outcome;
    let e = run.edit;
    o = o.label(format!("api:{}", if case.user_api { "UserModel" } else { "Model" }));
    o = o.label(format!("axis:{}", e.axis.name()));
    o = o.label(format!("sheets:{}", case.book.sheets.len().min(3)));
    if case.book.language != "en" || case.book.locale != "en" {
        o = o.label("config:non-default");
    }
    let Some(st) = run.stats else { return o };
    for f in &st.fates {
        o = o.label(format!("leaf:{}:{}", if f.is_range { "range" } else { "cell" }, f.relation));
        if f.resized {
            o = o.label("leaf:range-shrank");
        }
    }
    for l in &st.labels {
        o = o.label(l.clone());
    }
    if st.values_checked > 0 {
        o = o.label("value-clause-checked");
    }
    if st.spill_blocked {
        o = o.label("spill-blocked");
    }
    if st.moved_cells > 0 {
        o = o.label("cells-shifted");
    }
    // non-trivial: a formula reads a deleted cell and another reads only surviving cells beyond
    // the band
    if st.reads_deleted > 0 && st.reads_beyond > 0 && !o.failed() {
        let key = serde_json::to_string(case).unwrap_or_default();
        o = o.nontrivial(key);
    }
    o
}

pub fn run(ctx: &Ctx) {
    ctx.set_rule(
        "Generated workbooks as for C12 and one deletion (rows or columns, position 1..window+2 / far away, count 1-3, \
         any sheet) through Model or UserModel, with formulas before, inside, across and after the band on the same \
         and on other sheets. Non-trivial: at least one surviving formula reads a cell of the band and at least one \
         reads only cells beyond the band; distinct by the whole case.",
    );
    ctx.assume("'reads no deleted cell' is taken transitively: a formula that reads a formula that reads a deleted cell is out of scope of the value clause, as are formulas on/behind a reference cycle and dynamic arrays whose spill area meets the band (they re-spill into cells that moved closer)");
    ctx.assume("ranges that lose a corner to the band: only 'is no longer a valid reference' is asserted (the statement leaves the result open)");
    ctx.assume("whole-column ranges are invariant under row deletion, whole-row ranges under column deletion");
    ctx.assume("numbers are compared bit-exactly");
    let avoid = geom::active_switches(&|s| ctx.avoid(s));
    let cases = match ctx.tier {
        Tier::Quick => 30000,
        Tier::Thorough => 600000,
    };
    let enc = |c: &EditCase| serde_json::to_value(c).unwrap_or(Value::Null);
    let cfg = GenCfg { edge_refs: 1, edge_cells: 1, ..GenCfg::default() };
    let av = avoid.clone();
    ctx.campaign("delete", cases, move || geom::edit_case_strategy(cfg, 22, av.clone()), check, enc);
    // small dense workbooks: many formulas around a band in a 6x4 window
    let dense = GenCfg { rows: 6, cols: 4, edge_refs: 0, edge_cells: 0, descriptors: false };
    let av = avoid.clone();
    ctx.campaign("delete-dense", cases / 4, move || geom::edit_case_strategy(dense, 16, av.clone()), check, enc);
}

pub fn replay(_ctx: &Ctx, _campaign: &str, case: &Value) -> Result<Outcome, String> {
    let c: EditCase = serde_json::from_value(case.clone()).map_err(|e| e.to_string())?;
    Ok(check(&c))
}
