//! R-geom — engine-independent geometry of row/column insertion and deletion, shared by C12, C13
//! and C14 (self-contained: nothing outside this file is needed except `engine::{nodes,snapshot}`).
//!
//!  1. position maps `π : index -> At(i) | Deleted | OffGrid` ([`Edit`]);
//!  2. the *expected formula tree* after an edit: the old `Node` (as produced by the real parser)
//!     with every reference leaf re-targeted at `π(target)` and re-based on the moved host cell
//!     ([`expected_node`]); a single-cell leaf whose target is deleted or pushed off the grid is
//!     `#REF!`; a range that loses a corner is a wildcard that only refuses to match a valid
//!     reference ("not asserted");
//!  3. dependency analysis used to decide which formula *values* the statements talk about
//!     (cycles, readers of deleted cells, readers of re-spilled dynamic arrays);
//!  4. a serialisable workbook description ([`Book`]), its proptest generator and its builder;
//!  5. the comparison `before --edit--> after` used by C12 and C13 ([`compare`]).

use std::collections::{BTreeMap, BTreeSet};

use ironcalc_base::expressions::parser::Node;
use ironcalc_base::expressions::token::Error;
use ironcalc_base::types::{ArrayKind, Cell, Col, Color, Fill, Link, Style};
use ironcalc_base::{Model, UserModel, COLUMN_WIDTH_FACTOR};
use proptest::prelude::*;
use serde::{Deserialize, Serialize};

use crate::engine::nodes::{self, walk};
use crate::engine::panics;
use crate::engine::snapshot::{cell_value, TV};

pub const LAST_ROW: i32 = 1_048_576;
pub const LAST_COLUMN: i32 = 16_384;

// ---------------------------------------------------------------------------------------------
// 1. position maps
// ---------------------------------------------------------------------------------------------

#[derive(Clone, Copy, Debug, PartialEq, Eq, Serialize, Deserialize)]
pub enum Axis {
    Rows,
    Cols,
}

impl Axis {
    pub fn name(&self) -> &'static str {
        match self {
            Axis::Rows => "rows",
            Axis::Cols => "cols",
        }
    }
    pub fn last(&self) -> i32 {
        match self {
            Axis::Rows => LAST_ROW,
            Axis::Cols => LAST_COLUMN,
        }
    }
}

#[derive(Clone, Copy, Debug, PartialEq, Eq, Serialize, Deserialize)]
pub enum Kind {
    Insert,
    Delete,
}

/// One structural edit: insert `n` rows/columns before index `at`, or delete `[at, at+n)`.
#[derive(Clone, Copy, Debug, PartialEq, Eq, Serialize, Deserialize)]
pub struct Edit {
    pub kind: Kind,
    pub axis: Axis,
    pub sheet: u32,
    pub at: i32,
    pub n: i32,
}

#[derive(Clone, Copy, Debug, PartialEq, Eq)]
pub enum Pos {
    At(i32),
    Deleted,
    OffGrid,
}

#[derive(Clone, Copy, Debug, PartialEq, Eq)]
pub enum CellPos {
    At(i32, i32),
    Deleted,
    OffGrid,
}

impl Edit {
    /// π along the axis of the edit.
    pub fn map_index(&self, i: i32) -> Pos {
        match self.kind {
            Kind::Insert => {
                if i < self.at {
                    Pos::At(i)
                } else if i + self.n > self.axis.last() {
                    Pos::OffGrid
                } else {
                    Pos::At(i + self.n)
                }
            }
            Kind::Delete => {
                if i < self.at {
                    Pos::At(i)
                } else if i < self.at + self.n {
                    Pos::Deleted
                } else {
                    Pos::At(i - self.n)
                }
            }
        }
    }

    /// π on cells (identity on every other sheet).
    pub fn map_cell(&self, sheet: u32, row: i32, col: i32) -> CellPos {
        if sheet != self.sheet {
            return CellPos::At(row, col);
        }
        let (i, other) = match self.axis {
            Axis::Rows => (row, col),
            Axis::Cols => (col, row),
        };
        match self.map_index(i) {
            Pos::At(j) => match self.axis {
                Axis::Rows => CellPos::At(j, other),
                Axis::Cols => CellPos::At(other, j),
            },
            Pos::Deleted => CellPos::Deleted,
            Pos::OffGrid => CellPos::OffGrid,
        }
    }

    /// The old position whose image is (row, col); `None` for the cells of an inserted band
    /// (they are not in the image of π).
    pub fn preimage(&self, sheet: u32, row: i32, col: i32) -> Option<(i32, i32)> {
        if sheet != self.sheet {
            return Some((row, col));
        }
        let (i, other) = match self.axis {
            Axis::Rows => (row, col),
            Axis::Cols => (col, row),
        };
        let j = match self.kind {
            Kind::Insert => {
                if i < self.at {
                    i
                } else if i < self.at + self.n {
                    return None;
                } else {
                    i - self.n
                }
            }
            Kind::Delete => {
                if i < self.at {
                    i
                } else {
                    i + self.n
                }
            }
        };
        if j > self.axis.last() {
            return None;
        }
        Some(match self.axis {
            Axis::Rows => (j, other),
            Axis::Cols => (other, j),
        })
    }

    /// The index of a cell along the axis of the edit.
    pub fn along(&self, row: i32, col: i32) -> i32 {
        match self.axis {
            Axis::Rows => row,
            Axis::Cols => col,
        }
    }

    /// Does the old cell move (its image differs from it)?
    pub fn moves(&self, sheet: u32, row: i32, col: i32) -> bool {
        sheet == self.sheet && self.along(row, col) >= self.at
    }

    pub fn describe(&self) -> String {
        match self.kind {
            Kind::Insert => format!("insert {} {} before {} on sheet {}", self.n, self.axis.name(), self.at, self.sheet),
            Kind::Delete => format!(
                "delete {} {}..={} on sheet {}",
                self.axis.name(),
                self.at,
                self.at + self.n - 1,
                self.sheet
            ),
        }
    }

    /// The deletion that removes exactly the band this insertion created.
    pub fn undoing_delete(&self) -> Edit {
        Edit { kind: Kind::Delete, ..*self }
    }

    pub fn apply_model(&self, m: &mut Model) -> Result<(), String> {
        match (self.kind, self.axis) {
            (Kind::Insert, Axis::Rows) => m.insert_rows(self.sheet, self.at, self.n),
            (Kind::Insert, Axis::Cols) => m.insert_columns(self.sheet, self.at, self.n),
            (Kind::Delete, Axis::Rows) => m.delete_rows(self.sheet, self.at, self.n),
            (Kind::Delete, Axis::Cols) => m.delete_columns(self.sheet, self.at, self.n),
        }
    }

    pub fn apply_user(&self, um: &mut UserModel) -> Result<(), String> {
        match (self.kind, self.axis) {
            (Kind::Insert, Axis::Rows) => um.insert_rows(self.sheet, self.at, self.n),
            (Kind::Insert, Axis::Cols) => um.insert_columns(self.sheet, self.at, self.n),
            (Kind::Delete, Axis::Rows) => um.delete_rows(self.sheet, self.at, self.n),
            (Kind::Delete, Axis::Cols) => um.delete_columns(self.sheet, self.at, self.n),
        }
    }
}

// ---------------------------------------------------------------------------------------------
// 2. expected formula tree
// ---------------------------------------------------------------------------------------------

/// Marker for "range that lost a corner": matches anything that is not a valid reference.
const BROKEN: &str = "\u{1}range-lost-a-corner";

fn broken() -> Node {
    Node::TableNameKind(BROKEN.to_string())
}

fn is_broken(n: &Node) -> bool {
    matches!(n, Node::TableNameKind(s) if s == BROKEN)
}

#[derive(Clone, Debug)]
pub struct LeafFate {
    pub is_range: bool,
    /// the leaf targets the edited sheet
    pub on_edit_sheet: bool,
    /// position of the target relative to the band (see `relation_*`)
    pub relation: &'static str,
    /// the expected tree still holds a reference for this leaf
    pub kept: bool,
    /// a range that receives inserted rows/columns in its interior (or loses interior ones)
    pub resized: bool,
    /// the target moved (its image differs from it)
    pub moved: bool,
}

fn relation_cell(e: &Edit, i: i32) -> &'static str {
    match e.kind {
        Kind::Insert => {
            if i + e.n > e.axis.last() && i >= e.at {
                "pushed-off"
            } else if i < e.at {
                "before"
            } else if i == e.at {
                "at"
            } else {
                "after"
            }
        }
        Kind::Delete => {
            if i < e.at {
                "before"
            } else if i < e.at + e.n {
                "in-band"
            } else if i == e.at + e.n {
                "just-after"
            } else {
                "after"
            }
        }
    }
}

fn relation_range(e: &Edit, i1: i32, i2: i32) -> &'static str {
    match e.kind {
        Kind::Insert => {
            if i2 >= e.at && i2 + e.n > e.axis.last() {
                "pushed-off"
            } else if i2 < e.at - 1 {
                "before"
            } else if i2 == e.at - 1 {
                "ends-just-before"
            } else if i1 < e.at {
                "straddles"
            } else if i1 == e.at {
                "starts-at"
            } else {
                "after"
            }
        }
        Kind::Delete => {
            let b1 = e.at;
            let b2 = e.at + e.n - 1;
            if i2 < b1 {
                "before"
            } else if i1 > b2 {
                "after"
            } else if i1 < b1 && i2 > b2 {
                "contains-band"
            } else if i1 >= b1 && i2 <= b2 {
                "inside-band"
            } else if i1 >= b1 {
                "starts-in-band"
            } else {
                "ends-in-band"
            }
        }
    }
}

struct Rewriter<'a> {
    edit: &'a Edit,
    old_host: (i32, i32),
    new_host: (i32, i32),
    fates: Vec<LeafFate>,
}

impl Rewriter<'_> {
    fn rebase(&self, abs_row: bool, abs_col: bool, tr: i32, tc: i32) -> (i32, i32) {
        (
            if abs_row { tr } else { tr - self.new_host.0 },
            if abs_col { tc } else { tc - self.new_host.1 },
        )
    }

    fn resolve(&self, abs_row: bool, abs_col: bool, r: i32, c: i32) -> (i32, i32) {
        (
            if abs_row { r } else { r + self.old_host.0 },
            if abs_col { c } else { c + self.old_host.1 },
        )
    }

    fn rewrite(&mut self, node: &mut Node) {
        let e = *self.edit;
        match node {
            Node::ReferenceKind { sheet_index, absolute_row, absolute_column, row, column, .. } => {
                let (tr, tc) = self.resolve(*absolute_row, *absolute_column, *row, *column);
                if *sheet_index != e.sheet {
                    let (r, c) = self.rebase(*absolute_row, *absolute_column, tr, tc);
                    *row = r;
                    *column = c;
                    self.fates.push(LeafFate { is_range: false, on_edit_sheet: false, relation: "other-sheet", kept: true, resized: false, moved: false });
                    return;
                }
                let i = e.along(tr, tc);
                let relation = relation_cell(&e, i);
                match e.map_cell(e.sheet, tr, tc) {
                    CellPos::At(nr, nc) => {
                        let (r, c) = self.rebase(*absolute_row, *absolute_column, nr, nc);
                        *row = r;
                        *column = c;
                        self.fates.push(LeafFate { is_range: false, on_edit_sheet: true, relation, kept: true, resized: false, moved: (nr, nc) != (tr, tc) });
                    }
                    CellPos::Deleted | CellPos::OffGrid => {
                        *node = Node::ErrorKind(Error::REF);
                        self.fates.push(LeafFate { is_range: false, on_edit_sheet: true, relation, kept: false, resized: false, moved: true });
                    }
                }
            }
            Node::RangeKind {
                sheet_index,
                absolute_row1,
                absolute_column1,
                row1,
                column1,
                absolute_row2,
                absolute_column2,
                row2,
                column2,
                ..
            } => {
                let (r1, c1) = self.resolve(*absolute_row1, *absolute_column1, *row1, *column1);
                let (r2, c2) = self.resolve(*absolute_row2, *absolute_column2, *row2, *column2);
                // whole-column ranges (A:B) have no rows to shift, whole-row ranges no columns
                let whole_columns = *absolute_row1 && *absolute_row2 && *row1 == 1 && *row2 == LAST_ROW;
                let whole_rows = !whole_columns && *absolute_column1 && *absolute_column2 && *column1 == 1 && *column2 == LAST_COLUMN;
                let invariant = (e.axis == Axis::Rows && whole_columns) || (e.axis == Axis::Cols && whole_rows);
                if *sheet_index != e.sheet || invariant {
                    let (a, b) = self.rebase(*absolute_row1, *absolute_column1, r1, c1);
                    let (c, d) = self.rebase(*absolute_row2, *absolute_column2, r2, c2);
                    *row1 = a;
                    *column1 = b;
                    *row2 = c;
                    *column2 = d;
                    let on = *sheet_index == e.sheet;
                    self.fates.push(LeafFate { is_range: true, on_edit_sheet: on, relation: if on { "whole" } else { "other-sheet" }, kept: true, resized: false, moved: false });
                    return;
                }
                let (i1, i2) = (e.along(r1, c1), e.along(r2, c2));
                let relation = relation_range(&e, i1.min(i2), i1.max(i2));
                match (e.map_cell(e.sheet, r1, c1), e.map_cell(e.sheet, r2, c2)) {
                    (CellPos::At(nr1, nc1), CellPos::At(nr2, nc2)) => {
                        let (a, b) = self.rebase(*absolute_row1, *absolute_column1, nr1, nc1);
                        let (c, d) = self.rebase(*absolute_row2, *absolute_column2, nr2, nc2);
                        *row1 = a;
                        *column1 = b;
                        *row2 = c;
                        *column2 = d;
                        let old_len = (i1 - i2).abs();
                        let new_len = (e.along(nr1, nc1) - e.along(nr2, nc2)).abs();
                        self.fates.push(LeafFate {
                            is_range: true,
                            on_edit_sheet: true,
                            relation,
                            kept: true,
                            resized: old_len != new_len,
                            moved: (nr1, nc1, nr2, nc2) != (r1, c1, r2, c2),
                        });
                    }
                    _ => {
                        *node = broken();
                        self.fates.push(LeafFate { is_range: true, on_edit_sheet: true, relation, kept: false, resized: false, moved: true });
                    }
                }
            }
            Node::WrongReferenceKind { absolute_row, absolute_column, row, column, .. } => {
                let (tr, tc) = self.resolve(*absolute_row, *absolute_column, *row, *column);
                let (r, c) = self.rebase(*absolute_row, *absolute_column, tr, tc);
                *row = r;
                *column = c;
            }
            Node::WrongRangeKind {
                absolute_row1,
                absolute_column1,
                row1,
                column1,
                absolute_row2,
                absolute_column2,
                row2,
                column2,
                ..
            } => {
                let (r1, c1) = self.resolve(*absolute_row1, *absolute_column1, *row1, *column1);
                let (r2, c2) = self.resolve(*absolute_row2, *absolute_column2, *row2, *column2);
                let (a, b) = self.rebase(*absolute_row1, *absolute_column1, r1, c1);
                let (c, d) = self.rebase(*absolute_row2, *absolute_column2, r2, c2);
                *row1 = a;
                *column1 = b;
                *row2 = c;
                *column2 = d;
            }
            other => {
                for ch in children_mut(other) {
                    self.rewrite(ch);
                }
            }
        }
    }
}

/// Direct children of a node, mutable (same order as `engine::nodes::walk`).
pub fn children_mut(node: &mut Node) -> Vec<&mut Node> {
    match node {
        Node::OpRangeKind { left, right }
        | Node::OpConcatenateKind { left, right }
        | Node::OpSumKind { left, right, .. }
        | Node::OpProductKind { left, right, .. }
        | Node::OpPowerKind { left, right }
        | Node::CompareKind { left, right, .. } => vec![left.as_mut(), right.as_mut()],
        Node::FunctionKind { args, .. } | Node::NamedFunctionKind { args, .. } => args.iter_mut().collect(),
        Node::LambdaDefKind { body, .. } => vec![body.as_mut()],
        Node::LambdaCallKind { lambda, args } => {
            let mut v: Vec<&mut Node> = vec![lambda.as_mut()];
            v.extend(args.iter_mut());
            v
        }
        Node::ImplicitIntersection { child, .. } | Node::SpillRangeOperator { child } => vec![child.as_mut()],
        Node::UnaryKind { right, .. } => vec![right.as_mut()],
        _ => vec![],
    }
}

/// The tree the formula hosted at `old_host` must have after `edit`, when its host is at
/// `new_host`, and the fate of each of its reference leaves (in walk order).
pub fn expected_node(old: &Node, old_host: (i32, i32), new_host: (i32, i32), edit: &Edit) -> (Node, Vec<LeafFate>) {
    let mut n = old.clone();
    let mut rw = Rewriter { edit, old_host, new_host, fates: vec![] };
    rw.rewrite(&mut n);
    (n, rw.fates)
}

/// Replace, in `actual`, every sub-tree standing where `expected` has the "range lost a corner"
/// wildcard by the wildcard itself — unless that sub-tree is a valid reference (then it is left
/// alone and the trees differ). Afterwards `expected == actual` is the verdict.
pub fn absorb_wildcards(expected: &mut Node, actual: &mut Node) {
    if is_broken(expected) {
        let valid = matches!(actual, Node::ReferenceKind { .. } | Node::RangeKind { .. });
        if !valid {
            *actual = broken();
        }
        return;
    }
    let e = children_mut(expected);
    let a = children_mut(actual);
    if e.len() != a.len() {
        return;
    }
    for (x, y) in e.into_iter().zip(a) {
        absorb_wildcards(x, y);
    }
}

// ---------------------------------------------------------------------------------------------
// 3. dependency analysis
// ---------------------------------------------------------------------------------------------

#[derive(Clone, Copy, Debug, PartialEq, Eq)]
pub struct Area {
    pub sheet: u32,
    pub r1: i32,
    pub c1: i32,
    pub r2: i32,
    pub c2: i32,
}

impl Area {
    pub fn intersects(&self, o: &Area) -> bool {
        self.sheet == o.sheet && self.r1 <= o.r2 && o.r1 <= self.r2 && self.c1 <= o.c2 && o.c1 <= self.c2
    }
    /// Does the area contain a cell of the band `[at, at+n)` of `e`?
    pub fn meets_band(&self, e: &Edit) -> bool {
        if self.sheet != e.sheet {
            return false;
        }
        let (i1, i2) = match e.axis {
            Axis::Rows => (self.r1, self.r2),
            Axis::Cols => (self.c1, self.c2),
        };
        i1 < e.at + e.n && i2 >= e.at
    }
}

#[derive(Clone, Debug)]
pub struct FormulaInfo {
    pub sheet: u32,
    pub row: i32,
    pub col: i32,
    /// areas read through reference leaves and defined names (existing sheets only)
    pub reads: Vec<Area>,
    pub uses_name: bool,
    /// (width, height) of the area a dynamic-array formula occupies
    pub dynamic: Option<(i32, i32)>,
    pub cse: Option<(i32, i32)>,
    pub value: TV,
}

impl FormulaInfo {
    pub fn occupied(&self) -> Area {
        let (w, h) = self.dynamic.or(self.cse).unwrap_or((1, 1));
        Area { sheet: self.sheet, r1: self.row, c1: self.col, r2: self.row + h - 1, c2: self.col + w - 1 }
    }
}

pub fn formula_infos(model: &Model, names: &[NameSpec]) -> Vec<FormulaInfo> {
    let mut out = vec![];
    for (si, ws) in model.workbook.worksheets.iter().enumerate() {
        let mut keys: Vec<(i32, i32)> = ws.sheet_data.iter().flat_map(|(r, rd)| rd.keys().map(move |c| (*r, *c))).collect();
        keys.sort();
        for (row, col) in keys {
            let cell = &ws.sheet_data[&row][&col];
            let Some(f) = cell.get_formula() else { continue };
            let Some((node, _)) = model.parsed_formulas.get(si).and_then(|v| v.get(f as usize)) else { continue };
            let mut reads: Vec<Area> = nodes::ref_leaves(node, row, col)
                .into_iter()
                .filter_map(|l| l.sheet.map(|s| Area { sheet: s, r1: l.row1, c1: l.col1, r2: l.row2, c2: l.col2 }))
                .collect();
            let mut uses_name = false;
            walk(node, &mut |n| {
                if let Node::DefinedNameKind((name, _, _)) = n {
                    uses_name = true;
                    if let Some(ns) = names.iter().find(|ns| ns.name.eq_ignore_ascii_case(name)) {
                        reads.push(ns.area());
                    }
                }
            });
            let (dynamic, cse) = match cell {
                Cell::ArrayFormula { r, kind: ArrayKind::Dynamic, .. } => (Some(*r), None),
                Cell::ArrayFormula { r, kind: ArrayKind::Cse, .. } => (None, Some(*r)),
                _ => (None, None),
            };
            out.push(FormulaInfo { sheet: si as u32, row, col, reads, uses_name, dynamic, cse, value: cell_value(model, si as u32, row, col) });
        }
    }
    out
}

/// Which formulas have a value the statements do not talk about:
///  * formulas on or reaching a reference cycle (evaluation-order dependent);
///  * (deletion) formulas that read a cell of the deleted band, dynamic arrays whose area meets
///    the band (they re-spill into cells that moved closer);
///  * formulas that read a non-anchor cell of a dynamic array (the array re-spills from its
///    anchor, its cells do not move with the grid; and a reader can be evaluated before the
///    array has spilled — evaluation-order dependent, a listed finding of C01/C31);
///  * (insertion) formulas with a leaf that is pushed off the grid;
///  * everything that reads one of those, transitively.
pub fn unstable(infos: &[FormulaInfo], e: &Edit) -> Vec<bool> {
    let n = infos.len();
    // spill cells of dynamic arrays (old coordinates), as areas without their anchor cell: a
    // reader of such a cell can be evaluated before the array spills (evaluation-order dependent,
    // listed under C01/C31), and the array re-spills from its anchor instead of moving with the grid
    let mut soft: Vec<(Area, (i32, i32))> = vec![];
    for f in infos {
        if f.dynamic.is_some() {
            let mut a = f.occupied();
            if e.kind == Kind::Insert {
                // a range the array reads may grow by n, and so may its spill area
                match e.axis {
                    Axis::Rows => a.r2 += e.n,
                    Axis::Cols => a.c2 += e.n,
                }
            }
            soft.push((a, (f.row, f.col)));
            // deletion: an array anchored before the band whose area meets the band re-spills
            // over cells that moved up/left; in old coordinates those are the cells n further on
            if e.kind == Kind::Delete && a.meets_band(e) && e.along(f.row, f.col) < e.at {
                let mut b = a;
                match e.axis {
                    Axis::Rows => {
                        b.r1 = e.at + e.n;
                        b.r2 = a.r2 + e.n;
                    }
                    Axis::Cols => {
                        b.c1 = e.at + e.n;
                        b.c2 = a.c2 + e.n;
                    }
                }
                soft.push((b, (f.row, f.col)));
            }
        }
    }
    let reads_soft = |f: &FormulaInfo| {
        f.reads.iter().any(|r| {
            soft.iter().any(|(a, anchor)| {
                if !r.intersects(a) {
                    return false;
                }
                // reading only the anchor cell is reading a formula cell, not a spill cell
                !(r.r1 == r.r2 && r.c1 == r.c2 && (r.r1, r.c1) == *anchor)
            })
        })
    };
    let mut seed = vec![false; n];
    for (i, f) in infos.iter().enumerate() {
        if reads_soft(f) {
            seed[i] = true;
        }
        if e.kind == Kind::Insert {
            // a leaf pushed off the grid becomes #REF!
            let last = e.axis.last();
            if f.reads.iter().any(|r| {
                let (i1, i2) = match e.axis {
                    Axis::Rows => (r.r1, r.r2),
                    Axis::Cols => (r.c1, r.c2),
                };
                r.sheet == e.sheet && i2 >= e.at && i2 + e.n > last && !(i1 == 1 && i2 == last)
            }) {
                seed[i] = true;
            }
        }
        if e.kind == Kind::Delete {
            if f.reads.iter().any(|r| r.meets_band(e)) {
                seed[i] = true;
            }
            if f.dynamic.is_some() && f.occupied().meets_band(e) {
                seed[i] = true;
            }
        }
    }
    // edges i -> j: i reads (a cell occupied by) j
    let mut reach = vec![vec![false; n]; n];
    for i in 0..n {
        for j in 0..n {
            let occ = infos[j].occupied();
            if infos[i].reads.iter().any(|r| r.intersects(&occ)) {
                reach[i][j] = true;
            }
        }
    }
    for k in 0..n {
        for i in 0..n {
            if reach[i][k] {
                for j in 0..n {
                    if reach[k][j] {
                        reach[i][j] = true;
                    }
                }
            }
        }
    }
    let mut bad = vec![false; n];
    for i in 0..n {
        if seed[i] || reach[i][i] {
            bad[i] = true;
        }
    }
    let mut out = bad.clone();
    for i in 0..n {
        for j in 0..n {
            if reach[i][j] && bad[j] {
                out[i] = true;
            }
        }
    }
    out
}

// ---------------------------------------------------------------------------------------------
// 4. workbook description, generator, builder
// ---------------------------------------------------------------------------------------------

pub const SHEET_NAMES: [&str; 3] = ["Sheet1", "Data 2", "Über"];

fn quoted_sheet(i: usize) -> &'static str {
    ["Sheet1", "'Data 2'", "Über"][i % 3]
}

#[derive(Clone, Debug, Default, PartialEq, Serialize, Deserialize)]
pub enum LinkSpec {
    /// whatever typing the input produced (URL-like text gets a link automatically)
    #[default]
    Keep,
    External,
    Internal,
    /// remove the link typing produced
    Remove,
}

#[derive(Clone, Debug, Serialize, Deserialize)]
pub struct CellSpec {
    pub row: i32,
    pub col: i32,
    /// text typed into the cell (English formulas; the display language is switched afterwards)
    pub input: String,
    /// entered as a CSE array formula of (width, height)
    #[serde(default, skip_serializing_if = "Option::is_none")]
    pub cse: Option<(i32, i32)>,
    /// formula whose value does not depend on blank cells inside the ranges it reads
    #[serde(default)]
    pub stable: bool,
    /// palette index of an explicit style
    #[serde(default, skip_serializing_if = "Option::is_none")]
    pub style: Option<u8>,
    #[serde(default)]
    pub link: LinkSpec,
}

#[derive(Clone, Debug, Serialize, Deserialize)]
pub struct RowSpec {
    pub r: i32,
    #[serde(default)]
    pub height: Option<f64>,
    #[serde(default)]
    pub hidden: bool,
    #[serde(default)]
    pub style: Option<u8>,
}

#[derive(Clone, Debug, Serialize, Deserialize)]
pub struct ColSpec {
    pub min: i32,
    pub max: i32,
    /// pixels
    #[serde(default)]
    pub width: Option<f64>,
    #[serde(default)]
    pub hidden: bool,
    #[serde(default)]
    pub style: Option<u8>,
}

#[derive(Clone, Debug, Default, Serialize, Deserialize)]
pub struct SheetSpec {
    pub cells: Vec<CellSpec>,
    #[serde(default)]
    pub rows: Vec<RowSpec>,
    /// written directly into `worksheet.cols` (sorted, disjoint), as imported files have them
    #[serde(default)]
    pub cols: Vec<ColSpec>,
}

#[derive(Clone, Debug, Serialize, Deserialize)]
pub struct NameSpec {
    pub name: String,
    pub sheet: u8,
    pub r1: i32,
    pub c1: i32,
    pub r2: i32,
    pub c2: i32,
}

impl NameSpec {
    pub fn area(&self) -> Area {
        Area { sheet: self.sheet as u32, r1: self.r1, c1: self.c1, r2: self.r2, c2: self.c2 }
    }
    pub fn formula(&self) -> String {
        let s = quoted_sheet(self.sheet as usize);
        if (self.r1, self.c1) == (self.r2, self.c2) {
            format!("{s}!${}${}", col_name(self.c1), self.r1)
        } else {
            format!("{s}!${}${}:${}${}", col_name(self.c1), self.r1, col_name(self.c2), self.r2)
        }
    }
}

#[derive(Clone, Debug, Serialize, Deserialize)]
pub struct Book {
    pub locale: String,
    pub language: String,
    /// 1..=3 sheets, named SHEET_NAMES[i]
    pub sheets: Vec<SheetSpec>,
    #[serde(default)]
    pub names: Vec<NameSpec>,
}

pub fn col_name(c: i32) -> String {
    ironcalc_base::expressions::utils::number_to_column(c).unwrap_or_else(|| format!("<col {c}>"))
}

pub const PALETTE: u8 = 6;

pub fn palette(i: u8) -> Style {
    let mut s = Style::default();
    match i % PALETTE {
        0 => s.font.b = true,
        1 => s.fill = Fill { color: Color::from_param("#FFEE11").unwrap_or_default() },
        2 => s.num_fmt = "0.00".to_string(),
        3 => {
            s.font.i = true;
            s.font.sz = 14;
        }
        4 => s.num_fmt = "#,##0".to_string(),
        _ => {
            s.font.u = true;
            s.fill = Fill { color: Color::from_param("#11AAFF").unwrap_or_default() };
        }
    }
    s
}

pub fn looks_like_url(s: &str) -> bool {
    let l = s.to_lowercase();
    l.starts_with("http://") || l.starts_with("https://") || l.starts_with("mailto:") || l.starts_with("www.") || (l.contains('@') && l.contains('.'))
}

fn significant_digits(s: &str) -> Option<usize> {
    // plain decimal numbers only
    let t = s.trim().trim_start_matches(['+', '-']);
    let mantissa = t.split(['e', 'E']).next().unwrap_or("");
    if mantissa.is_empty() || !mantissa.chars().all(|c| c.is_ascii_digit() || c == '.') || mantissa.matches('.').count() > 1 {
        return None;
    }
    let digits: String = mantissa.chars().filter(|c| c.is_ascii_digit()).collect();
    let digits = digits.trim_start_matches('0');
    let digits = if mantissa.contains('.') { digits.trim_end_matches('0') } else { digits };
    Some(digits.len())
}

/// Input classes that do not survive being re-typed from their display text (the known root
/// cause behind `actions.rs::move_cell`): decided from the *input*, not from the outcome.
pub fn sensitive_class(c: &CellSpec) -> Option<&'static str> {
    if c.cse.is_some() {
        return Some("cse-array");
    }
    if let Some(rest) = c.input.strip_prefix('\'') {
        let harmless = !rest.is_empty()
            && rest.chars().all(|ch| ch.is_ascii_alphabetic() || ch == ' ')
            && !rest.starts_with(' ')
            && !rest.ends_with(' ')
            && !["true", "false"].contains(&rest.to_lowercase().as_str());
        if !harmless {
            return Some("quote-prefixed-text");
        }
        return None;
    }
    if !c.input.starts_with('=') {
        if let Some(d) = significant_digits(&c.input) {
            if d > 15 {
                return Some("number-beyond-15-digits");
            }
        }
        if looks_like_url(&c.input) {
            return Some("url-text");
        }
    }
    None
}

/// Class of a cell as observed in a model (used in signatures).
pub fn observed_class(o: &Obs) -> String {
    match o.kind {
        "text" => {
            if o.style.quote_prefix {
                "quote-prefixed-text".to_string()
            } else if looks_like_url(&o.content) {
                "url-text".to_string()
            } else {
                "text".to_string()
            }
        }
        "number" => {
            if let TV::Num(v) = o.value {
                let short = format!("{:.14e}", v);
                if short.parse::<f64>().ok() != Some(v) {
                    return "number-beyond-15-digits".to_string();
                }
            }
            "number".to_string()
        }
        k => k.to_string(),
    }
}

/// Input class for labels.
pub fn input_class(c: &CellSpec) -> &'static str {
    if let Some(s) = sensitive_class(c) {
        return s;
    }
    let t = c.input.as_str();
    if t.is_empty() {
        "blank"
    } else if t.starts_with('=') {
        if c.stable {
            "formula-aggregate"
        } else {
            "formula"
        }
    } else if t.starts_with('\'') {
        "quote-prefixed-harmless"
    } else if looks_like_url(t) {
        "url"
    } else if t.parse::<f64>().is_ok() {
        "number"
    } else if t.ends_with('%') || t.starts_with('$') || t.contains(':') || (t.contains('-') && t.chars().next().map(|c| c.is_ascii_digit()).unwrap_or(false)) || t.contains(',') {
        "formatted-number"
    } else if ["TRUE", "FALSE"].contains(&t.to_uppercase().as_str()) {
        "boolean"
    } else if t.starts_with('#') {
        "error"
    } else {
        "text"
    }
}

pub struct Built {
    pub model: Model<'static>,
    /// cells of the description that the engine refused (e.g. inside an existing array)
    pub refused: usize,
}

/// Builds the workbook through the public API (cells, styles, links, names, row attributes) and
/// by writing column descriptors directly. `keep` filters cells (exclusion by construction).
pub fn build(book: &Book, keep: &dyn Fn(&CellSpec) -> bool) -> Result<Built, String> {
    let mut model = Model::new_empty("book", "en", "UTC", "en")?;
    for i in 1..book.sheets.len().min(3) {
        model.add_sheet(SHEET_NAMES[i])?;
    }
    for n in &book.names {
        if (n.sheet as usize) < book.sheets.len() {
            model.new_defined_name(&n.name, None, &n.formula())?;
        }
    }
    let mut index_of = vec![0i32; PALETTE as usize];
    for i in 0..PALETTE {
        let st = palette(i);
        let styles = &mut model.workbook.styles;
        index_of[i as usize] = match styles.get_style_index(&st) {
            Some(ix) => ix,
            None => styles.create_new_style(&st),
        };
    }
    let mut refused = 0;
    for (si, sh) in book.sheets.iter().enumerate().take(3) {
        let s = si as u32;
        for c in &sh.cells {
            if !keep(c) {
                continue;
            }
            if let Some(p) = c.style {
                model.set_cell_style(s, c.row, c.col, &palette(p))?;
            }
            let r = match c.cse {
                Some((w, h)) => model.set_user_array_formula(s, c.row, c.col, w, h, &c.input),
                None => model.set_user_input(s, c.row, c.col, c.input.clone()),
            };
            if r.is_err() {
                refused += 1;
                continue;
            }
            match c.link {
                LinkSpec::Keep => {}
                LinkSpec::External => model.set_cell_link(s, c.row, c.col, Link::External { target: "https://target.example/page".into(), tooltip: Some("tip".into()) })?,
                LinkSpec::Internal => model.set_cell_link(s, c.row, c.col, Link::Internal { location: "Sheet1!A3".into(), tooltip: None })?,
                LinkSpec::Remove => model.delete_cell_link(s, c.row, c.col)?,
            }
        }
        for r in &sh.rows {
            if let Some(h) = r.height {
                model.set_row_height(s, r.r, h)?;
            }
            if let Some(p) = r.style {
                model.set_row_style(s, r.r, &palette(p))?;
            }
            if r.hidden {
                model.set_row_hidden(s, r.r, true)?;
            }
        }
        if !sh.cols.is_empty() {
            let ws = &mut model.workbook.worksheets[si];
            ws.cols.clear();
            let mut last = 0;
            for d in &sh.cols {
                if d.min <= last || d.max < d.min || d.max > LAST_COLUMN {
                    return Err(format!("column descriptors not sorted/disjoint: {:?}", sh.cols));
                }
                last = d.max;
                ws.cols.push(Col {
                    min: d.min,
                    max: d.max,
                    width: d.width.unwrap_or(90.0) / COLUMN_WIDTH_FACTOR,
                    custom_width: d.width.is_some(),
                    hidden: d.hidden,
                    style: d.style.map(|p| index_of[(p % PALETTE) as usize]),
                });
            }
        }
    }
    if book.locale != "en" {
        model.set_locale(crate::engine::ops::leak(&book.locale))?;
    }
    if book.language != "en" {
        model.set_language(crate::engine::ops::leak(&book.language))?;
    }
    model.evaluate();
    Ok(Built { model, refused })
}

// ----- generators -----

#[derive(Clone, Copy, Debug)]
pub struct GenCfg {
    /// rows/columns of the window cells and references live in
    pub rows: i32,
    pub cols: i32,
    /// weight (out of 100) of references / cells at the last rows and columns of the grid
    pub edge_refs: u32,
    pub edge_cells: u32,
    /// generate row and column descriptors on (almost) every sheet
    pub descriptors: bool,
}

impl Default for GenCfg {
    fn default() -> Self {
        GenCfg { rows: 10, cols: 7, edge_refs: 3, edge_cells: 1, descriptors: false }
    }
}

fn row_idx(cfg: GenCfg, edge: u32) -> BoxedStrategy<i32> {
    prop_oneof![
        (100 - edge) => 1..=cfg.rows,
        edge => (LAST_ROW - 2)..=LAST_ROW,
    ]
    .boxed()
}

fn col_idx(cfg: GenCfg, edge: u32) -> BoxedStrategy<i32> {
    prop_oneof![
        (100 - edge) => 1..=cfg.cols,
        edge => (LAST_COLUMN - 2)..=LAST_COLUMN,
    ]
    .boxed()
}

fn sheet_prefix() -> impl Strategy<Value = String> {
    prop_oneof![
        12 => Just(String::new()),
        2 => Just("Sheet1!".to_string()),
        3 => Just("'Data 2'!".to_string()),
        2 => Just("Über!".to_string()),
    ]
}

fn a1(row: i32, col: i32, flags: u8) -> String {
    format!("{}{}{}{}", if flags & 1 == 1 { "$" } else { "" }, col_name(col), if flags & 2 == 2 { "$" } else { "" }, row)
}

fn cell_ref(cfg: GenCfg) -> impl Strategy<Value = String> {
    (sheet_prefix(), row_idx(cfg, cfg.edge_refs), col_idx(cfg, cfg.edge_refs), 0..4u8).prop_map(|(p, r, c, f)| format!("{p}{}", a1(r, c, f)))
}

fn range_ref(cfg: GenCfg) -> impl Strategy<Value = String> {
    (
        sheet_prefix(),
        row_idx(cfg, cfg.edge_refs),
        col_idx(cfg, cfg.edge_refs),
        prop_oneof![6 => 0..=3i32, 1 => 4..=7i32],
        0..=2i32,
        0..4u8,
        0..4u8,
    )
        .prop_map(|(p, r, c, h, w, f1, f2)| {
            let r2 = (r + h).min(LAST_ROW);
            let c2 = (c + w).min(LAST_COLUMN);
            format!("{p}{}:{}", a1(r, c, f1), a1(r2, c2, f2))
        })
}

/// Whole-column / whole-row ranges (only ever used inside SUM: other aggregates walk the whole
/// grid cell by cell — a cost guard, not a semantic restriction).
fn whole_ref(cfg: GenCfg) -> impl Strategy<Value = String> {
    (sheet_prefix(), 1..=cfg.cols, 0..=1i32, 1..=cfg.rows, any::<bool>(), any::<bool>()).prop_map(|(p, c, w, r, columns, abs)| {
        let d = if abs { "$" } else { "" };
        if columns {
            format!("{p}{d}{}:{d}{}", col_name(c), col_name(c + w))
        } else {
            format!("{p}{d}{r}:{d}{}", r + w)
        }
    })
}

/// (formula text, blank-insensitive aggregate?) — all position-independent, non-volatile.
fn formula(cfg: GenCfg) -> BoxedStrategy<(String, bool)> {
    let r = move || cell_ref(cfg);
    let g = move || range_ref(cfg);
    prop_oneof![
        5 => (r(), -5..20i32).prop_map(|(a, n)| (format!("={a}+{n}"), false)),
        3 => (r(), r()).prop_map(|(a, b)| (format!("={a}*{b}"), false)),
        6 => (g(), prop_oneof![Just("SUM"), Just("SUM"), Just("COUNT"), Just("COUNTA"), Just("MAX"), Just("MIN"), Just("AVERAGE"), Just("PRODUCT")])
            .prop_map(|(a, f)| (format!("={f}({a})"), true)),
        2 => (g(), g()).prop_map(|(a, b)| (format!("=SUM({a},{b})"), true)),
        2 => whole_ref(cfg).prop_map(|a| (format!("=SUM({a})"), true)),
        2 => (r(), r()).prop_map(|(a, b)| (format!("=IF({a}>0,{b},\"neg\")"), false)),
        1 => (r(), r()).prop_map(|(a, b)| (format!("={a}&\"-\"&{b}"), false)),
        1 => (r(), r(), r()).prop_map(|(a, b, c)| (format!("={a}-({b}-{c})"), false)),
        1 => (g(), r()).prop_map(|(a, b)| (format!("=SUMIF({a},\">0\")+{b}"), true)),
        1 => r().prop_map(|a| (format!("=-{a}%"), false)),
        2 => prop_oneof![Just("=alpha+1"), Just("=SUM(bravo)"), Just("=alpha&\"x\""), Just("=COUNT(bravo)*2")].prop_map(|s| (s.to_string(), true)),
        1 => (1..=3i32, 1..=3i32).prop_map(|(h, w)| (format!("=SEQUENCE({h},{w})"), true)),
        1 => g().prop_map(|a| (format!("={a}*2"), false)),
        1 => Just(("={1,2;3,4}".to_string(), true)),
        1 => Just(("=1/0".to_string(), true)),
    ]
    .boxed()
}

/// Inputs that survive re-typing (or must), by shape.
fn robust_input() -> BoxedStrategy<String> {
    prop_oneof![
        6 => (-1000..1000i32).prop_map(|n| n.to_string()),
        3 => (-1000..1000i32, 1..100u32).prop_map(|(n, d)| format!("{n}.{d:02}")),
        1 => prop_oneof![Just("123456789012345"), Just("0.000123456789012"), Just("1e23"), Just("1.5E-7"), Just("007")].prop_map(|s| s.to_string()),
        4 => "[a-z]{1,6}".prop_map(|s| s),
        2 => prop_oneof![Just("Hello World"), Just("ñandú €"), Just("line1\nline2"), Just(" padded "), Just("a,b;c"), Just("x=1")].prop_map(|s| s.to_string()),
        2 => prop_oneof![Just("TRUE"), Just("FALSE"), Just("true")].prop_map(|s| s.to_string()),
        1 => prop_oneof![Just("#N/A"), Just("#DIV/0!"), Just("#REF!"), Just("#VALUE!")].prop_map(|s| s.to_string()),
        2 => prop_oneof![Just("10%"), Just("$5.50"), Just("2024-03-01"), Just("12:30"), Just("1,234"), Just("-3%")].prop_map(|s| s.to_string()),
        2 => prop_oneof![Just("'hello"), Just("'Hello World"), Just("'abc")].prop_map(|s| s.to_string()),
        2 => prop_oneof![Just("https://example.com/x"), Just("a@b.co"), Just("www.example.org")].prop_map(|s| s.to_string()),
        1 => Just(String::new()),
    ]
    .boxed()
}

/// Inputs of the classes listed as findings (re-typing changes them).
fn sensitive_input() -> BoxedStrategy<String> {
    prop_oneof![
        Just("'123"), Just("'=1+1"), Just("'TRUE"), Just("'#N/A"), Just("'10%"), Just("'2024-03-01"), Just("''x"),
        Just("'https://a.example/x"), Just("0.1234567890123456789"), Just("123456789012345678"), Just("'+x"),
    ]
    .prop_map(|s| s.to_string())
    .boxed()
}

fn cell_spec(cfg: GenCfg) -> impl Strategy<Value = CellSpec> {
    let content = prop_oneof![
        45 => robust_input().prop_map(|t| (t, false, None)),
        45 => formula(cfg).prop_map(|(t, s)| (t, s, None)),
        6 => sensitive_input().prop_map(|t| (t, false, None)),
        2 => (formula(cfg), 1..=2i32, 1..=2i32).prop_map(|((t, s), w, h)| (t, s, Some((w, h)))),
    ];
    (
        row_idx(cfg, cfg.edge_cells),
        col_idx(cfg, cfg.edge_cells),
        content,
        prop_oneof![3 => Just(None), 1 => (0..PALETTE).prop_map(Some)],
        prop_oneof![16 => Just(LinkSpec::Keep), 2 => Just(LinkSpec::External), 1 => Just(LinkSpec::Internal), 1 => Just(LinkSpec::Remove)],
    )
        .prop_map(|(row, col, (input, stable, cse), style, link)| CellSpec { row, col, input, cse, stable, style, link })
}

fn row_specs(cfg: GenCfg) -> impl Strategy<Value = Vec<RowSpec>> {
    let n = if cfg.descriptors { 1..=4usize } else { 0..=2usize };
    prop::collection::vec(
        (
            1..=cfg.rows + 2,
            prop_oneof![Just(None), Just(Some(40.0)), Just(Some(12.5))],
            prop::bool::weighted(0.2),
            prop_oneof![1 => Just(None), 2 => (0..PALETTE).prop_map(Some)],
        )
            .prop_map(|(r, height, hidden, style)| RowSpec { r, height, hidden, style }),
        n,
    )
}

fn col_specs(cfg: GenCfg) -> impl Strategy<Value = Vec<ColSpec>> {
    let n = if cfg.descriptors { 1..=3usize } else { 0..=1usize };
    prop::collection::vec(
        (
            0..=3i32,
            prop_oneof![2 => Just(0i32), 3 => 1..=4i32],
            prop_oneof![Just(None), Just(Some(120.0)), Just(Some(45.0))],
            prop::bool::weighted(0.15),
            prop_oneof![1 => Just(None), 2 => (0..PALETTE).prop_map(Some)],
        ),
        n,
    )
    .prop_map(|v| {
        let mut out = vec![];
        let mut next = 1;
        for (gap, span, width, hidden, style) in v {
            let min = next + gap;
            let max = min + span;
            next = max + 1;
            out.push(ColSpec { min, max, width, hidden, style });
        }
        out
    })
}

fn sheet_spec(cfg: GenCfg, max_cells: usize) -> impl Strategy<Value = SheetSpec> {
    (prop::collection::vec(cell_spec(cfg), 1..=max_cells), row_specs(cfg), col_specs(cfg)).prop_map(|(cells, rows, cols)| SheetSpec { cells, rows, cols })
}

fn name_specs(cfg: GenCfg) -> impl Strategy<Value = Vec<NameSpec>> {
    (prop::bool::weighted(0.6), 0..3u8, 1..=cfg.rows, 1..=cfg.cols, 0..3u8, 1..=cfg.rows, 1..=cfg.cols, 0..=3i32, 0..=1i32).prop_map(
        |(on, s1, r1, c1, s2, r2, c2, h, w)| {
            if !on {
                return vec![];
            }
            vec![
                NameSpec { name: "alpha".into(), sheet: s1, r1, c1, r2: r1, c2: c1 },
                NameSpec { name: "bravo".into(), sheet: s2, r1: r2, c1: c2, r2: r2 + h, c2: c2 + w },
            ]
        },
    )
}

/// How the display language spells `#REF!` (asked from the engine once per language).
pub fn ref_literal(language: &str) -> String {
    use std::sync::{Mutex, OnceLock};
    static CACHE: OnceLock<Mutex<BTreeMap<String, String>>> = OnceLock::new();
    let cache = CACHE.get_or_init(|| Mutex::new(BTreeMap::new()));
    if let Some(v) = cache.lock().ok().and_then(|c| c.get(language).cloned()) {
        return v;
    }
    let v = (|| {
        let mut m = Model::new_empty("lit", "en", "UTC", "en").ok()?;
        m.set_user_input(0, 1, 1, "=#REF!".to_string()).ok()?;
        m.set_language(crate::engine::ops::leak(language)).ok()?;
        let c = m.get_localized_cell_content(0, 1, 1).ok()?;
        Some(c.trim_start_matches('=').to_string())
    })()
    .unwrap_or_else(|| "#REF!".to_string());
    if let Ok(mut c) = cache.lock() {
        c.insert(language.to_string(), v.clone());
    }
    v
}

pub fn config_strategy() -> impl Strategy<Value = (String, String)> {
    prop_oneof![
        16 => Just(("en", "en")),
        1 => Just(("en-GB", "en")),
        1 => Just(("de", "de")),
        1 => Just(("es", "es")),
        1 => Just(("fr", "fr")),
        1 => Just(("it", "it")),
        1 => Just(("de", "en")),
        1 => Just(("en", "es")),
    ]
    .prop_map(|(a, b)| (a.to_string(), b.to_string()))
}

pub fn book_strategy(cfg: GenCfg, max_cells: usize) -> impl Strategy<Value = Book> {
    (
        config_strategy(),
        prop_oneof![
            3 => prop::collection::vec(sheet_spec(cfg, max_cells), 1..=1),
            4 => (sheet_spec(cfg, max_cells), sheet_spec(cfg, max_cells / 2)).prop_map(|(a, b)| vec![a, b]),
            2 => (sheet_spec(cfg, max_cells), sheet_spec(cfg, max_cells / 2), sheet_spec(cfg, max_cells / 3)).prop_map(|(a, b, c)| vec![a, b, c]),
        ],
        name_specs(cfg),
    )
        .prop_map(|((locale, language), sheets, mut names)| {
            names.retain(|n| (n.sheet as usize) < sheets.len());
            Book { locale, language, sheets, names }
        })
}

/// (axis, position, count) of an edit inside / next to the window, occasionally far away.
pub fn edit_strategy(cfg: GenCfg) -> impl Strategy<Value = (Axis, i32, i32)> {
    prop_oneof![Just(Axis::Rows), Just(Axis::Cols)].prop_flat_map(move |axis| {
        let w = match axis {
            Axis::Rows => cfg.rows,
            Axis::Cols => cfg.cols,
        };
        (
            Just(axis),
            prop_oneof![
                2 => Just(1i32),
                20 => 1..=w + 2,
                1 => Just(axis.last() - 3),
                1 => Just(500i32),
            ],
            1..=3i32,
        )
    })
}

// ---------------------------------------------------------------------------------------------
// 5. comparison before --edit--> after
// ---------------------------------------------------------------------------------------------

#[derive(Clone, Debug)]
pub struct Obs {
    /// empty | number | text | boolean | error | formula | cse-array | spill
    pub kind: &'static str,
    pub content: String,
    pub value: TV,
    pub style: Style,
    pub link: Option<Link>,
    pub node: Option<Node>,
    /// (width, height) for array anchors
    pub extent: Option<(i32, i32)>,
    pub dynamic: bool,
}

pub fn observe(m: &Model, s: u32, r: i32, c: i32) -> Obs {
    let ws = &m.workbook.worksheets[s as usize];
    let cell = ws.cell(r, c);
    let (kind, extent, dynamic) = match cell {
        None | Some(Cell::EmptyCell { .. }) => ("empty", None, false),
        Some(Cell::BooleanCell { .. }) => ("boolean", None, false),
        Some(Cell::NumberCell { .. }) => ("number", None, false),
        Some(Cell::ErrorCell { .. }) => ("error", None, false),
        Some(Cell::SharedString { .. }) => ("text", None, false),
        Some(Cell::CellFormula { .. }) => ("formula", None, false),
        Some(Cell::ArrayFormula { r, kind: ArrayKind::Dynamic, .. }) => ("formula", Some(*r), true),
        Some(Cell::ArrayFormula { r, kind: ArrayKind::Cse, .. }) => ("cse-array", Some(*r), false),
        Some(Cell::SpillCell { .. }) => ("spill", None, false),
    };
    let node = cell
        .and_then(|c| c.get_formula())
        .and_then(|f| m.parsed_formulas.get(s as usize).and_then(|v| v.get(f as usize)))
        .map(|(n, _)| n.clone());
    Obs {
        kind,
        content: m.get_localized_cell_content(s, r, c).unwrap_or_else(|e| format!("<error {e}>")),
        value: cell_value(m, s, r, c),
        style: m.get_style_for_cell(s, r, c).unwrap_or_default(),
        link: ws.links.get(&(r, c)).cloned(),
        node,
        extent,
        dynamic,
    }
}

/// Is (r, c) a spill cell of a *dynamic* array (as opposed to a CSE array)?
fn is_dynamic_spill(m: &Model, s: u32, r: i32, c: i32) -> bool {
    let ws = &m.workbook.worksheets[s as usize];
    match ws.cell(r, c) {
        Some(Cell::SpillCell { a, .. }) => matches!(ws.cell(a.0, a.1), Some(Cell::ArrayFormula { kind: ArrayKind::Dynamic, .. }) | None),
        _ => false,
    }
}

/// A spill cell that lies outside the area its anchor occupies now (or whose anchor is gone).
pub fn is_stale_spill(m: &Model, s: u32, r: i32, c: i32) -> bool {
    let ws = &m.workbook.worksheets[s as usize];
    match ws.cell(r, c) {
        Some(Cell::SpillCell { a, .. }) => match ws.cell(a.0, a.1) {
            Some(Cell::ArrayFormula { r: (w, h), .. }) => !(r >= a.0 && r < a.0 + h && c >= a.1 && c < a.1 + w),
            _ => true,
        },
        _ => false,
    }
}

/// Linked cells whose link the edit is known to drop (listed finding "empty-cell-clears-link"):
/// a stored cell without content (styled blank, spill cell) lies exactly `n` before (insertion)
/// or after (deletion) a moved linked cell and is re-typed onto the linked cell's old position
/// before the links are displaced. Returns those cells.
pub fn shadowed_links(m: &Model, edits: &[Edit]) -> Vec<(u32, i32, i32)> {
    let mut out = vec![];
    for e in edits {
        let Some(ws) = m.workbook.worksheets.get(e.sheet as usize) else { continue };
        for &(r, c) in ws.links.keys() {
            if e.along(r, c) < e.at {
                continue;
            }
            for sign in [-1, 1] {
                if (sign < 0) != (e.kind == Kind::Insert) && edits.len() == 1 {
                    continue;
                }
                let (sr, sc) = match e.axis {
                    Axis::Rows => (r + sign * e.n, c),
                    Axis::Cols => (r, c + sign * e.n),
                };
                if e.along(sr, sc) < e.at {
                    continue;
                }
                if matches!(ws.cell(sr, sc), Some(Cell::EmptyCell { .. }) | Some(Cell::SpillCell { .. })) && !out.contains(&(e.sheet, r, c)) {
                    out.push((e.sheet, r, c));
                }
            }
        }
    }
    out.sort();
    out
}

/// Dynamic arrays on a sheet other than the edited one whose spill would shrink (they read a
/// range on the edited sheet that loses rows/columns): listed finding "stale spill cells".
pub fn shrinking_foreign_spills(infos: &[FormulaInfo], shrinking: &dyn Fn(&Area) -> bool, sheet: u32) -> bool {
    infos.iter().any(|f| f.dynamic.is_some() && f.sheet != sheet && f.reads.iter().any(|a| a.sheet == sheet && (a.r1, a.c1) != (a.r2, a.c2) && shrinking(a)))
}

#[derive(Clone, Debug)]
pub struct Mismatch {
    pub signature: String,
    pub detail: String,
}

#[derive(Clone, Debug, Default)]
pub struct CompareStats {
    pub cells_checked: usize,
    pub moved_cells: usize,
    pub moved_nonnumeric: usize,
    pub formulas_checked: usize,
    pub values_checked: usize,
    pub values_skipped: usize,
    pub fates: Vec<LeafFate>,
    /// (deletion) formulas that read a deleted cell / only cells beyond the band
    pub reads_deleted: usize,
    pub reads_beyond: usize,
    pub spill_blocked: bool,
    pub labels: BTreeSet<String>,
}

/// Positions worth looking at on every sheet: everything stored, every link, and a window that
/// covers styled rows/columns and the band.
fn positions(m: &Model, window: (i32, i32)) -> BTreeSet<(u32, i32, i32)> {
    let mut set = BTreeSet::new();
    for (si, ws) in m.workbook.worksheets.iter().enumerate() {
        let s = si as u32;
        for (r, rd) in &ws.sheet_data {
            for c in rd.keys() {
                set.insert((s, *r, *c));
            }
        }
        for (r, c) in ws.links.keys() {
            set.insert((s, *r, *c));
        }
        for r in 1..=window.0 {
            for c in 1..=window.1 {
                set.insert((s, r, c));
            }
        }
    }
    set
}

fn fmt_pos(s: u32, r: i32, c: i32) -> String {
    format!("{}!{}{}", SHEET_NAMES[s as usize % 3], col_name(c), r)
}

fn spill_values(m: &Model, s: u32, r: i32, c: i32, ext: (i32, i32)) -> Vec<TV> {
    let mut v = vec![];
    for dr in 0..ext.1 {
        for dc in 0..ext.0 {
            v.push(cell_value(m, s, r + dr, c + dc));
        }
    }
    v
}

/// C12 / C13 oracle. `prop` is the property id used as signature prefix; `stable_at` tells
/// whether the formula at an old position was generated as a blank-insensitive aggregate.
pub fn compare(
    prop: &str,
    before: &Model,
    after: &Model,
    e: &Edit,
    names: &[NameSpec],
    stable_at: &dyn Fn(u32, i32, i32) -> bool,
    window: (i32, i32),
) -> (Vec<Mismatch>, CompareStats) {
    let mut out: Vec<Mismatch> = vec![];
    let mut st = CompareStats::default();
    let axis = e.axis.name();

    let infos = formula_infos(before, names);
    let unstable_f = unstable(&infos, e);
    let info_at: BTreeMap<(u32, i32, i32), usize> = infos.iter().enumerate().map(|(i, f)| ((f.sheet, f.row, f.col), i)).collect();
    let spill_err = |m: &Model| {
        formula_infos(m, names).iter().any(|f| matches!(&f.value, TV::Err(x) if x == "#SPILL!"))
    };
    st.spill_blocked = spill_err(before) || spill_err(after);

    // texts that `set_user_input` would auto-link (re-typing them during a move creates links)
    let mut url_texts: Vec<String> = vec![];
    for &(s, r, c) in &positions(before, (0, 0)) {
        let o = observe(before, s, r, c);
        if o.kind == "text" && looks_like_url(o.content.trim_start_matches('\'')) {
            url_texts.push(o.content.trim_start_matches('\'').to_string());
        }
    }
    let auto_link = |l: &Option<Link>| match l {
        Some(Link::External { target, .. }) => url_texts.iter().any(|u| target.ends_with(u.as_str())),
        _ => false,
    };
    let language = after.get_language();

    let mut done: BTreeSet<(u32, i32, i32)> = BTreeSet::new();
    let mut pairs: Vec<((u32, i32, i32), (i32, i32))> = vec![];
    for &(s, r, c) in &positions(before, window) {
        match e.map_cell(s, r, c) {
            CellPos::At(nr, nc) => {
                if done.insert((s, nr, nc)) {
                    pairs.push(((s, r, c), (nr, nc)));
                }
            }
            CellPos::Deleted => {}
            CellPos::OffGrid => {
                let o = observe(before, s, r, c);
                if o.kind != "empty" || o.link.is_some() {
                    out.push(Mismatch {
                        signature: format!("{prop}:cell-pushed-off-the-grid:{axis}"),
                        detail: format!("{} held {:?} and the engine accepted: {}", fmt_pos(s, r, c), o.content, e.describe()),
                    });
                }
            }
        }
    }
    for &(s, r, c) in &positions(after, (0, 0)) {
        if is_stale_spill(after, s, r, c) && !is_stale_spill(before, s, r, c) {
            out.push(Mismatch {
                signature: format!("{prop}:stale-spill-cell:{}", if s == e.sheet { "edited-sheet" } else { "other-sheet" }),
                detail: format!(
                    "after {}: {} is a spill cell outside the area its array occupies now (value {})",
                    e.describe(),
                    fmt_pos(s, r, c),
                    cell_value(after, s, r, c).render(false)
                ),
            });
            break;
        }
    }
    for &(s, r, c) in &positions(after, (0, 0)) {
        if done.contains(&(s, r, c)) {
            continue;
        }
        match e.preimage(s, r, c) {
            Some((pr, pc)) => {
                done.insert((s, r, c));
                pairs.push(((s, pr, pc), (r, c)));
            }
            None => {
                // a cell of the inserted band: must be empty (spill cells of dynamic arrays that
                // re-spilled over the band are derived, not content)
                let o = observe(after, s, r, c);
                let derived = o.kind == "spill" && is_dynamic_spill(after, s, r, c);
                if !derived && (o.kind != "empty" || !o.content.is_empty() || o.link.is_some()) {
                    out.push(Mismatch {
                        signature: if o.kind == "empty" && auto_link(&o.link) {
                            format!("{prop}:retype:url-text")
                        } else {
                            format!("{prop}:new-band-not-empty:{}{}:{axis}", o.kind, if o.link.is_some() { "+link" } else { "" })
                        },
                        detail: format!(
                            "after {}: {} is in the new band but holds kind={} content={:?} link={:?}",
                            e.describe(),
                            fmt_pos(s, r, c),
                            o.kind,
                            o.content,
                            o.link
                        ),
                    });
                }
            }
        }
    }

    for ((s, r, c), (nr, nc)) in pairs {
        let a = observe(before, s, r, c);
        let b = observe(after, s, nr, nc);
        if a.kind == "spill" && is_dynamic_spill(before, s, r, c) {
            continue;
        }
        if a.kind == "empty" && b.kind == "spill" && is_dynamic_spill(after, s, nr, nc) {
            continue;
        }
        st.cells_checked += 1;
        let moved = (r, c) != (nr, nc);
        if moved && a.kind != "empty" {
            st.moved_cells += 1;
            if a.kind != "number" {
                st.moved_nonnumeric += 1;
            }
        }
        let class = observed_class(&a);
        let retype = ["quote-prefixed-text", "number-beyond-15-digits", "cse-array", "url-text"].contains(&class.as_str());
        let here = format!("{} -> {}", fmt_pos(s, r, c), fmt_pos(s, nr, nc));
        let sig = |aspect: &str| {
            if retype && (moved || class == "cse-array") && aspect != "style" {
                format!("{prop}:retype:{class}")
            } else {
                format!("{prop}:cell:{class}:{aspect}:{}:{axis}", if moved { "moved" } else { "fixed" })
            }
        };
        if a.kind != b.kind {
            out.push(Mismatch {
                signature: sig("kind"),
                detail: format!("after {}: {here}: content kind {} ({:?}) became {} ({:?})", e.describe(), a.kind, a.content, b.kind, b.content),
            });
            continue;
        }
        if a.style != b.style {
            out.push(Mismatch {
                signature: sig("style"),
                detail: format!(
                    "after {}: {here} ({:?}): style {} became {}",
                    e.describe(),
                    a.content,
                    crate::engine::snapshot::style_json(&a.style),
                    crate::engine::snapshot::style_json(&b.style)
                ),
            });
            continue;
        }
        if a.link != b.link {
            // an empty stored cell (styled blank, reset spill cell) that is moved onto the old
            // position of this cell before the links are displaced
            let (pr, pc) = match e.axis {
                Axis::Rows => (r - e.n, c),
                Axis::Cols => (r, c - e.n),
            };
            let shadow = match e.kind {
                Kind::Insert => (pr, pc),
                Kind::Delete => (2 * r - pr, 2 * c - pc),
            };
            let clearer = moved
                && a.link.is_some()
                && b.link.is_none()
                && matches!(before.workbook.worksheets[s as usize].cell(shadow.0, shadow.1), Some(Cell::EmptyCell { .. }) | Some(Cell::SpillCell { .. }))
                && e.moves(s, shadow.0, shadow.1);
            out.push(Mismatch {
                signature: if auto_link(&b.link) {
                    format!("{prop}:retype:url-text")
                } else if clearer {
                    format!("{prop}:retype:empty-cell-clears-link")
                } else {
                    sig("link")
                },
                detail: format!("after {}: {here} ({:?}): link {:?} became {:?}", e.describe(), a.content, a.link, b.link),
            });
            continue;
        }
        if a.kind == "spill" {
            // spill cell of a CSE array: derived from its anchor
            continue;
        }
        if a.node.is_none() {
            if a.content != b.content {
                out.push(Mismatch {
                    signature: sig("content"),
                    detail: format!("after {}: {here}: content {:?} became {:?}", e.describe(), a.content, b.content),
                });
            } else if a.value != b.value {
                out.push(Mismatch {
                    signature: sig("value"),
                    detail: format!("after {}: {here} ({:?}): value {} became {}", e.describe(), a.content, a.value.render(false), b.value.render(false)),
                });
            }
            continue;
        }
        // formulas: every reference leaf points at π(target)
        st.formulas_checked += 1;
        let old = a.node.as_ref().unwrap();
        let (mut exp, fates) = expected_node(old, (r, c), (nr, nc), e);
        let mut act = b.node.clone().unwrap_or(Node::EmptyArgKind);
        absorb_wildcards(&mut exp, &mut act);
        let host = if moved { "host-moved" } else { "host-fixed" };
        let lost_range = fates.iter().any(|f| f.is_range && !f.kept);
        if lost_range && matches!(act, Node::ParseErrorKind { .. }) && ref_literal(&language) != "#REF!" && b.content.contains("#REF!") {
            // the lost corner is spelled with the English error literal although the display
            // language has its own: the text can never parse in this language
            out.push(Mismatch {
                signature: format!("{prop}:ref-error-literal-not-localized"),
                detail: format!(
                    "after {}: {here}: formula {:?} became {:?}: the lost reference is spelled #REF!, the language {language:?} spells it {:?}",
                    e.describe(),
                    a.content,
                    b.content,
                    ref_literal(&language)
                ),
            });
            st.fates.extend(fates);
            continue;
        }
        if lost_range && matches!(act, Node::ParseErrorKind { .. }) {
            // the printed remains of a range that lost a corner need not parse (`$A1:#REF!`):
            // "is no longer a valid reference" holds, nothing else is asserted
            st.labels.insert("range-lost-corner:formula-no-longer-parses".into());
            st.fates.extend(fates);
            continue;
        }
        if exp != act {
            // find the leaf that differs
            let el = nodes::ref_leaves(&exp, nr, nc);
            let al = nodes::ref_leaves(&act, nr, nc);
            let mut culprit: Option<&LeafFate> = None;
            if el.len() == al.len() {
                let mut k = 0;
                for f in &fates {
                    if f.kept {
                        if el.get(k) != al.get(k) {
                            culprit = Some(f);
                            break;
                        }
                        k += 1;
                    }
                }
            }
            if culprit.is_none() {
                culprit = fates.iter().find(|f| !f.kept);
            }
            let what = match culprit {
                Some(f) if e.kind == Kind::Insert && e.axis == Axis::Rows && f.relation == "pushed-off" => "row-pushed-off-grid".to_string(),
                Some(f) => format!("{}:{}", if f.is_range { "range" } else { "cell" }, f.relation),
                None => "structure".to_string(),
            };
            let literal = language != "en" && culprit.map(|f| !f.kept).unwrap_or(false) && b.content.contains("#REF!");
            out.push(Mismatch {
                signature: if literal {
                    format!("{prop}:ref-error-literal-not-localized")
                } else if what == "row-pushed-off-grid" {
                    format!("{prop}:reference:{what}")
                } else {
                    format!("{prop}:reference:{what}:{host}:{axis}")
                },
                detail: format!(
                    "after {}: {here}: formula {:?} became {:?}; the references should be those of {:?} re-targeted by the position map.\nexpected tree: {:?}\nactual tree:   {:?}",
                    e.describe(),
                    a.content,
                    b.content,
                    a.content,
                    exp,
                    act
                ),
            });
            st.fates.extend(fates);
            continue;
        }
        if a.extent.is_some() != b.extent.is_some() {
            // (dynamic arrays only: CSE arrays differ in kind)
        }
        // value clause
        let idx = info_at.get(&(s, r, c)).copied();
        let tainted = idx.map(|i| unstable_f[i]).unwrap_or(true);
        let resized = fates.iter().any(|f| f.resized);
        let lost = fates.iter().any(|f| !f.kept);
        if e.kind == Kind::Delete {
            if let Some(i) = idx {
                if infos[i].reads.iter().any(|x| x.meets_band(e)) {
                    st.reads_deleted += 1;
                } else if infos[i].reads.iter().any(|x| x.sheet == e.sheet && e.along(x.r1, x.c1) >= e.at + e.n) {
                    st.reads_beyond += 1;
                }
            }
        }
        let in_scope = !tainted && !lost && !st.spill_blocked && (!resized || stable_at(s, r, c));
        if in_scope {
            st.values_checked += 1;
            let (va, vb) = match (a.dynamic, a.extent, b.extent) {
                (true, Some(ea), Some(eb)) => {
                    if ea != eb {
                        out.push(Mismatch {
                            signature: format!("{prop}:value:spill-extent:{host}:{axis}"),
                            detail: format!("after {}: {here} ({:?}): spill extent {:?} became {:?}", e.describe(), a.content, ea, eb),
                        });
                        st.fates.extend(fates);
                        continue;
                    }
                    (spill_values(before, s, r, c, ea), spill_values(after, s, nr, nc, eb))
                }
                _ => (vec![a.value.clone()], vec![b.value.clone()]),
            };
            if va != vb {
                let uses_name = idx.map(|i| infos[i].uses_name).unwrap_or(false);
                let name_moved = names.iter().any(|n| {
                    let a = n.area();
                    a.sheet == e.sheet && e.along(a.r2, a.c2) >= e.at
                });
                let rels: BTreeSet<String> = fates.iter().map(|f| format!("{}:{}", if f.is_range { "range" } else { "cell" }, f.relation)).collect();
                out.push(Mismatch {
                    signature: if uses_name && name_moved {
                        format!("{prop}:defined-name-not-displaced")
                    } else {
                        format!("{prop}:value:{}:{host}:{axis}", rels.into_iter().collect::<Vec<_>>().join("+"))
                    },
                    detail: format!(
                        "after {}: {here}: formula {:?} (now {:?}) computed {} and now computes {}",
                        e.describe(),
                        a.content,
                        b.content,
                        va.iter().map(|v| v.render(false)).collect::<Vec<_>>().join(" | "),
                        vb.iter().map(|v| v.render(false)).collect::<Vec<_>>().join(" | ")
                    ),
                });
            }
        } else {
            st.values_skipped += 1;
            if e.kind == Kind::Delete && lost && !fates.iter().any(|f| f.is_range && !f.kept) {
                // a single-cell reference to a deleted cell is #REF!: so is the value, unless
                // the reference sits in a branch that is not evaluated
                st.labels.insert("single-cell-ref-to-deleted".into());
            }
        }
        st.fates.extend(fates);
    }
    (out, st)
}

/// Highest index holding a cell on `sheet` along `axis` (what the engine's own "would push
/// content off the grid" test looks at).
pub fn max_used(m: &Model, sheet: u32, axis: Axis) -> i32 {
    let ws = &m.workbook.worksheets[sheet as usize];
    let mut mx = 0;
    for (r, rd) in &ws.sheet_data {
        for c in rd.keys() {
            mx = mx.max(match axis {
                Axis::Rows => *r,
                Axis::Cols => *c,
            });
        }
    }
    mx
}

/// The workbook inside the API object that edits it.
pub enum Held {
    Plain(Model<'static>),
    User(UserModel<'static>),
}

impl Held {
    pub fn start(model: Model<'static>, user_api: bool) -> Held {
        if user_api {
            Held::User(UserModel::from_model(model))
        } else {
            Held::Plain(model)
        }
    }
    pub fn model(&self) -> &Model<'_> {
        match self {
            Held::Plain(m) => m,
            Held::User(um) => um.get_model(),
        }
    }
    pub fn delete_link(&mut self, s: u32, r: i32, c: i32) {
        match self {
            Held::Plain(m) => {
                let _ = m.delete_cell_link(s, r, c);
            }
            Held::User(um) => {
                let _ = um.delete_cell_link(s, r, c);
            }
        }
    }
}

pub enum Ran {
    Ok(Held),
    Refused(String),
    Panicked(panics::Panic),
}

/// Runs one edit through `Model` (followed by `evaluate` if asked) or through `UserModel`
/// (which evaluates by itself).
pub fn run_edit(held: Held, e: &Edit, evaluate: bool) -> Ran {
    let r = panics::catch(move || -> Result<Held, String> {
        match held {
            Held::User(mut um) => {
                e.apply_user(&mut um)?;
                Ok(Held::User(um))
            }
            Held::Plain(mut m) => {
                e.apply_model(&mut m)?;
                if evaluate {
                    m.evaluate();
                }
                Ok(Held::Plain(m))
            }
        }
    });
    match r {
        Err(p) => Ran::Panicked(p),
        Ok(Err(x)) => Ran::Refused(x),
        Ok(Ok(h)) => Ran::Ok(h),
    }
}

// ---------------------------------------------------------------------------------------------
// 6. the single-edit case shared by C12 (insertion) and C13 (deletion)
// ---------------------------------------------------------------------------------------------

/// Avoidance switches (keyed by `known_findings.json`), copied into every generated case so that
/// a case is a pure function of its JSON.
pub const SW_RETYPE: &str = "geom-retype-sensitive-content";
pub const SW_NAMES: &str = "geom-defined-names-not-displaced";
pub const SW_ROW_OFFGRID: &str = "geom-row-reference-pushed-off-grid";
pub const SW_LOCALIZED_REF: &str = "geom-ref-error-literal-not-localized";
pub const SW_CLEARS_LINK: &str = "geom-empty-cell-clears-link";
pub const SW_STALE_SPILL: &str = "geom-stale-spill-on-other-sheet";
pub const SW_CSE: &str = "geom-cse-array-rewritten-as-plain-formula";
/// listed under C07: of two dynamic arrays whose blocks overlap, which one spills depends on the
/// order in which they are evaluated
pub const SW_COMPETING: &str = "c07-competing-dynamic-anchors";
pub const SWITCHES: [&str; 8] = [SW_RETYPE, SW_NAMES, SW_ROW_OFFGRID, SW_LOCALIZED_REF, SW_CLEARS_LINK, SW_STALE_SPILL, SW_CSE, SW_COMPETING];

/// Some dynamic array of the workbook shows `#SPILL!` while another one exists on the same sheet:
/// the two may compete for cells.
pub fn blocked_anchor_next_to_another(model: &Model) -> bool {
    for (si, ws) in model.workbook.worksheets.iter().enumerate() {
        let mut anchors = 0;
        let mut blocked = false;
        for (r, rd) in &ws.sheet_data {
            for (c, cell) in rd {
                if let Cell::ArrayFormula { kind: ArrayKind::Dynamic, .. } = cell {
                    anchors += 1;
                    if matches!(cell_value(model, si as u32, *r, *c), TV::Err(k) if k == "#SPILL!") {
                        blocked = true;
                    }
                }
            }
        }
        if blocked && anchors >= 2 {
            return true;
        }
    }
    false
}

pub fn active_switches(avoid: &dyn Fn(&str) -> bool) -> Vec<String> {
    SWITCHES.iter().filter(|s| avoid(s)).map(|s| s.to_string()).collect()
}

#[derive(Clone, Debug, Serialize, Deserialize)]
pub struct EditCase {
    pub book: Book,
    /// `UserModel::insert_*/delete_*` instead of `Model::…` + `evaluate`
    pub user_api: bool,
    pub axis: Axis,
    /// sheet selector (modulo the number of sheets)
    pub sheet: u8,
    pub at: i32,
    pub n: i32,
    /// avoidance switches in force when the case was generated
    #[serde(default)]
    pub avoid: Vec<String>,
}

impl EditCase {
    pub fn edit(&self, kind: Kind) -> Edit {
        Edit { kind, axis: self.axis, sheet: self.sheet as u32 % self.book.sheets.len().clamp(1, 3) as u32, at: self.at, n: self.n }
    }
    pub fn avoids(&self, sw: &str) -> bool {
        self.avoid.iter().any(|s| s == sw)
    }
}

pub fn edit_case_strategy(cfg: GenCfg, max_cells: usize, avoid: Vec<String>) -> impl Strategy<Value = EditCase> {
    (book_strategy(cfg, max_cells), any::<bool>(), edit_strategy(cfg), 0..3u8).prop_map(move |(book, user_api, (axis, at, n), sheet)| EditCase {
        book,
        user_api,
        axis,
        sheet,
        at,
        n,
        avoid: avoid.clone(),
    })
}

/// Applies the avoidance switches of a case to its workbook description. Returns the filtered
/// book and the number of items steered away.
pub fn steer(book: &Book, avoid: &[String], edits: &[Edit]) -> (Book, u64) {
    let on = |sw: &str| avoid.iter().any(|s| s == sw);
    let mut b = book.clone();
    let mut excluded = 0u64;
    for sh in &mut b.sheets {
        let before = sh.cells.len();
        sh.cells.retain(|c| match sensitive_class(c) {
            None => true,
            Some("cse-array") => !on(SW_CSE),
            Some(_) => !on(SW_RETYPE),
        });
        excluded += (before - sh.cells.len()) as u64;
    }
    if on(SW_NAMES) {
        // a defined name whose target the edit moves
        let before = b.names.len();
        b.names.retain(|n| {
            !edits.iter().any(|e| {
                let a = n.area();
                a.sheet == e.sheet && e.along(a.r2, a.c2) >= e.at
            })
        });
        excluded += (before - b.names.len()) as u64;
    }
    (b, excluded)
}

pub struct EditRun {
    pub outcome: crate::engine::Outcome,
    pub stats: Option<CompareStats>,
    pub edit: Edit,
}

/// Builds the workbook twice (deterministically), edits one copy and compares.
pub fn check_single_edit(prop: &str, kind: Kind, case: &EditCase) -> EditRun {
    use crate::engine::Outcome;
    let edit = case.edit(kind);
    let mut o = Outcome::pass();
    let (book, excluded) = steer(&case.book, &case.avoid, &[edit]);
    o.excluded += excluded;
    let fail = |o: Outcome, sig: String, detail: String| EditRun { outcome: o.fail(sig, detail), stats: None, edit };
    let keep = |_: &CellSpec| true;
    let before = match panics::catch(|| build(&book, &keep)) {
        Ok(Ok(b)) => b,
        Ok(Err(e)) => return EditRun { outcome: o.label(format!("build-refused:{}", e.chars().take(40).collect::<String>())), stats: None, edit },
        Err(p) => return EditRun { outcome: o.label(format!("build-panicked:{}", p.class())), stats: None, edit },
    };
    let after = match panics::catch(|| build(&book, &keep)) {
        Ok(Ok(b)) => b,
        _ => return EditRun { outcome: o.label("build-not-repeatable"), stats: None, edit },
    };
    if before.refused > 0 {
        o = o.label("cells-refused-by-engine");
    }
    let mut before = before.model;
    let mut after = after;
    if case.avoids(SW_CLEARS_LINK) {
        for (s, r, c) in shadowed_links(&before, &[edit]) {
            let _ = before.delete_cell_link(s, r, c);
            let _ = after.model.delete_cell_link(s, r, c);
            o.excluded += 1;
        }
    }
    if case.avoids(SW_STALE_SPILL) {
        let infos = formula_infos(&before, &[]);
        let shrinks = |a: &Area| match kind {
            Kind::Delete => a.meets_band(&edit),
            Kind::Insert => {
                let i2 = match edit.axis {
                    Axis::Rows => a.r2,
                    Axis::Cols => a.c2,
                };
                let i1 = match edit.axis {
                    Axis::Rows => a.r1,
                    Axis::Cols => a.c1,
                };
                // pushed off the grid, or growing (the larger spill may be blocked)
                (i2 >= edit.at && i2 + edit.n > edit.axis.last()) || (i1 < edit.at && edit.at <= i2)
            }
        };
        if shrinking_foreign_spills(&infos, &shrinks, edit.sheet) {
            o.excluded += 1;
            return EditRun { outcome: o.label("steered:dynamic-array-on-other-sheet-would-resize"), stats: None, edit };
        }
    }
    // R-geom: the edit is permitted iff no stored cell is pushed off the grid
    let used = max_used(&before, edit.sheet, edit.axis);
    let pushes_content_off = kind == Kind::Insert && used + edit.n > edit.axis.last();
    let has_cse = formula_infos(&before, &book.names).iter().any(|f| f.cse.is_some());
    // a reference whose row is pushed off the grid (listed finding: printed as an invalid row)
    if case.avoids(SW_ROW_OFFGRID) && kind == Kind::Insert && edit.axis == Axis::Rows {
        let pushed = formula_infos(&before, &[]).iter().any(|f| {
            f.reads.iter().any(|a| a.sheet == edit.sheet && a.r2 >= edit.at && a.r2 + edit.n > LAST_ROW && !(a.r1 == 1 && a.r2 == LAST_ROW))
        });
        if pushed {
            o.excluded += 1;
            return EditRun { outcome: o.label("steered:row-reference-pushed-off-grid"), stats: None, edit };
        }
    }
    // a reference the edit turns into #REF! while the display language is not English (listed
    // finding: the literal is printed in English and does not parse back)
    if case.avoids(SW_LOCALIZED_REF) && book.language != "en" {
        let lost = formula_infos(&before, &[]).iter().any(|f| {
            f.reads.iter().any(|a| {
                if a.sheet != edit.sheet {
                    return false;
                }
                let (i1, i2) = match edit.axis {
                    Axis::Rows => (a.r1, a.r2),
                    Axis::Cols => (a.c1, a.c2),
                };
                match kind {
                    Kind::Delete => a.meets_band(&edit),
                    Kind::Insert => i2 >= edit.at && i2 + edit.n > edit.axis.last() && !(i1 == 1 && i2 == edit.axis.last()),
                }
            })
        });
        if lost {
            o.excluded += 1;
            return EditRun { outcome: o.label("steered:lost-reference-in-non-english-language"), stats: None, edit };
        }
    }
    let held = match run_edit(Held::start(after.model, case.user_api), &edit, true) {
        Ran::Ok(h) => h,
        Ran::Panicked(p) => {
            return fail(o, format!("{prop}:{}", p.class()), format!("{} panicked: {}", edit.describe(), p.describe()));
        }
        Ran::Refused(msg) => {
            if pushes_content_off {
                return EditRun { outcome: o.label("refused:content-at-grid-edge"), stats: None, edit };
            }
            if has_cse && msg.contains("array formula") {
                return EditRun { outcome: o.label("refused:would-split-array"), stats: None, edit };
            }
            return fail(
                o,
                format!("{prop}:permitted-edit-refused:{}", edit.axis.name()),
                format!("{} returned Err({msg}) although no stored cell is pushed off the grid (last used index {used})", edit.describe()),
            );
        }
    };
    let stable_at = |s: u32, r: i32, c: i32| {
        book.sheets.get(s as usize).map(|sh| sh.cells.iter().rev().find(|x| (x.row, x.col) == (r, c)).map(|x| x.stable).unwrap_or(false)).unwrap_or(false)
    };
    let (cell_mism, stats) = compare(prop, &before, held.model(), &edit, &book.names, &stable_at, (14, 11));
    // defined names: every reference keeps pointing at the same cell
    let mut mism = vec![];
    if kind == Kind::Insert {
        mism.extend(check_names(prop, held.model(), &book, &edit));
    }
    mism.extend(cell_mism);
    if let Some(m) = mism.into_iter().next() {
        o = o.fail(m.signature, m.detail);
    }
    EditRun { outcome: o, stats: Some(stats), edit }
}

/// Defined names are references too: after an insertion each name must name π(its area).
pub fn check_names(prop: &str, after: &Model, book: &Book, e: &Edit) -> Vec<Mismatch> {
    let mut out = vec![];
    let list = after.get_defined_name_list();
    for n in &book.names {
        let a = n.area();
        let (p1, p2) = (e.map_cell(a.sheet, a.r1, a.c1), e.map_cell(a.sheet, a.r2, a.c2));
        let (CellPos::At(r1, c1), CellPos::At(r2, c2)) = (p1, p2) else { continue };
        let expected = NameSpec { r1, c1, r2, c2, ..n.clone() }.formula();
        let Some((_, _, got)) = list.iter().find(|(name, _, _)| name.eq_ignore_ascii_case(&n.name)) else {
            out.push(Mismatch { signature: format!("{prop}:defined-name:lost"), detail: format!("defined name {} is gone after {}", n.name, e.describe()) });
            continue;
        };
        let norm = |s: &str| s.trim_start_matches('=').replace(' ', "").to_lowercase();
        if norm(got) != norm(&expected) {
            let moved = a.sheet == e.sheet && e.along(a.r2, a.c2) >= e.at;
            out.push(Mismatch {
                signature: if moved { format!("{prop}:defined-name-not-displaced") } else { format!("{prop}:defined-name:target-fixed:{}", e.axis.name()) },
                detail: format!("after {}: defined name {} = {:?}; it named {} and should now name {}", e.describe(), n.name, got, n.formula(), expected),
            });
        }
    }
    out
}
