//! Shared formula-tree generator (DESIGN.md 2.3 "Formula generator").
//!
//! * [`FTree`]: a formula *source* tree with explicit parenthesis nodes. It describes text, not
//!   meaning: the AST under test is always the one the engine's `Parser` produces from the text.
//! * [`print`]: text of a tree (without the leading `=`) for a language / locale pair: decimal
//!   separator, argument / array separators, boolean, error and function names are localised.
//! * [`parenthesize`]: inserts exactly the parentheses the engine grammar needs so that the text
//!   parses with the shape of the tree (used with some probability; otherwise precedence decides).
//! * [`tree_strategy`]: a proptest strategy bounded in depth and width; a [`Profile`] selects the
//!   node kinds, the function pool, the sheets, the names and the reference window.
//!
//! Everything here is deterministic and free of engine state; the only engine items used are the
//! language tables (names of functions, booleans and errors) and the locale's decimal separator.

use ironcalc_base::language::{get_language, Language};
use ironcalc_base::locale::{get_locale, Locale};
use proptest::prelude::*;
use serde::{Deserialize, Serialize};

#[derive(Clone, Copy, Debug, PartialEq, Eq, Hash, Serialize, Deserialize)]
pub enum BinOp {
    Range,
    Concat,
    Add,
    Sub,
    Mul,
    Div,
    Pow,
    Eq,
    Lt,
    Gt,
    Le,
    Ge,
    Ne,
}

pub const BIN_OPS: [BinOp; 13] = [
    BinOp::Range,
    BinOp::Concat,
    BinOp::Add,
    BinOp::Sub,
    BinOp::Mul,
    BinOp::Div,
    BinOp::Pow,
    BinOp::Eq,
    BinOp::Lt,
    BinOp::Gt,
    BinOp::Le,
    BinOp::Ge,
    BinOp::Ne,
];

impl BinOp {
    pub fn text(&self) -> &'static str {
        match self {
            BinOp::Range => ":",
            BinOp::Concat => "&",
            BinOp::Add => "+",
            BinOp::Sub => "-",
            BinOp::Mul => "*",
            BinOp::Div => "/",
            BinOp::Pow => "^",
            BinOp::Eq => "=",
            BinOp::Lt => "<",
            BinOp::Gt => ">",
            BinOp::Le => "<=",
            BinOp::Ge => ">=",
            BinOp::Ne => "<>",
        }
    }
    /// Precedence level in the engine grammar (higher binds tighter).
    pub fn prec(&self) -> u8 {
        match self {
            BinOp::Eq | BinOp::Lt | BinOp::Gt | BinOp::Le | BinOp::Ge | BinOp::Ne => 1,
            BinOp::Concat => 2,
            BinOp::Add | BinOp::Sub => 3,
            BinOp::Mul | BinOp::Div => 4,
            BinOp::Pow => 5,
            BinOp::Range => 7,
        }
    }
}

#[derive(Clone, Copy, Debug, PartialEq, Eq, Hash, Serialize, Deserialize)]
pub enum UnOp {
    /// prefix `-`
    Neg,
    /// prefix `+`
    Pos,
    /// postfix `%`
    Percent,
}

#[derive(Clone, Copy, Debug, PartialEq, Eq, Hash, Serialize, Deserialize)]
pub enum ErrLit {
    Ref,
    Name,
    Value,
    Div,
    Na,
    Num,
    Error,
    Nimpl,
    Spill,
    Calc,
    Circ,
    Null,
}

pub const ERR_LITS: [ErrLit; 12] = [
    ErrLit::Ref,
    ErrLit::Name,
    ErrLit::Value,
    ErrLit::Div,
    ErrLit::Na,
    ErrLit::Num,
    ErrLit::Error,
    ErrLit::Nimpl,
    ErrLit::Spill,
    ErrLit::Calc,
    ErrLit::Circ,
    ErrLit::Null,
];

impl ErrLit {
    pub fn text(&self, language: &Language) -> String {
        let e = &language.errors;
        match self {
            ErrLit::Ref => e.r#ref.clone(),
            ErrLit::Name => e.name.clone(),
            ErrLit::Value => e.value.clone(),
            ErrLit::Div => e.div.clone(),
            ErrLit::Na => e.na.clone(),
            ErrLit::Num => e.num.clone(),
            ErrLit::Error => e.error.clone(),
            ErrLit::Nimpl => e.nimpl.clone(),
            ErrLit::Spill => e.spill.clone(),
            ErrLit::Calc => e.calc.clone(),
            ErrLit::Circ => e.circ.clone(),
            ErrLit::Null => e.null.clone(),
        }
    }
}

/// One cell endpoint, 1-based.
#[derive(Clone, Copy, Debug, PartialEq, Eq, Hash, Serialize, Deserialize)]
pub struct CellRef {
    pub col: i32,
    pub row: i32,
    pub abs_col: bool,
    pub abs_row: bool,
}

/// Sheet prefix of a reference. `quoted` forces quotes even when the name does not need them.
#[derive(Clone, Debug, PartialEq, Eq, Hash, Serialize, Deserialize)]
pub struct SheetRef {
    pub name: String,
    pub quoted: bool,
}

#[derive(Clone, Debug, PartialEq, Serialize, Deserialize)]
pub enum FTree {
    /// non-negative number in "en" notation (`12`, `1.5`, `.5`, `1E+20`); the printer swaps the
    /// decimal separator
    Num(String),
    /// raw string content; the printer doubles `"`
    Str(String),
    Bool(bool),
    Err(ErrLit),
    Ref {
        sheet: Option<SheetRef>,
        cell: CellRef,
    },
    Range {
        sheet: Option<SheetRef>,
        a: CellRef,
        b: CellRef,
    },
    /// `B:D` (rows of the endpoints are ignored)
    ColRange {
        sheet: Option<SheetRef>,
        a: CellRef,
        b: CellRef,
    },
    /// `2:5` (columns of the endpoints are ignored)
    RowRange {
        sheet: Option<SheetRef>,
        a: CellRef,
        b: CellRef,
    },
    /// defined name, LET / LAMBDA variable or unknown identifier
    Name(String),
    /// rows of literal elements (Num, Str, Bool, Err, Un(Neg, Num))
    Array(Vec<Vec<FTree>>),
    /// English function name (or any identifier for calls of unknown / LET-bound functions)
    Func {
        name: String,
        args: Vec<FTree>,
    },
    /// `LAMBDA(p1,[p2],body)` optionally invoked at once: `LAMBDA(..)(args)`
    Lambda {
        params: Vec<(String, bool)>,
        body: Box<FTree>,
        call: Option<Vec<FTree>>,
    },
    /// empty function argument
    Empty,
    Bin(BinOp, Box<FTree>, Box<FTree>),
    Un(UnOp, Box<FTree>),
    /// `@x`
    At(Box<FTree>),
    /// `x#`
    Spill(Box<FTree>),
    Paren(Box<FTree>),
    /// one space before the subtree
    Ws(Box<FTree>),
}

#[allow(dead_code)]
impl FTree {
    pub fn num(n: u32) -> FTree {
        FTree::Num(n.to_string())
    }
    pub fn bin(op: BinOp, l: FTree, r: FTree) -> FTree {
        FTree::Bin(op, Box::new(l), Box::new(r))
    }
    pub fn un(op: UnOp, x: FTree) -> FTree {
        FTree::Un(op, Box::new(x))
    }
    pub fn paren(x: FTree) -> FTree {
        FTree::Paren(Box::new(x))
    }
    pub fn func(name: &str, args: Vec<FTree>) -> FTree {
        FTree::Func { name: name.to_string(), args }
    }
    pub fn cell(col: i32, row: i32) -> FTree {
        FTree::Ref { sheet: None, cell: CellRef { col, row, abs_col: false, abs_row: false } }
    }

    /// Short kind name (labels, signatures of the generator distribution).
    pub fn kind(&self) -> String {
        match self {
            FTree::Num(_) => "Num".into(),
            FTree::Str(_) => "Str".into(),
            FTree::Bool(_) => "Bool".into(),
            FTree::Err(_) => "Err".into(),
            FTree::Ref { sheet, .. } => if sheet.is_some() { "SheetRef".into() } else { "Ref".into() },
            FTree::Range { .. } => "Range".into(),
            FTree::ColRange { .. } => "ColRange".into(),
            FTree::RowRange { .. } => "RowRange".into(),
            FTree::Name(_) => "Name".into(),
            FTree::Array(_) => "Array".into(),
            FTree::Func { .. } => "Func".into(),
            FTree::Lambda { call, .. } => if call.is_some() { "LambdaCall".into() } else { "Lambda".into() },
            FTree::Empty => "Empty".into(),
            FTree::Bin(op, ..) => format!("Bin({})", op.text()),
            FTree::Un(UnOp::Neg, _) => "Neg".into(),
            FTree::Un(UnOp::Pos, _) => "Pos".into(),
            FTree::Un(UnOp::Percent, _) => "Percent".into(),
            FTree::At(_) => "At".into(),
            FTree::Spill(_) => "Spill".into(),
            FTree::Paren(_) => "Paren".into(),
            FTree::Ws(_) => "Ws".into(),
        }
    }

    /// Precedence level of the text this node prints (9 = primary).
    pub fn prec(&self) -> u8 {
        match self {
            FTree::Bin(op, ..) => op.prec(),
            FTree::Un(..) => 6,
            FTree::At(_) | FTree::Spill(_) => 8,
            FTree::Ws(x) => x.prec(),
            // an empty argument is only legal as a whole argument
            FTree::Empty => 0,
            _ => 9,
        }
    }

    pub fn children(&self) -> Vec<&FTree> {
        match self {
            FTree::Array(rows) => rows.iter().flatten().collect(),
            FTree::Func { args, .. } => args.iter().collect(),
            FTree::Lambda { body, call, .. } => {
                let mut v = vec![body.as_ref()];
                if let Some(c) = call {
                    v.extend(c.iter());
                }
                v
            }
            FTree::Bin(_, l, r) => vec![l, r],
            FTree::Un(_, x) | FTree::At(x) | FTree::Spill(x) | FTree::Paren(x) | FTree::Ws(x) => vec![x],
            _ => vec![],
        }
    }

    pub fn walk<'a>(&'a self, f: &mut dyn FnMut(&'a FTree)) {
        f(self);
        for c in self.children() {
            c.walk(f);
        }
    }

    pub fn size(&self) -> usize {
        let mut n = 0;
        self.walk(&mut |_| n += 1);
        n
    }

    pub fn depth(&self) -> usize {
        1 + self.children().iter().map(|c| c.depth()).max().unwrap_or(0)
    }

    /// Does the tree contain a full-row / full-column range?
    pub fn has_full_range(&self) -> bool {
        let mut b = false;
        self.walk(&mut |n| {
            if matches!(n, FTree::ColRange { .. } | FTree::RowRange { .. }) {
                b = true
            }
        });
        b
    }
}

// ------------------------------------------------------------------------------------------------
// printing

/// Does a sheet name have to be quoted when typed? (Deliberately conservative and independent of
/// the engine's `quote_name`: anything but a plain identifier that cannot be read as a cell
/// reference is quoted.)
pub fn sheet_needs_quotes(name: &str) -> bool {
    let mut chars = name.chars();
    let Some(first) = chars.next() else { return true };
    if !(first.is_alphabetic() || first == '_') {
        return true;
    }
    if !name.chars().all(|c| c.is_alphanumeric() || c == '_') {
        return true;
    }
    // looks like A1 / R1C1 / RC / R / C style references: letters then digits, or starts with R/C
    let letters: String = name.chars().take_while(|c| c.is_ascii_alphabetic()).collect();
    let rest = &name[letters.len()..];
    if !letters.is_empty() && letters.len() <= 3 && !rest.is_empty() && rest.chars().all(|c| c.is_ascii_digit()) {
        return true;
    }
    let up = name.to_uppercase();
    if up == "R" || up == "C" || up == "RC" || up == "TRUE" || up == "FALSE" {
        return true;
    }
    if (up.starts_with('R') || up.starts_with('C')) && up[1..].chars().all(|c| c.is_ascii_digit() || c == 'C' || c == 'R') {
        return true;
    }
    false
}

pub fn column_name(mut col: i32) -> String {
    let mut s = vec![];
    while col > 0 {
        let r = ((col - 1) % 26) as u8;
        s.push((b'A' + r) as char);
        col = (col - 1) / 26;
    }
    s.iter().rev().collect()
}

fn sheet_prefix(sheet: &Option<SheetRef>) -> String {
    match sheet {
        None => String::new(),
        Some(s) => {
            if s.quoted || sheet_needs_quotes(&s.name) {
                format!("'{}'!", s.name.replace('\'', "''"))
            } else {
                format!("{}!", s.name)
            }
        }
    }
}

fn cell_text(c: &CellRef, with_col: bool, with_row: bool) -> String {
    let mut s = String::new();
    if with_col {
        if c.abs_col {
            s.push('$');
        }
        s.push_str(&column_name(c.col));
    }
    if with_row {
        if c.abs_row {
            s.push('$');
        }
        s.push_str(&c.row.to_string());
    }
    s
}

/// Language / locale pair resolved once.
pub struct Style {
    pub language: &'static Language,
    pub locale: &'static Locale,
    pub decimal_comma: bool,
    en: &'static Language,
}

impl Style {
    pub fn new(language: &str, locale: &str) -> Result<Style, String> {
        let language = get_language(language)?;
        let locale = get_locale(locale)?;
        Ok(Style {
            language,
            locale,
            decimal_comma: locale.numbers.symbols.decimal != ".",
            en: get_language("en")?,
        })
    }
    pub fn arg_sep(&self) -> char {
        if self.decimal_comma { ';' } else { ',' }
    }
    pub fn array_row_sep(&self) -> char {
        if self.decimal_comma { '\\' } else { ';' }
    }
    /// Localised name of a function given by its English name; unknown names are kept.
    pub fn function_name(&self, english: &str) -> String {
        match self.en.functions.lookup(english) {
            Some(f) => f.to_localized_name(self.language),
            None => english.to_string(),
        }
    }
}

/// Text of the tree (without the leading `=`) in the given language / locale.
pub fn print(t: &FTree, style: &Style) -> String {
    let mut s = String::new();
    print_into(t, style, &mut s);
    s
}

/// Convenience: `print` with names of language and locale.
pub fn print_in(t: &FTree, language: &str, locale: &str) -> String {
    match Style::new(language, locale) {
        Ok(st) => print(t, &st),
        Err(e) => format!("<{e}>"),
    }
}

fn print_list(items: &[FTree], style: &Style, out: &mut String) {
    for (i, a) in items.iter().enumerate() {
        if i > 0 {
            out.push(style.arg_sep());
        }
        print_into(a, style, out);
    }
}

fn print_into(t: &FTree, style: &Style, out: &mut String) {
    match t {
        FTree::Num(n) => {
            if style.decimal_comma {
                out.push_str(&n.replace('.', &style.locale.numbers.symbols.decimal));
            } else {
                out.push_str(n);
            }
        }
        FTree::Str(s) => {
            out.push('"');
            out.push_str(&s.replace('"', "\"\""));
            out.push('"');
        }
        FTree::Bool(b) => out.push_str(if *b { &style.language.booleans.r#true } else { &style.language.booleans.r#false }),
        FTree::Err(e) => out.push_str(&e.text(style.language)),
        FTree::Ref { sheet, cell } => {
            out.push_str(&sheet_prefix(sheet));
            out.push_str(&cell_text(cell, true, true));
        }
        FTree::Range { sheet, a, b } => {
            out.push_str(&sheet_prefix(sheet));
            out.push_str(&cell_text(a, true, true));
            out.push(':');
            out.push_str(&cell_text(b, true, true));
        }
        FTree::ColRange { sheet, a, b } => {
            out.push_str(&sheet_prefix(sheet));
            out.push_str(&cell_text(a, true, false));
            out.push(':');
            out.push_str(&cell_text(b, true, false));
        }
        FTree::RowRange { sheet, a, b } => {
            out.push_str(&sheet_prefix(sheet));
            out.push_str(&cell_text(a, false, true));
            out.push(':');
            out.push_str(&cell_text(b, false, true));
        }
        FTree::Name(n) => out.push_str(n),
        FTree::Array(rows) => {
            out.push('{');
            for (i, row) in rows.iter().enumerate() {
                if i > 0 {
                    out.push(style.array_row_sep());
                }
                print_list(row, style, out);
            }
            out.push('}');
        }
        FTree::Func { name, args } => {
            out.push_str(&style.function_name(name));
            out.push('(');
            print_list(args, style, out);
            out.push(')');
        }
        FTree::Lambda { params, body, call } => {
            out.push_str(&style.function_name("LAMBDA"));
            out.push('(');
            for (p, optional) in params {
                if *optional {
                    out.push('[');
                    out.push_str(p);
                    out.push(']');
                } else {
                    out.push_str(p);
                }
                out.push(style.arg_sep());
            }
            print_into(body, style, out);
            out.push(')');
            if let Some(args) = call {
                out.push('(');
                print_list(args, style, out);
                out.push(')');
            }
        }
        FTree::Empty => {}
        FTree::Bin(op, l, r) => {
            print_into(l, style, out);
            out.push_str(op.text());
            print_into(r, style, out);
        }
        FTree::Un(UnOp::Neg, x) => {
            out.push('-');
            print_into(x, style, out);
        }
        FTree::Un(UnOp::Pos, x) => {
            out.push('+');
            print_into(x, style, out);
        }
        FTree::Un(UnOp::Percent, x) => {
            print_into(x, style, out);
            out.push('%');
        }
        FTree::At(x) => {
            out.push('@');
            print_into(x, style, out);
        }
        FTree::Spill(x) => {
            print_into(x, style, out);
            out.push('#');
        }
        FTree::Paren(x) => {
            out.push('(');
            print_into(x, style, out);
            out.push(')');
        }
        FTree::Ws(x) => {
            out.push(' ');
            print_into(x, style, out);
        }
    }
}

// ------------------------------------------------------------------------------------------------
// parentheses

fn wrap_if(x: FTree, need: bool) -> FTree {
    if need && !matches!(x, FTree::Paren(_)) {
        FTree::Paren(Box::new(x))
    } else {
        x
    }
}

/// Inserts the parentheses the engine grammar requires for the text to parse with the shape of
/// the tree:
///
/// ```text
/// expr(1) compare, concat(2) '&', term(3) '+' '-', factor(4) '*' '/', prod(5) '^' (all left
/// associative), power(6) = sign* range '%'*, range(7) = implicit (':' primary)?,
/// implicit(8) = '@' primary | primary '#', primary(9)
/// ```
pub fn parenthesize(t: &FTree) -> FTree {
    match t {
        FTree::Bin(op, l, r) => {
            let l = parenthesize(l);
            let r = parenthesize(r);
            let (lmin, rmin) = match op {
                BinOp::Range => (8, 9),
                _ => (op.prec(), op.prec() + 1),
            };
            let lneed = l.prec() < lmin;
            let rneed = r.prec() < rmin;
            FTree::Bin(*op, Box::new(wrap_if(l, lneed)), Box::new(wrap_if(r, rneed)))
        }
        FTree::Un(op, x) => {
            let x = parenthesize(x);
            let min = match op {
                UnOp::Neg | UnOp::Pos => 7,
                UnOp::Percent => 6,
            };
            // `-x%` is (-x)%: a percent operand under a sign needs parentheses (6 < 7): covered
            let need = x.prec() < min;
            FTree::Un(*op, Box::new(wrap_if(x, need)))
        }
        FTree::At(x) => {
            let x = parenthesize(x);
            let need = x.prec() < 9;
            FTree::At(Box::new(wrap_if(x, need)))
        }
        FTree::Spill(x) => {
            let x = parenthesize(x);
            let need = x.prec() < 9;
            FTree::Spill(Box::new(wrap_if(x, need)))
        }
        FTree::Paren(x) => FTree::Paren(Box::new(parenthesize(x))),
        FTree::Ws(x) => FTree::Ws(Box::new(parenthesize(x))),
        FTree::Func { name, args } => FTree::Func { name: name.clone(), args: args.iter().map(parenthesize).collect() },
        FTree::Lambda { params, body, call } => FTree::Lambda {
            params: params.clone(),
            body: Box::new(parenthesize(body)),
            call: call.as_ref().map(|c| c.iter().map(parenthesize).collect()),
        },
        other => other.clone(),
    }
}

/// Removes every parenthesis node.
#[allow(dead_code)]
pub fn strip_parens(t: &FTree) -> FTree {
    map_children(t, &|c| strip_parens(c), &|n| match n {
        FTree::Paren(x) => *x,
        o => o,
    })
}

/// Rebuilds a node from mapped children, then applies `post` to it.
pub fn map_children(t: &FTree, f: &dyn Fn(&FTree) -> FTree, post: &dyn Fn(FTree) -> FTree) -> FTree {
    let n = match t {
        FTree::Array(rows) => FTree::Array(rows.iter().map(|r| r.iter().map(f).collect()).collect()),
        FTree::Func { name, args } => FTree::Func { name: name.clone(), args: args.iter().map(f).collect() },
        FTree::Lambda { params, body, call } => FTree::Lambda {
            params: params.clone(),
            body: Box::new(f(body)),
            call: call.as_ref().map(|c| c.iter().map(f).collect()),
        },
        FTree::Bin(op, l, r) => FTree::Bin(*op, Box::new(f(l)), Box::new(f(r))),
        FTree::Un(op, x) => FTree::Un(*op, Box::new(f(x))),
        FTree::At(x) => FTree::At(Box::new(f(x))),
        FTree::Spill(x) => FTree::Spill(Box::new(f(x))),
        FTree::Paren(x) => FTree::Paren(Box::new(f(x))),
        FTree::Ws(x) => FTree::Ws(Box::new(f(x))),
        leaf => leaf.clone(),
    };
    post(n)
}

// ------------------------------------------------------------------------------------------------
// generation

/// Which node kinds, names and windows a strategy draws from.
#[derive(Clone, Debug)]
pub struct Profile {
    pub numbers: bool,
    pub strings: bool,
    pub booleans: bool,
    pub errors: bool,
    pub refs: bool,
    pub ranges: bool,
    /// full-column / full-row ranges
    pub full_ranges: bool,
    /// put full ranges only directly inside `SUM(..)` (cost guard: other consumers walk 1M rows)
    pub full_ranges_only_in_sum: bool,
    pub names: Vec<String>,
    pub arrays: bool,
    /// (English name, min args, max args)
    pub functions: Vec<(&'static str, usize, usize)>,
    pub empty_args: bool,
    pub lambdas: bool,
    pub let_: bool,
    pub binary: Vec<BinOp>,
    pub unary: Vec<UnOp>,
    pub at: bool,
    pub spill: bool,
    /// probability (0..=100) that a node gets a redundant pair of parentheses
    pub extra_parens_pct: u32,
    /// probability (0..=100) that a node is preceded by a space
    pub spaces_pct: u32,
    /// sheet prefixes to draw from (existing or not is the caller's business)
    pub sheets: Vec<String>,
    /// probability (0..=100) that a reference carries a sheet prefix
    pub sheet_pct: u32,
    pub max_col: i32,
    pub max_row: i32,
    /// a few references at the grid edge (XFD1048576)
    pub edge_refs: bool,
    /// weight of references among the leaves (numbers have 6, strings 2)
    pub ref_weight: u32,
}

/// Deterministic, non-volatile functions with their arities (none whose arguments are sizes, such
/// as SEQUENCE or REPT: generated numbers are arbitrary); a mixture of scalar, range, lookup,
/// text, logical and dynamic-array functions. Every name is looked up in the engine's English
/// table by the caller's health check.
pub const CORE_FUNCTIONS: [(&str, usize, usize); 34] = [
    ("SUM", 1, 3),
    ("MIN", 1, 3),
    ("MAX", 1, 2),
    ("AVERAGE", 1, 2),
    ("COUNT", 1, 2),
    ("ABS", 1, 1),
    ("INT", 1, 1),
    ("ROUND", 2, 2),
    ("MOD", 2, 2),
    ("POWER", 2, 2),
    ("SQRT", 1, 1),
    ("IF", 2, 3),
    ("IFERROR", 2, 2),
    ("AND", 1, 3),
    ("OR", 1, 2),
    ("NOT", 1, 1),
    ("TRUE", 0, 0),
    ("FALSE", 0, 0),
    ("PI", 0, 0),
    ("NA", 0, 0),
    ("N", 1, 1),
    ("T", 1, 1),
    ("LEN", 1, 1),
    ("LEFT", 1, 2),
    ("CONCATENATE", 1, 3),
    ("TEXT", 2, 2),
    ("VALUE", 1, 1),
    ("ISERROR", 1, 1),
    ("ISNUMBER", 1, 1),
    ("INDEX", 2, 3),
    ("CHOOSE", 2, 3),
    ("ROWS", 1, 1),
    ("SORT", 1, 1),
    ("XLOOKUP", 3, 4),
];

impl Profile {
    /// Everything ("all" profile of DESIGN.md, with the core function pool).
    pub fn all() -> Profile {
        Profile {
            numbers: true,
            strings: true,
            booleans: true,
            errors: true,
            refs: true,
            ranges: true,
            full_ranges: true,
            full_ranges_only_in_sum: true,
            names: ["x", "y", "MyName", "total_1", "r", "c", "rate.2"].iter().map(|s| s.to_string()).collect(),
            arrays: true,
            functions: CORE_FUNCTIONS.to_vec(),
            empty_args: true,
            lambdas: true,
            let_: true,
            binary: BIN_OPS.to_vec(),
            unary: vec![UnOp::Neg, UnOp::Pos, UnOp::Percent],
            at: true,
            spill: true,
            extra_parens_pct: 10,
            spaces_pct: 0,
            sheets: ["Sheet1", "Sheet2", "My Sheet", "It's", "Ghost"].iter().map(|s| s.to_string()).collect(),
            sheet_pct: 25,
            max_col: 4,
            max_row: 6,
            edge_refs: true,
            ref_weight: 6,
        }
    }

    /// Reference-rich formulas for C34: references of every shape joined by operators and calls.
    pub fn references() -> Profile {
        let mut p = Profile::all();
        p.strings = true;
        p.booleans = false;
        p.errors = false;
        p.arrays = false;
        p.lambdas = false;
        p.let_ = false;
        p.names = vec!["x".to_string()];
        p.functions = vec![("SUM", 1, 3), ("IF", 2, 3), ("INDEX", 2, 3), ("LOG10", 1, 1)];
        p.full_ranges_only_in_sum = false;
        p.at = true;
        p.spill = true;
        p.sheet_pct = 40;
        p.spaces_pct = 20;
        p.extra_parens_pct = 10;
        p.ref_weight = 30;
        p
    }
}

fn pct(p: u32) -> impl Strategy<Value = bool> {
    (0u32..100).prop_map(move |x| x < p)
}

pub fn cellref_strategy(p: &Profile) -> BoxedStrategy<CellRef> {
    let (mc, mr) = (p.max_col, p.max_row);
    let edge = p.edge_refs;
    (1..=mc, 1..=mr, any::<bool>(), any::<bool>(), 0u32..100)
        .prop_map(move |(col, row, abs_col, abs_row, e)| {
            if edge && e < 3 {
                CellRef { col: 16384, row: 1_048_576, abs_col, abs_row }
            } else {
                CellRef { col, row, abs_col, abs_row }
            }
        })
        .boxed()
}

pub fn sheet_strategy(p: &Profile) -> BoxedStrategy<Option<SheetRef>> {
    if p.sheets.is_empty() || p.sheet_pct == 0 {
        return Just(None).boxed();
    }
    let sheets = p.sheets.clone();
    (pct(p.sheet_pct), 0..sheets.len(), pct(15))
        .prop_map(move |(on, i, quoted)| if on { Some(SheetRef { name: sheets[i].clone(), quoted }) } else { None })
        .boxed()
}

fn number_strategy() -> BoxedStrategy<FTree> {
    prop_oneof![
        6 => (0u32..10).prop_map(|n| n.to_string()),
        2 => (0u32..1000, 1u32..100).prop_map(|(a, b)| format!("{a}.{b}")),
        1 => (1u32..100).prop_map(|b| format!(".{b}")),
        1 => (1u32..10, 0u32..30, any::<bool>()).prop_map(|(m, e, neg)| format!("{m}E{}{e}", if neg { "-" } else { "+" })),
        1 => Just("12345678901234567890".to_string()),
        1 => Just("0.1".to_string()),
        1 => Just("1e3".to_string()),
    ]
    .prop_map(FTree::Num)
    .boxed()
}

fn string_strategy() -> BoxedStrategy<FTree> {
    prop_oneof![
        3 => Just("a"),
        1 => Just(""),
        1 => Just("say \"hi\""),
        1 => Just("\""),
        1 => Just("a,b;c"),
        1 => Just("{1\\2}"),
        1 => Just("it's"),
        1 => Just("#REF!"),
        1 => Just("Sheet1!A1"),
        1 => Just(" x "),
        1 => Just("ñandú ß €"),
        1 => Just("1,5"),
    ]
    .prop_map(|s| FTree::Str(s.to_string()))
    .boxed()
}

fn literal_strategy() -> BoxedStrategy<FTree> {
    prop_oneof![
        4 => number_strategy(),
        1 => number_strategy().prop_map(|n| FTree::Un(UnOp::Neg, Box::new(n))),
        2 => string_strategy(),
        1 => any::<bool>().prop_map(FTree::Bool),
        1 => (0..ERR_LITS.len()).prop_map(|i| FTree::Err(ERR_LITS[i])),
    ]
    .boxed()
}

pub fn array_strategy() -> BoxedStrategy<FTree> {
    (1usize..=3, 1usize..=3)
        .prop_flat_map(|(rows, cols)| prop::collection::vec(prop::collection::vec(literal_strategy(), cols..=cols), rows..=rows))
        .prop_map(FTree::Array)
        .boxed()
}

/// References and ranges of every shape allowed by the profile (full ranges included only when
/// `full_ranges && !full_ranges_only_in_sum`).
pub fn reference_strategy(p: &Profile) -> BoxedStrategy<FTree> {
    let mut v: Vec<(u32, BoxedStrategy<FTree>)> = vec![];
    if p.refs {
        v.push((6, (sheet_strategy(p), cellref_strategy(p)).prop_map(|(sheet, cell)| FTree::Ref { sheet, cell }).boxed()));
    }
    if p.ranges {
        v.push((
            3,
            (sheet_strategy(p), cellref_strategy(p), cellref_strategy(p))
                .prop_map(|(sheet, a, b)| FTree::Range { sheet, a, b })
                .boxed(),
        ));
    }
    if p.full_ranges && !p.full_ranges_only_in_sum {
        v.push((1, full_range_strategy(p)));
    }
    if v.is_empty() {
        return Just(FTree::num(1)).boxed();
    }
    proptest::strategy::Union::new_weighted(v).boxed()
}

pub fn full_range_strategy(p: &Profile) -> BoxedStrategy<FTree> {
    (sheet_strategy(p), cellref_strategy(p), cellref_strategy(p), any::<bool>())
        .prop_map(|(sheet, a, b, col)| if col { FTree::ColRange { sheet, a, b } } else { FTree::RowRange { sheet, a, b } })
        .boxed()
}

fn leaf_strategy(p: &Profile) -> BoxedStrategy<FTree> {
    let mut v: Vec<(u32, BoxedStrategy<FTree>)> = vec![];
    if p.numbers {
        v.push((6, number_strategy()));
    }
    if p.strings {
        v.push((2, string_strategy()));
    }
    if p.booleans {
        v.push((1, any::<bool>().prop_map(FTree::Bool).boxed()));
    }
    if p.errors {
        v.push((1, (0..ERR_LITS.len()).prop_map(|i| FTree::Err(ERR_LITS[i])).boxed()));
    }
    if p.refs || p.ranges {
        v.push((p.ref_weight.max(1), reference_strategy(p)));
    }
    if !p.names.is_empty() {
        let names = p.names.clone();
        v.push((1, (0..names.len()).prop_map(move |i| FTree::Name(names[i].clone())).boxed()));
    }
    if p.arrays {
        v.push((1, array_strategy()));
    }
    let zero: Vec<&'static str> = p.functions.iter().filter(|f| f.1 == 0).map(|f| f.0).collect();
    if !zero.is_empty() {
        v.push((1, (0..zero.len()).prop_map(move |i| FTree::Func { name: zero[i].to_string(), args: vec![] }).boxed()));
    }
    if v.is_empty() {
        return Just(FTree::num(1)).boxed();
    }
    proptest::strategy::Union::new_weighted(v).boxed()
}

/// Strategy for formula trees: nesting depth at most `depth` operator / call levels above the
/// leaves, calls with at most `width` arguments (also bounded by the function's arity).
pub fn tree_strategy(p: &Profile, depth: u32, width: usize) -> BoxedStrategy<FTree> {
    let leaf = leaf_strategy(p);
    let p = p.clone();
    let size = 4u32.saturating_mul(depth).max(4);
    leaf.prop_recursive(depth, size, width.max(2) as u32, move |inner| {
        let mut v: Vec<(u32, BoxedStrategy<FTree>)> = vec![];
        if !p.binary.is_empty() {
            let ops = p.binary.clone();
            v.push((
                10,
                (0..ops.len(), inner.clone(), inner.clone())
                    .prop_map(move |(i, l, r)| FTree::Bin(ops[i], Box::new(l), Box::new(r)))
                    .boxed(),
            ));
        }
        if !p.unary.is_empty() {
            let ops = p.unary.clone();
            v.push((3, (0..ops.len(), inner.clone()).prop_map(move |(i, x)| FTree::Un(ops[i], Box::new(x))).boxed()));
        }
        if p.at {
            v.push((1, inner.clone().prop_map(|x| FTree::At(Box::new(x))).boxed()));
        }
        if p.spill {
            v.push((1, inner.clone().prop_map(|x| FTree::Spill(Box::new(x))).boxed()));
        }
        let funcs: Vec<(&'static str, usize, usize)> = p.functions.iter().filter(|f| f.2 > 0).cloned().collect();
        if !funcs.is_empty() {
            let empty = p.empty_args;
            let full = p.full_ranges && p.full_ranges_only_in_sum;
            let pp = p.clone();
            let arg = {
                let mut a: Vec<(u32, BoxedStrategy<FTree>)> = vec![(20, inner.clone().boxed())];
                if empty {
                    a.push((1, Just(FTree::Empty).boxed()));
                }
                proptest::strategy::Union::new_weighted(a).boxed()
            };
            v.push((
                5,
                (0..funcs.len(), prop::collection::vec(arg, 0..=width.max(1)), full_range_strategy(&pp), 0u32..100)
                    .prop_map(move |(i, mut args, fr, dice)| {
                        let (name, lo, hi) = funcs[i];
                        let hi = hi.min(width.max(lo));
                        while args.len() < lo {
                            args.push(FTree::num(1));
                        }
                        args.truncate(hi.max(lo));
                        if full && name == "SUM" && dice < 30 {
                            let k = (dice as usize) % args.len();
                            args[k] = fr;
                        }
                        FTree::Func { name: name.to_string(), args }
                    })
                    .boxed(),
            ));
        }
        if p.lambdas {
            v.push((
                1,
                (inner.clone(), inner.clone(), inner.clone(), any::<bool>(), pct(20), pct(30))
                    .prop_map(|(body, arg, arg2, call, optional, two)| {
                        // body mentions the parameter so that variable handling is exercised
                        let body = FTree::Bin(BinOp::Add, Box::new(FTree::Name("x".into())), Box::new(body));
                        let mut params = vec![("x".to_string(), false)];
                        if optional || two {
                            params.push(("y".to_string(), optional));
                        }
                        // a call with two arguments prints an argument separator after `)(`
                        let args = if two { vec![arg, arg2] } else { vec![arg] };
                        FTree::Lambda { params, body: Box::new(body), call: if call { Some(args) } else { None } }
                    })
                    .boxed(),
            ));
        }
        if p.let_ {
            v.push((
                1,
                (inner.clone(), inner.clone())
                    .prop_map(|(value, body)| {
                        let body = FTree::Bin(BinOp::Mul, Box::new(FTree::Name("y".into())), Box::new(body));
                        FTree::Func { name: "LET".into(), args: vec![FTree::Name("y".into()), value, body] }
                    })
                    .boxed(),
            ));
        }
        if v.is_empty() {
            return inner.boxed();
        }
        let extra = p.extra_parens_pct;
        let spaces = p.spaces_pct;
        (proptest::strategy::Union::new_weighted(v), pct(extra), pct(spaces))
            .prop_map(|(t, paren, ws)| {
                let t = if paren { FTree::Paren(Box::new(t)) } else { t };
                if ws { FTree::Ws(Box::new(t)) } else { t }
            })
            .boxed()
    })
    .boxed()
}

/// A source tree plus how to parenthesise it: `needed` inserts the grammar's parentheses so the
/// tree shape survives parsing; without it precedence decides what the text means.
pub fn source_strategy(p: &Profile, depth: u32, width: usize, needed_parens_pct: u32) -> BoxedStrategy<FTree> {
    (tree_strategy(p, depth, width), pct(needed_parens_pct))
        .prop_map(|(t, needed)| if needed { parenthesize(&t) } else { t })
        .boxed()
}

#[cfg(test)]
mod tests {
    use super::*;

    #[test]
    fn prints_and_parenthesizes() {
        let t = FTree::bin(BinOp::Add, FTree::bin(BinOp::Concat, FTree::num(1), FTree::num(2)), FTree::num(3));
        assert_eq!(print_in(&t, "en", "en"), "1&2+3");
        assert_eq!(print_in(&parenthesize(&t), "en", "en"), "(1&2)+3");
        let a = FTree::Array(vec![vec![FTree::Num("1.5".into()), FTree::num(2)], vec![FTree::num(3), FTree::num(4)]]);
        assert_eq!(print_in(&a, "en", "en"), "{1.5,2;3,4}");
        assert_eq!(print_in(&a, "de", "de"), "{1,5;2\\3;4}");
        assert_eq!(column_name(16384), "XFD");
    }
}
