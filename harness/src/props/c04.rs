//! C04 — A failed operation changes nothing.
//!
//! A generated history (restricted profile, with some undos so that the redo list is non-empty)
//! is followed by one operation whose arguments carry an `invalid:<reason>` tag. If the call
//! returns Err: snapshot, can_undo/can_redo and the stack lengths (hook H2) must equal their values
//! before the call, and one undo afterwards must land on the snapshot that preceded the last
//! successful recorded operation. If the call returns Ok the case is not a C04 case (label
//! `accepted`).

use proptest::prelude::*;
use serde::{Deserialize, Serialize};
use serde_json::Value;

use crate::engine::ops::{self, Applied, Op, Profile, A, LAST_COLUMN, LAST_ROW};
use crate::engine::snapshot::{self, SnapOpts, Snapshot};
use crate::engine::{Ctx, Outcome, Tier};

#[derive(Clone, Debug, Serialize, Deserialize)]
pub struct Bad {
    pub reason: String,
    /// operations that must succeed first (e.g. place an array formula)
    pub setup: Vec<Op>,
    pub op: Op,
}

#[derive(Clone, Debug, Serialize, Deserialize)]
pub struct Case {
    pub profile: Profile,
    pub prefix: Vec<Op>,
    pub bad: Bad,
}

fn a(s: u8, row: i32, col: i32, w: i32, h: i32) -> A {
    A { s, row, col, w, h }
}

fn inp(s: u8, row: i32, col: i32, t: &str) -> Op {
    Op::Input { s, row, col, text: t.to_string() }
}

/// The finite table of (reason, setup, invalid op). Every entry is an argument class named in the
/// property's quantifier.
pub fn table() -> Vec<Bad> {
    let mut t: Vec<Bad> = vec![];
    let mut add = |reason: &str, setup: Vec<Op>, op: Op| {
        t.push(Bad { reason: reason.to_string(), setup, op });
    };
    let ns = 200u8; // nonexistent sheet
    // ---- nonexistent sheet
    add("nonexistent-sheet", vec![], inp(ns, 1, 1, "1"));
    add("nonexistent-sheet", vec![], Op::ArrayFormula { s: ns, row: 1, col: 1, w: 2, h: 2, text: "=1".into() });
    add("nonexistent-sheet", vec![], Op::ClearContents(a(ns, 1, 1, 2, 2)));
    add("nonexistent-sheet", vec![], Op::ClearAll(a(ns, 1, 1, 2, 2)));
    add("nonexistent-sheet", vec![], Op::ClearFormatting(a(ns, 1, 1, 2, 2)));
    add("nonexistent-sheet", vec![], Op::UpdateStyle { a: a(ns, 1, 1, 2, 2), path: "font.b".into(), value: "true".into() });
    add("nonexistent-sheet", vec![], Op::Border { a: a(ns, 1, 1, 2, 2), kind: "All".into(), style: "thin".into(), color: "#FF0000".into() });
    add("nonexistent-sheet", vec![], Op::InsertRows { s: ns, row: 1, n: 1 });
    add("nonexistent-sheet", vec![], Op::InsertCols { s: ns, col: 1, n: 1 });
    add("nonexistent-sheet", vec![], Op::DeleteRows { s: ns, row: 1, n: 1 });
    add("nonexistent-sheet", vec![], Op::DeleteCols { s: ns, col: 1, n: 1 });
    add("nonexistent-sheet", vec![], Op::MoveRows { s: ns, row: 1, n: 1, delta: 1 });
    add("nonexistent-sheet", vec![], Op::MoveCols { s: ns, col: 1, n: 1, delta: 1 });
    add("nonexistent-sheet", vec![], Op::ColsWidth { s: ns, c1: 1, c2: 2, width: 50.0 });
    add("nonexistent-sheet", vec![], Op::RowsHeight { s: ns, r1: 1, r2: 2, height: 50.0 });
    add("nonexistent-sheet", vec![], Op::ColsHidden { s: ns, c1: 1, c2: 2, hidden: true });
    add("nonexistent-sheet", vec![], Op::RowsHidden { s: ns, r1: 1, r2: 2, hidden: true });
    add("nonexistent-sheet", vec![], Op::DeleteSheet(ns));
    add("nonexistent-sheet", vec![], Op::DuplicateSheet(ns));
    add("nonexistent-sheet", vec![], Op::RenameSheet(ns, "Fine".into()));
    add("nonexistent-sheet", vec![], Op::MoveSheet(ns, 0));
    add("nonexistent-sheet", vec![], Op::MoveSheet(0, ns));
    add("nonexistent-sheet", vec![], Op::HideSheet(ns));
    add("nonexistent-sheet", vec![], Op::UnhideSheet(ns));
    add("nonexistent-sheet", vec![], Op::SheetColor(ns, "#FF0000".into()));
    add("nonexistent-sheet", vec![], Op::FrozenRows(ns, 1));
    add("nonexistent-sheet", vec![], Op::FrozenCols(ns, 1));
    add("nonexistent-sheet", vec![], Op::GridLines(ns, false));
    add("nonexistent-sheet", vec![], Op::NameNew { name: "zz".into(), scope: Some(ns), formula: "Sheet1!$A$1".into() });
    add("nonexistent-sheet", vec![], Op::LinkSet { s: ns, row: 1, col: 1, link: ironcalc_base::types::Link::External { target: "https://a.b".into(), tooltip: None }, label: None });
    add("nonexistent-sheet", vec![], Op::LinkDelete { s: ns, row: 1, col: 1 });
    add("nonexistent-sheet", vec![], Op::CfDelete { s: ns, idx: 0 });
    add("nonexistent-sheet", vec![], Op::PasteCsv { a: a(ns, 1, 1, 1, 1), csv: "1\t2".into() });
    add("nonexistent-sheet", vec![], Op::AutofillRows { a: a(ns, 1, 1, 1, 1), to_row: 3 });
    add("nonexistent-sheet", vec![], Op::AutofillCols { a: a(ns, 1, 1, 1, 1), to_col: 3 });
    // ---- out-of-grid coordinates
    for (row, col, why) in [(0, 1, "row-0"), (-1, 1, "row-negative"), (LAST_ROW + 1, 1, "row-beyond-grid"), (1, 0, "column-0"), (1, -1, "column-negative"), (1, LAST_COLUMN + 1, "column-beyond-grid")] {
        add(&format!("out-of-grid:{why}"), vec![], inp(0, row, col, "1"));
        add(&format!("out-of-grid:{why}"), vec![], Op::ArrayFormula { s: 0, row, col, w: 1, h: 1, text: "=1".into() });
        add(&format!("out-of-grid:{why}"), vec![], Op::LinkSet { s: 0, row, col, link: ironcalc_base::types::Link::External { target: "https://a.b".into(), tooltip: None }, label: None });
        add(&format!("out-of-grid:{why}"), vec![], Op::ClearContents(a(0, row, col, 1, 1)));
        add(&format!("out-of-grid:{why}"), vec![], Op::ClearAll(a(0, row, col, 1, 1)));
        add(&format!("out-of-grid:{why}"), vec![], Op::UpdateStyle { a: a(0, row, col, 1, 1), path: "font.b".into(), value: "true".into() });
        add(&format!("out-of-grid:{why}"), vec![], Op::PasteCsv { a: a(0, row, col, 1, 1), csv: "1\t2".into() });
    }
    for (row, why) in [(0, "row-0"), (-1, "row-negative"), (LAST_ROW + 1, "row-beyond-grid")] {
        add(&format!("out-of-grid:{why}"), vec![], Op::InsertRows { s: 0, row, n: 1 });
        add(&format!("out-of-grid:{why}"), vec![], Op::DeleteRows { s: 0, row, n: 1 });
        add(&format!("out-of-grid:{why}"), vec![], Op::MoveRows { s: 0, row, n: 1, delta: 1 });
        add(&format!("out-of-grid:{why}"), vec![], Op::RowsHeight { s: 0, r1: row, r2: row, height: 30.0 });
        add(&format!("out-of-grid:{why}"), vec![], Op::RowsHidden { s: 0, r1: row, r2: row, hidden: true });
    }
    for (col, why) in [(0, "column-0"), (-1, "column-negative"), (LAST_COLUMN + 1, "column-beyond-grid")] {
        add(&format!("out-of-grid:{why}"), vec![], Op::InsertCols { s: 0, col, n: 1 });
        add(&format!("out-of-grid:{why}"), vec![], Op::DeleteCols { s: 0, col, n: 1 });
        add(&format!("out-of-grid:{why}"), vec![], Op::MoveCols { s: 0, col, n: 1, delta: 1 });
        add(&format!("out-of-grid:{why}"), vec![], Op::ColsWidth { s: 0, c1: col, c2: col, width: 30.0 });
        add(&format!("out-of-grid:{why}"), vec![], Op::ColsHidden { s: 0, c1: col, c2: col, hidden: true });
    }
    // ---- ranges crossing the last row / column
    add("range-crosses-last-column", vec![], Op::ColsWidth { s: 0, c1: LAST_COLUMN - 1, c2: LAST_COLUMN + 1, width: 30.0 });
    add("range-crosses-last-column", vec![], Op::ColsHidden { s: 0, c1: LAST_COLUMN - 1, c2: LAST_COLUMN + 1, hidden: true });
    add("range-crosses-last-row", vec![], Op::RowsHeight { s: 0, r1: LAST_ROW - 1, r2: LAST_ROW + 1, height: 30.0 });
    add("range-crosses-last-row", vec![], Op::RowsHidden { s: 0, r1: LAST_ROW - 1, r2: LAST_ROW + 1, hidden: true });
    add("range-crosses-last-row", vec![], Op::ClearContents(a(0, LAST_ROW - 1, 1, 1, 3)));
    add("range-crosses-last-column", vec![], Op::ClearAll(a(0, 1, LAST_COLUMN - 1, 3, 1)));
    add("range-crosses-last-row", vec![], Op::ArrayFormula { s: 0, row: LAST_ROW, col: 1, w: 1, h: 2, text: "=1".into() });
    add("range-crosses-last-column", vec![], Op::PasteCsv { a: a(0, 1, LAST_COLUMN, 1, 1), csv: "1\t2\t3".into() });
    add("range-crosses-last-row", vec![], Op::AutofillRows { a: a(0, 1, 1, 1, 1), to_row: LAST_ROW + 1 });
    add("range-crosses-last-column", vec![], Op::AutofillCols { a: a(0, 1, 1, 1, 1), to_col: LAST_COLUMN + 1 });
    add("range-crosses-last-row", vec![], Op::DeleteRows { s: 0, row: LAST_ROW, n: 2 });
    add("range-crosses-last-column", vec![], Op::DeleteCols { s: 0, col: LAST_COLUMN, n: 2 });
    add("range-crosses-last-row", vec![], Op::MoveRows { s: 0, row: LAST_ROW - 1, n: 1, delta: 3 });
    add("range-crosses-last-column", vec![], Op::MoveCols { s: 0, col: 2, n: 1, delta: -3 });
    // ---- negative or zero counts and sizes
    for n in [0, -1, -2] {
        add("count-not-positive", vec![], Op::InsertRows { s: 0, row: 2, n });
        add("count-not-positive", vec![], Op::InsertCols { s: 0, col: 2, n });
        add("count-not-positive", vec![], Op::DeleteRows { s: 0, row: 2, n });
        add("count-not-positive", vec![], Op::DeleteCols { s: 0, col: 2, n });
    }
    add("size-negative", vec![], Op::ColsWidth { s: 0, c1: 2, c2: 3, width: -5.0 });
    add("size-negative", vec![], Op::RowsHeight { s: 0, r1: 2, r2: 3, height: -1.0 });
    add("frozen-negative", vec![], Op::FrozenRows(0, -3));
    add("frozen-negative", vec![], Op::FrozenCols(0, -1));
    add("frozen-too-large", vec![], Op::FrozenRows(0, LAST_ROW));
    add("frozen-too-large", vec![], Op::FrozenCols(0, LAST_COLUMN + 5));
    add("area-not-positive", vec![], Op::AutofillRows { a: a(0, 1, 1, 0, 1), to_row: 5 });
    add("area-not-positive", vec![], Op::AutofillCols { a: a(0, 1, 1, 1, -1), to_col: 5 });
    // ---- invalid timezone / locale / colour / style path / style value
    add("invalid-timezone", vec![], Op::SetTimezone("Nowhere/Land".into()));
    add("invalid-timezone", vec![], Op::SetTimezone("".into()));
    add("invalid-locale", vec![], Op::SetLocale("xx".into()));
    add("invalid-locale", vec![], Op::SetLocale("EN".into()));
    add("invalid-colour", vec![], Op::SheetColorRaw(0, "#GGGGGG".into()));
    add("invalid-colour", vec![], Op::SheetColorRaw(0, "red".into()));
    add("invalid-colour", vec![], Op::UpdateStyle { a: a(0, 1, 1, 2, 2), path: "font.color".into(), value: "#12".into() });
    add("invalid-colour", vec![], Op::UpdateStyle { a: a(0, 1, 1, 2, 2), path: "fill.color".into(), value: "blue".into() });
    add("invalid-style-path", vec![], Op::UpdateStyle { a: a(0, 1, 1, 2, 2), path: "font.bogus".into(), value: "true".into() });
    add("invalid-style-path", vec![], Op::UpdateStyle { a: a(0, 1, 1, 2, 2), path: "".into(), value: "".into() });
    add("invalid-style-value", vec![], Op::UpdateStyle { a: a(0, 1, 1, 2, 2), path: "font.b".into(), value: "maybe".into() });
    add("invalid-style-value", vec![], Op::UpdateStyle { a: a(0, 1, 1, 2, 2), path: "font.size".into(), value: "0".into() });
    add("invalid-style-value", vec![], Op::UpdateStyle { a: a(0, 1, 1, 2, 2), path: "font.size_delta".into(), value: "-100".into() });
    add("invalid-style-value", vec![], Op::UpdateStyle { a: a(0, 1, 1, 2, 2), path: "alignment.horizontal".into(), value: "middle".into() });
    add("invalid-style-value", vec![], Op::UpdateStyle { a: a(0, 1, 1, 2, 2), path: "alignment".into(), value: "x".into() });
    // whole-row / whole-column variants of a failing style update
    add("invalid-style-value", vec![], Op::UpdateStyle { a: a(0, 1, 2, 2, LAST_ROW), path: "font.size".into(), value: "0".into() });
    add("invalid-style-value", vec![], Op::UpdateStyle { a: a(0, 2, 1, LAST_COLUMN, 2), path: "font.b".into(), value: "maybe".into() });
    add("invalid-border", vec![], Op::Border { a: a(0, 1, 1, 2, 2), kind: "All".into(), style: "thin".into(), color: "#FF0000".into() }); // valid: accepted (control)
    // ---- duplicate or invalid sheet names
    add("invalid-sheet-name", vec![], Op::RenameSheet(0, "".into()));
    add("invalid-sheet-name", vec![], Op::RenameSheet(0, "a/b".into()));
    add("invalid-sheet-name", vec![], Op::RenameSheet(0, "x".repeat(40)));
    add("invalid-sheet-name", vec![], Op::RenameSheet(0, "[x]".into()));
    add("duplicate-sheet-name", vec![Op::NewSheet], Op::RenameSheet(0, "Sheet2".into()));
    add("duplicate-sheet-name", vec![Op::NewSheet], Op::RenameSheet(0, "SHEET2".into()));
    // ---- duplicate or invalid defined names
    add("invalid-defined-name", vec![], Op::NameNew { name: "1abc".into(), scope: None, formula: "Sheet1!$A$1".into() });
    add("invalid-defined-name", vec![], Op::NameNew { name: "A1".into(), scope: None, formula: "Sheet1!$A$1".into() });
    add("invalid-defined-name", vec![], Op::NameNew { name: "has space".into(), scope: None, formula: "Sheet1!$A$1".into() });
    add("invalid-defined-name", vec![], Op::NameNew { name: "".into(), scope: None, formula: "Sheet1!$A$1".into() });
    add("invalid-defined-name-formula", vec![], Op::NameNew { name: "okname".into(), scope: None, formula: "=+".into() });
    add("duplicate-defined-name", vec![Op::NameNew { name: "dup".into(), scope: None, formula: "Sheet1!$A$1".into() }], Op::NameNew { name: "dup".into(), scope: None, formula: "Sheet1!$B$1".into() });
    add("duplicate-defined-name", vec![Op::NameNew { name: "dup".into(), scope: None, formula: "Sheet1!$A$1".into() }], Op::NameNew { name: "DUP".into(), scope: None, formula: "Sheet1!$B$1".into() });
    add("duplicate-defined-name", vec![Op::NameNew { name: "dup".into(), scope: None, formula: "Sheet1!$A$1".into() }, Op::NameNew { name: "dup2".into(), scope: None, formula: "Sheet1!$A$2".into() }],
        Op::NameUpdate { name: "dup2".into(), scope: None, new_name: "dup".into(), new_scope: None, formula: "Sheet1!$A$2".into() });
    add("unknown-defined-name", vec![], Op::NameDelete { name: "nosuch".into(), scope: None });
    add("unknown-defined-name", vec![], Op::NameUpdate { name: "nosuch".into(), scope: None, new_name: "x1x".into(), new_scope: None, formula: "Sheet1!$A$1".into() });
    add("invalid-defined-name", vec![Op::NameNew { name: "dup".into(), scope: None, formula: "Sheet1!$A$1".into() }],
        Op::NameUpdate { name: "dup".into(), scope: None, new_name: "1bad".into(), new_scope: None, formula: "Sheet1!$A$1".into() });
    // ---- named styles
    let st = Box::new(ironcalc_base::types::Style::default());
    add("duplicate-named-style", vec![Op::NamedStyleCreate { name: "S1".into(), style: st.clone(), num_only: false }], Op::NamedStyleCreate { name: "S1".into(), style: st.clone(), num_only: false });
    add("unknown-named-style", vec![], Op::NamedStyleDelete { name: "nosuch".into() });
    add("unknown-named-style", vec![], Op::NamedStyleUpdate { name: "nosuch".into(), new_name: "x".into(), style: st.clone(), num_only: false });
    add("unknown-named-style", vec![], Op::NamedStyleApply { name: "nosuch".into() });
    add("builtin-named-style", vec![], Op::NamedStyleDelete { name: "normal".into() });
    add("duplicate-named-style", vec![Op::NamedStyleCreate { name: "S1".into(), style: st.clone(), num_only: false }, Op::NamedStyleCreate { name: "S2".into(), style: st.clone(), num_only: false }],
        Op::NamedStyleUpdate { name: "S2".into(), new_name: "S1".into(), style: st.clone(), num_only: false });
    // the same failing rename, but with a new formatting and a cell that uses the style: a partial
    // edit would show in the named style and in the cell
    let mut st2 = ironcalc_base::types::Style::default();
    st2.font.b = true;
    st2.num_fmt = "0.00".into();
    let st2 = Box::new(st2);
    add("duplicate-named-style", vec![
            Op::NamedStyleCreate { name: "S1".into(), style: st.clone(), num_only: false },
            Op::NamedStyleCreate { name: "S2".into(), style: st.clone(), num_only: false },
            Op::SelectCell { row: 2, col: 2 },
            Op::NamedStyleApply { name: "S2".into() },
        ],
        Op::NamedStyleUpdate { name: "S2".into(), new_name: "S1".into(), style: st2.clone(), num_only: false });
    add("unknown-named-style", vec![], Op::NamedStyleUpdate { name: "nosuch".into(), new_name: "x".into(), style: st2.clone(), num_only: true });
    add("builtin-named-style", vec![], Op::NamedStyleUpdate { name: "normal".into(), new_name: "normal".into(), style: st2.clone(), num_only: false });
    // names spelled in another case, ASCII and non-ASCII: accepted or rejected, never half-done
    for (made, used) in [("Café", "CAFÉ"), ("Café", "café"), ("total", "TOTAL"), ("Größe", "GRÖSSE")] {
        add("defined-name-case-variant", vec![Op::NameNew { name: made.into(), scope: None, formula: "Sheet1!$A$1".into() }], Op::NameDelete { name: used.into(), scope: None });
        add("defined-name-case-variant", vec![Op::NameNew { name: made.into(), scope: None, formula: "Sheet1!$A$1".into() }],
            Op::NameUpdate { name: used.into(), scope: None, new_name: "renamed_x".into(), new_scope: None, formula: "Sheet1!$B$1".into() });
        add("defined-name-case-variant", vec![Op::NameNew { name: made.into(), scope: None, formula: "Sheet1!$A$1".into() }],
            Op::NameNew { name: used.into(), scope: None, formula: "Sheet1!$B$1".into() });
    }
    // ---- edits that would split an array formula (CSE array at B2:C3 of sheet 0)
    let arr = || vec![Op::ArrayFormula { s: 0, row: 2, col: 2, w: 2, h: 2, text: "=A1:B2+1".into() }];
    add("splits-array-formula", arr(), inp(0, 3, 3, "5"));
    add("splits-array-formula", arr(), Op::ClearContents(a(0, 3, 3, 1, 1)));
    add("splits-array-formula", arr(), Op::ClearAll(a(0, 2, 3, 1, 1)));
    add("splits-array-formula", arr(), Op::InsertRows { s: 0, row: 3, n: 1 });
    add("splits-array-formula", arr(), Op::InsertCols { s: 0, col: 3, n: 1 });
    add("splits-array-formula", arr(), Op::DeleteRows { s: 0, row: 3, n: 1 });
    add("splits-array-formula", arr(), Op::DeleteCols { s: 0, col: 2, n: 1 });
    add("splits-array-formula", arr(), Op::MoveRows { s: 0, row: 3, n: 1, delta: 2 });
    add("splits-array-formula", arr(), Op::MoveCols { s: 0, col: 2, n: 1, delta: -1 });
    add("splits-array-formula", arr(), Op::ArrayFormula { s: 0, row: 3, col: 3, w: 2, h: 2, text: "=1".into() });
    add("splits-array-formula", arr(), Op::PasteCsv { a: a(0, 3, 3, 1, 1), csv: "1\t2".into() });
    add("splits-array-formula", arr(), Op::AutofillRows { a: a(0, 1, 3, 1, 1), to_row: 2 });
    add("splits-array-formula", arr(), Op::AutofillCols { a: a(0, 3, 1, 1, 1), to_col: 2 });
    add("splits-array-formula", arr(), Op::CopyPaste { src: a(0, 5, 5, 1, 1), ts: 0, trow: 3, tcol: 3, cut: false });
    add("splits-array-formula", arr(), Op::CopyPaste { src: a(0, 3, 3, 1, 1), ts: 0, trow: 6, tcol: 6, cut: true });
    // ---- inserts that would push data off the grid
    add("pushes-data-off-grid", vec![inp(0, LAST_ROW, 2, "7")], Op::InsertRows { s: 0, row: 3, n: 1 });
    add("pushes-data-off-grid", vec![inp(0, 2, LAST_COLUMN, "7")], Op::InsertCols { s: 0, col: 3, n: 2 });
    add("pushes-data-off-grid", vec![inp(0, LAST_ROW - 1, 2, "7"), inp(0, 1, 1, "=SEQUENCE(2)")], Op::InsertRows { s: 0, row: 5, n: 2 });
    // ---- sheets
    add("delete-only-sheet", vec![], Op::DeleteSheet(0));
    // ---- conditional formats
    add("invalid-cf-range", vec![], Op::CfAdd { s: 0, range: "??".into(), rule: Box::new(cf_rule()) });
    add("invalid-cf-range", vec![], Op::CfAdd { s: 0, range: "".into(), rule: Box::new(cf_rule()) });
    add("unknown-cf-index", vec![], Op::CfDelete { s: 0, idx: 250 });
    add("unknown-cf-index", vec![], Op::CfUpdate { s: 0, idx: 250, range: "A1:A2".into(), rule: Box::new(cf_rule()) });
    add("unknown-cf-index", vec![], Op::CfRaise { s: 0, idx: 250 });
    add("unknown-cf-index", vec![], Op::CfLower { s: 0, idx: 250 });
    add("invalid-cf-range", vec![Op::CfAdd { s: 0, range: "A1:A2".into(), rule: Box::new(cf_rule()) }], Op::CfUpdate { s: 0, idx: 0, range: "!!".into(), rule: Box::new(cf_rule()) });
    t
}

fn cf_rule() -> ironcalc_base::cf_types::CfRuleInput {
    use ironcalc_base::cf_types::*;
    CfRuleInput::CellIs {
        operator: ValueOperator::GreaterThan,
        formula: "1".into(),
        formula2: None,
        format: ironcalc_base::types::Dxf::default(),
        stop_if_true: false,
    }
}

fn snap(um: &ironcalc_base::UserModel<'static>) -> Snapshot {
    snapshot::snapshot(um.get_model(), SnapOpts::default())
}

pub fn check(case: &Case) -> Outcome {
    let mut o = Outcome::pass();
    let mut um = ops::new_user_model("en", "en");
    // R-hist over the prefix
    let mut list: Vec<Snapshot> = vec![snap(&um)];
    let mut cursor = 0usize;
    let run_op = |um: &mut ironcalc_base::UserModel<'static>, op: &Op, list: &mut Vec<Snapshot>, cursor: &mut usize| -> Result<(), String> {
        match op {
            Op::Undo => {
                if !ops::apply(um, op).is_ok() {
                    return Err("undo-failed".into());
                }
                if *cursor > 0 {
                    *cursor -= 1;
                }
                if snap(um) != list[*cursor] {
                    return Err("blocked-by-C01".into());
                }
                Ok(())
            }
            Op::Redo => {
                if !ops::apply(um, op).is_ok() {
                    return Err("redo-failed".into());
                }
                if *cursor + 1 < list.len() {
                    *cursor += 1;
                }
                if snap(um) != list[*cursor] {
                    return Err("blocked-by-C02".into());
                }
                Ok(())
            }
            _ => {
                let before = um.verif_history_len();
                let res = ops::apply(um, op);
                let after = um.verif_history_len();
                match res {
                    Applied::Panic(p) => Err(format!("op-panicked:{}", p.class())),
                    Applied::Err(_) => {
                        if after != before || snap(um) != list[*cursor] {
                            Err(format!("tainted-by-failed-op:{}", op.kind()))
                        } else {
                            Ok(())
                        }
                    }
                    _ => {
                        if after.0 == before.0 + 1 {
                            list.truncate(*cursor + 1);
                            list.push(snap(um));
                            *cursor += 1;
                            Ok(())
                        } else if after.0 == before.0 {
                            if snap(um) != list[*cursor] {
                                Err(format!("unrecorded-change:{}", op.kind()))
                            } else {
                                Ok(())
                            }
                        } else {
                            Err("history-jump".into())
                        }
                    }
                }
            }
        }
    };
    for op in &case.prefix {
        if !matches!(op, Op::Undo | Op::Redo) {
            if let Some(reason) = ops::guard(&um, op, case.profile) {
                o.excluded += 1;
                o = o.label(format!("guard-skipped:{reason}"));
                continue;
            }
        }
        if let Err(l) = run_op(&mut um, op, &mut list, &mut cursor) {
            return o.label(format!("prefix:{l}"));
        }
    }
    for op in &case.bad.setup {
        let before = um.verif_history_len();
        if let Err(l) = run_op(&mut um, op, &mut list, &mut cursor) {
            return o.label(format!("setup:{l}"));
        }
        if um.verif_history_len() == before && !matches!(op, Op::SelectCell { .. } | Op::SelectSheet(_)) {
            // setup did not take effect (e.g. name already exists): not the intended state
            return o.label("setup:no-effect");
        }
    }
    let s_before = snap(&um);
    let h_before = um.verif_history_len();
    let flags_before = (um.can_undo(), um.can_redo());
    let res = ops::apply(&mut um, &case.bad.op);
    let kind = case.bad.op.kind();
    let reason = &case.bad.reason;
    match res {
        Applied::Panic(p) => {
            return o.label(format!("panicked:{kind}:{reason}:{}", p.class()));
        }
        Applied::Ok | Applied::Flushed(_) => {
            return o.label(format!("accepted:{kind}:{reason}"));
        }
        Applied::Err(e) if e.starts_with("harness:") || e.starts_with("select:") => {
            return o.label(format!("not-reached:{kind}:{reason}"));
        }
        Applied::Err(_) => {}
    }
    o = o.label(format!("rejected:{kind}:{reason}"));
    let s_after = snap(&um);
    let h_after = um.verif_history_len();
    let flags_after = (um.can_undo(), um.can_redo());
    let d = snapshot::diff(&s_before, &s_after);
    let mut what = vec![];
    if h_after.0 != h_before.0 {
        what.push("undo-entry-added".to_string());
    }
    if h_after.1 != h_before.1 {
        what.push("redo-list-changed".to_string());
    }
    if flags_after != flags_before && what.is_empty() {
        what.push("can-undo-redo-changed".to_string());
    }
    if !d.is_empty() {
        what.push("partial-edit".to_string());
    }
    if !what.is_empty() {
        return o.fail(
            format!("C04:{kind}:{reason}:{}", what.join("+")),
            format!(
                "{:?} returned Err but: history {:?} -> {:?}, flags {:?} -> {:?}; changed aspects: {}\n{}",
                case.bad.op,
                h_before,
                h_after,
                flags_before,
                flags_after,
                snapshot::aspects(&d).join(","),
                snapshot::describe(&d, "before", "after-failed-call", 10)
            ),
        );
    }
    // undoing afterwards behaves as if the failed call never happened
    if cursor > 0 {
        let r = ops::apply(&mut um, &Op::Undo);
        let s = snap(&um);
        if !r.is_ok() || s != list[cursor - 1] {
            // is that the failed call's fault? replay the same history without it
            let mut um2 = ops::new_user_model("en", "en");
            let mut l2 = vec![snap(&um2)];
            let mut c2 = 0usize;
            let mut ok = true;
            for op in case.prefix.iter().chain(case.bad.setup.iter()) {
                if !matches!(op, Op::Undo | Op::Redo) && ops::guard(&um2, op, case.profile).is_some() {
                    continue;
                }
                if run_op(&mut um2, op, &mut l2, &mut c2).is_err() {
                    ok = false;
                    break;
                }
            }
            let r2 = ops::apply(&mut um2, &Op::Undo);
            if ok && r2.is_ok() == r.is_ok() && snap(&um2) == s {
                // same result without the failed call: not caused by it
                return o.label("undo-after-failure:blocked-by-C01");
            }
            let d = snapshot::diff(&list[cursor - 1], &s);
            return o.fail(
                format!("C04:{kind}:{reason}:undo-after-failure"),
                format!(
                    "after the failed {:?}, undo ({:?}) does not land on the state before the last successful operation:\n{}",
                    case.bad.op,
                    r,
                    snapshot::describe(&d, "expected", "after-undo", 10)
                ),
            );
        }
    }
    let prefix_kinds: Vec<&str> = case.prefix.iter().map(|p| p.kind()).collect();
    if list.len() > 1 {
        o = o.nontrivial(format!("{kind}|{reason}|{:?}|{:?}", case.bad.op, prefix_kinds));
    }
    o
}

fn prefix_strategy(max: usize, profile: Profile) -> impl Strategy<Value = Vec<Op>> {
    (
        prop::collection::vec(ops::recording_op(profile), 1..=max),
        prop::collection::vec(prop_oneof![3 => Just(Op::Undo), 1 => Just(Op::Redo)], 0..=3),
    )
        .prop_map(|(mut a, b)| {
            a.extend(b);
            a
        })
}

pub fn run(ctx: &Ctx) {
    ctx.set_rule(
        "A generated history (restricted profile; 0..3 trailing undo/redo steps so the redo list is \
         often non-empty) followed by one operation from a finite table of (operation kind, invalid \
         reason) pairs covering the argument classes of the property's quantifier; the table is also \
         enumerated completely with two fixed prefixes. Asserted only when the call returns Err: \
         snapshot, can_undo/can_redo and stack lengths unchanged, then one undo lands on the state \
         before the last successful operation (checked differentially against the same history \
         without the failed call). Non-trivial: Err returned from a non-initial state; distinct by \
         (kind, reason, op, prefix kinds).",
    );
    ctx.assume("view state (selection) is not part of 'the workbook, its computed values and the history'");
    ctx.assume("a panic on invalid arguments is labelled, not asserted (the property speaks of calls that return an error)");
    let table = table();
    ctx.note(format!("invalid-argument table entries: {}", table.len()));
    let fixed_prefixes: Vec<Vec<Op>> = vec![
        vec![inp(0, 1, 1, "1"), inp(0, 2, 1, "=A1+1")],
        vec![inp(0, 1, 1, "1"), inp(0, 2, 2, "x"), Op::NewSheet, inp(1, 1, 1, "=Sheet1!A1"), Op::Undo],
    ];
    let mut items: Vec<Case> = vec![];
    for p in &fixed_prefixes {
        for b in &table {
            items.push(Case { profile: Profile::Edit, prefix: p.clone(), bad: b.clone() });
        }
    }
    let enc = |c: &Case| serde_json::to_value(c).unwrap_or(Value::Null);
    ctx.enumerate("table", &items, check, enc);
    let cases = match ctx.tier {
        Tier::Quick => 40000,
        Tier::Thorough => 1000000,
    };
    let n = table.len();
    let tbl = table.clone();
    ctx.campaign(
        "random-prefix",
        cases,
        move || {
            let tbl = tbl.clone();
            (
                prop_oneof![Just(Profile::Edit), Just(Profile::Structural)],
                0..n,
            )
                .prop_flat_map(move |(profile, i)| {
                    let bad = tbl[i].clone();
                    (any::<bool>(), prefix_strategy(8, profile)).prop_map(move |(rich, prefix)| {
                        let mut all = if rich { ops::rich_setup(profile) } else { vec![] };
                        all.extend(prefix);
                        Case { profile, prefix: all, bad: bad.clone() }
                    })
                })
        },
        check,
        enc,
    );
}

pub fn replay(_ctx: &Ctx, _campaign: &str, case: &Value) -> Result<Outcome, String> {
    let c: Case = serde_json::from_value(case.clone()).map_err(|e| e.to_string())?;
    Ok(check(&c))
}
