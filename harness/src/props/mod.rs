use crate::engine::{Ctx, Outcome};
use serde_json::Value;

pub struct Prop {
    pub id: &'static str,
    pub run: fn(&Ctx),
    /// Re-executes one saved case (from a replay file) without any generator.
    pub replay: fn(&Ctx, &str, &Value) -> Result<Outcome, String>,
}

pub mod c01;
pub mod c02;
pub mod c03;
pub mod c04;
pub mod c21;
pub mod c26;
pub mod c27;
pub mod c28;
pub mod c22;
pub mod c23;
pub mod c29;
pub mod c30;
pub mod c20;
pub mod c18;
pub mod c19;
pub mod c09;
pub mod c34;
pub mod formula_gen;
pub mod c12;
pub mod c13;
pub mod c14;
pub mod geom;
pub mod c10;
pub mod c17;
pub mod c32;
pub mod c15;
pub mod c16;
pub mod c33;
pub mod geom2;
pub mod c06;
pub mod c08;
pub mod c24;
pub mod c11;
pub mod c25;
pub mod c25_mutate;
pub mod crashsig;
pub mod c05;
pub mod c07;
pub mod c31;
pub mod evalkit;

pub fn registry() -> Vec<Prop> {
    vec![
        Prop { id: "C01", run: c01::run, replay: c01::replay },
        Prop { id: "C02", run: c02::run, replay: c02::replay },
        Prop { id: "C03", run: c03::run, replay: c03::replay },
        Prop { id: "C04", run: c04::run, replay: c04::replay },
        Prop { id: "C21", run: c21::run, replay: c21::replay },
        Prop { id: "C26", run: c26::run, replay: c26::replay },
        Prop { id: "C27", run: c27::run, replay: c27::replay },
        Prop { id: "C28", run: c28::run, replay: c28::replay },
        Prop { id: "C22", run: c22::run, replay: c22::replay },
        Prop { id: "C23", run: c23::run, replay: c23::replay },
        Prop { id: "C29", run: c29::run, replay: c29::replay },
        Prop { id: "C30", run: c30::run, replay: c30::replay },
        Prop { id: "C20", run: c20::run, replay: c20::replay },
        Prop { id: "C18", run: c18::run, replay: c18::replay },
        Prop { id: "C19", run: c19::run, replay: c19::replay },
        Prop { id: "C09", run: c09::run, replay: c09::replay },
        Prop { id: "C34", run: c34::run, replay: c34::replay },
        Prop { id: "C12", run: c12::run, replay: c12::replay },
        Prop { id: "C13", run: c13::run, replay: c13::replay },
        Prop { id: "C14", run: c14::run, replay: c14::replay },
        Prop { id: "C10", run: c10::run, replay: c10::replay },
        Prop { id: "C17", run: c17::run, replay: c17::replay },
        Prop { id: "C32", run: c32::run, replay: c32::replay },
        Prop { id: "C15", run: c15::run, replay: c15::replay },
        Prop { id: "C16", run: c16::run, replay: c16::replay },
        Prop { id: "C33", run: c33::run, replay: c33::replay },
        Prop { id: "C06", run: c06::run, replay: c06::replay },
        Prop { id: "C08", run: c08::run, replay: c08::replay },
        Prop { id: "C24", run: c24::run, replay: c24::replay },
        Prop { id: "C11", run: c11::run, replay: c11::replay },
        Prop { id: "C25", run: c25::run, replay: c25::replay },
        Prop { id: "C05", run: c05::run, replay: c05::replay },
        Prop { id: "C07", run: c07::run, replay: c07::replay },
        Prop { id: "C31", run: c31::run, replay: c31::replay },
    ]
}
