use crate::engine::{Ctx, Outcome};
use serde_json::Value;

pub struct Prop {
    pub id: &'static str,
    pub run: fn(&Ctx),
    /// Re-executes one saved case (from a replay file) without any generator.
    pub replay: fn(&Ctx, &str, &Value) -> Result<Outcome, String>,
}

pub mod c01;
pub mod c02;
pub mod c03;
pub mod c04;
pub mod c21;
pub mod c26;
pub mod c27;
pub mod c28;

pub fn registry() -> Vec<Prop> {
    vec![
        Prop { id: "C01", run: c01::run, replay: c01::replay },
        Prop { id: "C02", run: c02::run, replay: c02::replay },
        Prop { id: "C03", run: c03::run, replay: c03::replay },
        Prop { id: "C04", run: c04::run, replay: c04::replay },
        Prop { id: "C21", run: c21::run, replay: c21::replay },
        Prop { id: "C26", run: c26::run, replay: c26::replay },
        Prop { id: "C27", run: c27::run, replay: c27::replay },
        Prop { id: "C28", run: c28::run, replay: c28::replay },
    ]
}
