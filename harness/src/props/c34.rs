//! C34 — F4 reference cycling has period four and touches only `$` markers.
//!
//! Case = formula text (with the leading `=`) in a language / locale plus a few selections; every
//! collapsed cursor position 0..=len is tried exhaustively. For each call of
//! `Model::cycle_reference(text, start, end)`:
//!
//! 1. it returns Ok (the cursor is inside the text);
//! 2. the output with `$` removed and upper-cased equals the input normalised the same way;
//! 3. the returned cursor / selection lies inside the returned text;
//! 4. token by token (engine lexer as observer) only reference tokens differ, only in their
//!    absolute flags, and only those whose span the selection touches or grazes;
//! 5. if the input parses, the output parses and refers to the same cells;
//! 6. four successive calls, each following the returned cursor / selection, give the original
//!    text up to letter case;
//! 7. when a collapsed cursor touches exactly one reference made of full cell endpoints, the
//!    original and the three intermediate texts are four distinct states (the documented cycle
//!    A1 -> $A$1 -> A$1 -> $A1 -> A1: the period is four, not shorter).

use std::collections::HashMap;

use ironcalc_base::expressions::lexer::util::{get_tokens_with_locale, MarkedToken};
use ironcalc_base::expressions::lexer::LexerMode;
use ironcalc_base::expressions::parser::{Node, Parser};
use ironcalc_base::expressions::token::TokenType;
use ironcalc_base::expressions::types::CellReferenceRC;
use ironcalc_base::language::get_language;
use ironcalc_base::locale::get_locale;
use ironcalc_base::Model;
use proptest::prelude::*;
use serde::{Deserialize, Serialize};
use serde_json::Value;

use super::formula_gen::{self as fg, Profile, Style};
use crate::engine::config;
use crate::engine::nodes::{ref_leaves, walk};
use crate::engine::{panics, Ctx, Outcome, Tier};

const SHEETS: [&str; 4] = ["Sheet1", "Sheet2", "My Sheet", "It's"];
const HOST_ROW: i32 = 7;
const HOST_COL: i32 = 5;

#[derive(Clone, Debug, Serialize, Deserialize)]
pub struct Case {
    pub text: String,
    pub language: String,
    pub locale: String,
    /// extra selections (start, end), any order; positions are taken modulo len+1
    #[serde(default)]
    pub selections: Vec<(usize, usize)>,
}

fn normalise(s: &str) -> String {
    s.replace('$', "").to_uppercase()
}

fn is_ref(t: &TokenType) -> bool {
    matches!(t, TokenType::Reference { .. } | TokenType::Range { .. })
}

/// A reference token with its absolute flags cleared.
fn unflag(t: &TokenType) -> TokenType {
    match t {
        TokenType::Reference { sheet, row, column, .. } => TokenType::Reference {
            sheet: sheet.clone(),
            row: *row,
            column: *column,
            absolute_column: false,
            absolute_row: false,
        },
        TokenType::Range { sheet, left, right } => {
            let mut l = left.clone();
            let mut r = right.clone();
            l.absolute_column = false;
            l.absolute_row = false;
            r.absolute_column = false;
            r.absolute_row = false;
            TokenType::Range { sheet: sheet.clone(), left: l, right: r }
        }
        other => other.clone(),
    }
}

struct Env {
    model: Model<'static>,
    parser: Parser<'static>,
    language: &'static ironcalc_base::language::Language,
    locale: &'static ironcalc_base::locale::Locale,
}

fn leak(s: &str) -> &'static str {
    use std::sync::Mutex;
    static POOL: Mutex<Vec<&'static str>> = Mutex::new(Vec::new());
    let mut p = POOL.lock().unwrap();
    if let Some(x) = p.iter().find(|x| **x == s) {
        return x;
    }
    let l: &'static str = Box::leak(s.to_string().into_boxed_str());
    p.push(l);
    l
}

impl Env {
    fn new(language: &str, locale: &str) -> Result<Env, String> {
        let lang = get_language(language)?;
        let loc = get_locale(locale)?;
        let model = Model::new_empty("c34", leak(locale), "UTC", leak(language))?;
        let parser = Parser::new(SHEETS.iter().map(|s| s.to_string()).collect(), vec![], HashMap::new(), loc, lang);
        Ok(Env { model, parser, language: lang, locale: loc })
    }

    fn tokens(&self, text: &str) -> Vec<MarkedToken> {
        let body: String = text.chars().skip(1).collect();
        get_tokens_with_locale(&body, self.locale, self.language)
    }

    fn parse(&mut self, text: &str) -> Node {
        let body: String = text.chars().skip(1).collect();
        self.parser.set_lexer_mode(LexerMode::A1);
        self.parser.parse(&body, &CellReferenceRC { sheet: SHEETS[0].to_string(), row: HOST_ROW, column: HOST_COL })
    }
}

fn parse_fails(n: &Node) -> bool {
    let mut b = false;
    walk(n, &mut |x| {
        if matches!(x, Node::ParseErrorKind { .. }) {
            b = true
        }
    });
    b
}

struct CallInfo {
    touched: usize,
    /// every touched reference is made of full cell endpoints (`[$]col[$]row`), for which the
    /// documented cycle A1 -> $A$1 -> A$1 -> $A1 -> A1 has exactly four distinct states
    full_cells: bool,
    out: (String, usize, usize),
}

/// `Sheet!$A1:B$2` -> are all endpoints `[$]letters[$]digits`?
fn full_cell_text(token_text: &str) -> bool {
    let t = token_text.trim();
    let t = match t.rfind('!') {
        Some(i) => &t[i + 1..],
        None => t,
    };
    !t.is_empty()
        && t.split(':').all(|e| {
            let e = e.strip_prefix('$').unwrap_or(e);
            let letters = e.chars().take_while(|c| c.is_ascii_alphabetic()).count();
            let rest = &e[letters..];
            let rest = rest.strip_prefix('$').unwrap_or(rest);
            letters > 0 && !rest.is_empty() && rest.chars().all(|c| c.is_ascii_digit())
        })
}

/// One call, clauses 1-5. Err((signature tail, detail)).
fn one_call(env: &mut Env, text: &str, start: usize, end: usize) -> Result<CallInfo, (String, String)> {
    let n = text.chars().count();
    let call = format!("cycle_reference({text:?}, {start}, {end})");
    let (out, ns, ne) = match env.model.cycle_reference(text, start, end) {
        Ok(x) => x,
        Err(e) => return Err(("returns-error".into(), format!("{call} with both positions inside the text (length {n}) returns Err({e})"))),
    };
    if normalise(&out) != normalise(text) {
        return Err(("changes-more-than-markers-and-case".into(), format!("{call} returns {out:?}")));
    }
    let m = out.chars().count() as i32;
    if ns < 0 || ne < 0 || ns > m || ne > m {
        return Err(("cursor-outside-text".into(), format!("{call} returns {out:?} (length {m}) with cursor ({ns}, {ne})")));
    }
    // token level
    let (lo, hi) = (start.min(end) as i32, start.max(end) as i32);
    let tin = env.tokens(text);
    let tout = env.tokens(&out);
    let illegal = |v: &Vec<MarkedToken>| v.iter().any(|t| matches!(t.token, TokenType::Illegal(_)));
    // the lexer is only an observer where it can read both texts completely
    let observable = !illegal(&tin) && !illegal(&tout);
    if observable && tin.len() != tout.len() {
        return Err((
            "token-structure-changed".into(),
            format!("{call} returns {out:?}: {} tokens before, {} after", tin.len(), tout.len()),
        ));
    }
    let mut touched = 0;
    let mut full_cells = observable;
    let chars: Vec<char> = text.chars().collect();
    if !observable {
        // count touched references on the input side only
        for a in tin.iter().filter(|a| is_ref(&a.token)) {
            let (ts, te) = (a.start + 1, a.end + 1);
            if !(ts > hi || lo > te) {
                touched += 1;
            }
        }
    }
    for (a, b) in tin.iter().zip(tout.iter()).filter(|_| observable) {
        if !is_ref(&a.token) {
            if a.token != b.token {
                return Err(("non-reference-token-changed".into(), format!("{call} returns {out:?}: token {:?} became {:?}", a.token, b.token)));
            }
            continue;
        }
        if unflag(&a.token) != unflag(&b.token) {
            return Err(("reference-changed-beyond-flags".into(), format!("{call} returns {out:?}: token {:?} became {:?}", a.token, b.token)));
        }
        // spans are relative to the body: shift by the leading '='
        let (ts, te) = (a.start + 1, a.end + 1);
        let is_touched = !(ts > hi || lo > te);
        if is_touched {
            touched += 1;
            let src: String = chars[(ts.max(0) as usize).min(chars.len())..(te.max(0) as usize).min(chars.len())].iter().collect();
            if !full_cell_text(&src) {
                full_cells = false;
            }
        } else if a.token != b.token {
            return Err((
                "untouched-reference-changed".into(),
                format!("{call} returns {out:?}: reference at [{ts},{te}) is not touched by the selection but {:?} became {:?}", a.token, b.token),
            ));
        }
    }
    // same targets
    if text.starts_with('=') {
        let before = env.parse(text);
        if !parse_fails(&before) {
            let after = env.parse(&out);
            if parse_fails(&after) {
                let mut msg = String::new();
                walk(&after, &mut |x| {
                    if let Node::ParseErrorKind { message, .. } = x {
                        msg = message.chars().map(|c| if c.is_ascii_alphanumeric() { c } else { '_' }).take(40).collect();
                    }
                });
                return Err((format!("result-does-not-parse:{msg}"), format!("{call} returns {out:?}, which the parser rejects although it accepts the input: {after:?}")));
            }
            let (la, lb) = (ref_leaves(&before, HOST_ROW, HOST_COL), ref_leaves(&after, HOST_ROW, HOST_COL));
            if la != lb {
                return Err(("refers-to-other-cells".into(), format!("{call} returns {out:?}: targets before {la:?}, after {lb:?}")));
            }
        }
    }
    Ok(CallInfo { touched, full_cells, out: (out, ns as usize, ne as usize) })
}

pub fn check(case: &Case) -> Outcome {
    let mut o = Outcome::pass();
    let r = panics::catch(|| -> Result<(usize, usize, usize), (String, String)> {
        let mut env = Env::new(&case.language, &case.locale).map_err(|e| ("setup".to_string(), e))?;
        let n = case.text.chars().count();
        let mut positions: Vec<(usize, usize)> = (0..=n).map(|k| (k, k)).collect();
        positions.extend(case.selections.iter().map(|(a, b)| (a % (n + 1), b % (n + 1))));
        let (mut one, mut two, mut none) = (0, 0, 0);
        for (start, end) in positions {
            let first = one_call(&mut env, &case.text, start, end)?;
            match first.touched {
                0 => none += 1,
                1 => one += 1,
                _ => two += 1,
            }
            if first.touched == 0 {
                if first.out.0 != case.text {
                    return Err((
                        "changes-text-without-touching-a-reference".into(),
                        format!("cycle_reference({:?}, {start}, {end}) returns {:?}", case.text, first.out.0),
                    ));
                }
                continue;
            }
            // period four, following the returned cursor / selection
            let mut cur = first.out.clone();
            let mut trace = vec![format!("{:?}@({},{})", cur.0, cur.1, cur.2)];
            let mut max_touched = first.touched;
            let mut exact = start == end && first.touched == 1 && first.full_cells;
            let mut states = vec![case.text.to_uppercase(), cur.0.to_uppercase()];
            for step in 0..3 {
                let next = one_call(&mut env, &cur.0, cur.1, cur.2)?;
                max_touched = max_touched.max(next.touched);
                exact = exact && next.touched == 1 && next.full_cells;
                if step < 2 {
                    states.push(next.out.0.to_uppercase());
                }
                if next.touched >= 2 {
                    two += 1;
                }
                cur = next.out;
                trace.push(format!("{:?}@({},{})", cur.0, cur.1, cur.2));
            }
            // one plain cell reference under a collapsed cursor: the documented cycle
            // A1 -> $A$1 -> A$1 -> $A1 (-> A1) passes through four distinct states
            if exact {
                let distinct: std::collections::BTreeSet<&String> = states.iter().collect();
                if distinct.len() != 4 {
                    return Err((
                        "period-shorter-than-four".to_string(),
                        format!(
                            "{:?} [{}/{}] cursor ({start},{end}) touches one cell reference, but the states are {:?} -> {}",
                            case.text, case.language, case.locale, case.text, trace.join(" -> ")
                        ),
                    ));
                }
            }
            if cur.0.to_uppercase() != case.text.to_uppercase() {
                let class = if start == end && max_touched >= 2 {
                    "period4:collapsed-cursor-touches-two-references"
                } else if start == end {
                    "period4:collapsed-cursor"
                } else {
                    "period4:selection"
                };
                return Err((
                    class.to_string(),
                    format!(
                        "{:?} [{}/{}] cursor ({start},{end}): four calls following the returned cursor give {}",
                        case.text,
                        case.language,
                        case.locale,
                        trace.join(" -> ")
                    ),
                ));
            }
        }
        Ok((none, one, two))
    });
    match r {
        Ok(Ok((_none, one, two))) => {
            if one + two > 0 {
                o = o.nontrivial(format!("{}|{}|{}", case.language, case.locale, case.text)).label("cursor-touches-a-reference");
            }
            if two > 0 {
                o = o.label("cursor-touches-two-references");
            }
            if case.text.contains('\'') {
                o = o.label("quoted-sheet");
            }
            if case.text.contains('!') {
                o = o.label("sheet-prefix");
            }
            if case.text.chars().any(|c| c.is_ascii_lowercase()) {
                o = o.label("lower-case");
            }
            if case.text.contains(' ') {
                o = o.label("spaces");
            }
            o
        }
        Ok(Err((sig, detail))) => o.fail(format!("C34:{sig}"), detail),
        Err(p) => o.fail(format!("C34:{}", p.class()), format!("{:?}: {}", case.text, p.describe())),
    }
}

fn case_strategy(depth: u32, no_range_operator: bool) -> BoxedStrategy<Case> {
    let all = config::configs();
    let mut profile = Profile::references();
    if no_range_operator {
        profile.binary.retain(|op| *op != fg::BinOp::Range);
    }
    (
        fg::source_strategy(&profile, depth, 3, 60),
        0..all.len(),
        prop_oneof![3 => Just(0u8), 1 => Just(1u8), 1 => Just(2u8)],
        prop::collection::vec((0usize..200, 0usize..200), 0..4),
    )
        .prop_map(move |(tree, k, lower, selections)| {
            let (language, locale) = all[k].clone();
            let style = Style::new(&language, &locale).expect("style");
            let mut text = format!("={}", fg::print(&tree, &style));
            match lower {
                1 => text = text.to_lowercase(),
                2 => {
                    // alternate case
                    text = text
                        .chars()
                        .enumerate()
                        .map(|(i, c)| if i % 2 == 0 { c.to_ascii_lowercase() } else { c })
                        .collect()
                }
                _ => {}
            }
            Case { text, language, locale, selections }
        })
        .boxed()
}

/// Hand-written shapes: every reference form, alone and inside a call, all cursors.
fn fixed_cases(no_range_operator: bool) -> (Vec<Case>, u64) {
    let refs = [
        "A1", "$A$1", "A$1", "$A1", "a1", "XFD1048576", "A1:B2", "$A1:B$2", "a1:b2", "A:A", "$A:B", "a:$b", "1:1", "$1:2", "5:$7",
        "Sheet2!A1", "sheet2!a1", "Sheet2!A1:B2", "Sheet2!A:A", "Sheet2!1:2", "'My Sheet'!A1", "'My Sheet'!$A$1:B2", "'It''s'!A1",
        "'It''s'!a:a", "'My Sheet'!3:4", "Ghost!A1", "'Sheet2'!A1", "LOG10",
    ];
    let frames = ["={}", "={}+1", "=1+{}", "=SUM({})", "=SUM(1,{},2)", "= {}", "={} ", "=\"A1\"&{}", "={}+{}", "=IF({}>0,{},{})", "=-{}%", "={}:INDEX({},1)"];
    let mut v = vec![];
    let mut excluded = 0;
    for f in frames {
        if no_range_operator && f.contains(":INDEX") {
            excluded += refs.len() as u64;
            continue;
        }
        for r in refs {
            let text = f.replace("{}", r);
            v.push(Case { text: text.clone(), language: "en".into(), locale: "en".into(), selections: vec![(0, text.len()), (text.len(), 1), (1, 3), (2, 9)] });
        }
    }
    // locale-specific separators
    for (language, locale) in [("de", "de"), ("es", "fr"), ("fr", "es")] {
        for r in refs {
            let text = format!("=SUMME({r};1,5;{r})").replace("SUMME", if language == "de" { "SUMME" } else if language == "es" { "SUMA" } else { "SOMME" });
            v.push(Case { text: text.clone(), language: language.into(), locale: locale.into(), selections: vec![(0, text.len())] });
        }
    }
    (v, excluded)
}

/// References separated by white space only (or by nothing): one collapsed cursor grazes both.
fn adjacent_cases() -> Vec<Case> {
    ["=A1 B1", "=SUM(A1 B1)", "=A1  $B$1", "=Sheet2!A1 'My Sheet'!B2", "=A1:B2 C3:D4", "=A1$B$1"]
        .iter()
        .map(|t| Case { text: t.to_string(), language: "en".into(), locale: "en".into(), selections: vec![(0, t.len()), (1, 4)] })
        .collect()
}

pub fn run(ctx: &Ctx) {
    ctx.set_rule(
        "Case = formula text in one of the language x locale pairs: (a) every reference form (relative / absolute / \
         mixed, lower case, ranges, column-only and row-only ranges, unquoted / quoted / nonexistent sheet prefixes) \
         inside 12 frames; (b) reference-rich random formulas from the formula generator (spaces, parentheses, @, #, \
         calls), upper / lower / mixed case; (c) references separated only by white space. Every collapsed cursor \
         position 0..=len is checked plus up to 4 selections (either order). Non-trivial: at least one position \
         touches a reference (then the four-call period is checked); distinct by (language, locale, text).",
    );
    ctx.assume("'touches' is read off the engine's own token spans (which include leading white space and count grazing an edge)");
    ctx.assume("same-cells clause only for texts the parser accepts");
    let enc = |c: &Case| serde_json::to_value(c).unwrap_or(Value::Null);
    // listed finding: a reference with `$` followed by the range operator does not lex
    let no_range_operator = ctx.avoid("C34-range-operator");
    let (fixed, excluded) = fixed_cases(no_range_operator);
    ctx.stats.lock().unwrap().excluded += excluded;
    if no_range_operator {
        ctx.note("range operator (reference ':' call) excluded from the generated formulas while the finding is listed");
    }
    ctx.enumerate("reference-forms", &fixed, check, enc);
    ctx.enumerate("adjacent-references", &adjacent_cases(), check, enc);
    let (cases, depth) = match ctx.tier {
        Tier::Quick => (80_000u64, 3u32),
        Tier::Thorough => (1_600_000, 5),
    };
    ctx.campaign("generated", cases, || case_strategy(depth, no_range_operator), check, enc);
}

pub fn replay(_ctx: &Ctx, _campaign: &str, case: &Value) -> Result<Outcome, String> {
    let c: Case = serde_json::from_value(case.clone()).map_err(|e| e.to_string())?;
    Ok(check(&c))
}
