//! C33 — Cell-attached metadata follows its cells.
//!
//! Differential against formula displacement. A two-sheet workbook ("Data", "Aux") holds
//!   * k hyperlinks on Data, each on a cell holding a unique marker text `L<i>` (the link target
//!     carries the same id);
//!   * m conditional formats on Data over arbitrary ranges, with rule kinds with and without
//!     formulas; for each one a *range probe* `=SUM(Data!$B$2:$C$4)` on Aux (never edited) and,
//!     for rules with a formula, a *formula probe*: the rule formula typed as a cell formula at
//!     the range's top-left cell (the rule formula is A1 text as seen from that cell).
//! Then a history of row/column insert/delete/move, cut/copy + paste, clear contents, undo and
//! redo runs on Data. After every step:
//!   * the set of (cell, link id) equals the set of (marker cell, marker id): a link sits where
//!     its marker went, is gone when the marker is gone (deleted, cleared, overwritten), and is
//!     back when undo brings the marker back;
//!   * every conditional format's range is the rectangle its range probe shows (a probe that
//!     turned into #REF! means the range no longer exists);
//!   * every rule formula equals the text of its formula probe, whenever the probe still sits on
//!     the range's top-left cell.

use std::collections::BTreeSet;

use ironcalc_base::cf_types::{CfRule, CfRuleInput, TextOperator, ValueOperator};
use ironcalc_base::expressions::utils::parse_reference_a1;
use ironcalc_base::types::{Color, Dxf, Fill, Link};
use ironcalc_base::UserModel;
use proptest::prelude::*;
use serde::{Deserialize, Serialize};
use serde_json::Value;

use super::formula_gen as fg;
use super::geom2;
use crate::engine::ops::{self, Applied, Op, A};
use crate::engine::snapshot::TV;
use crate::engine::{Ctx, Outcome, Tier};

const ROWS: i32 = 10;
const COLS: i32 = 7;
const DATA: u32 = 0;
const AUX: u32 = 1;

#[derive(Clone, Debug, Serialize, Deserialize)]
pub struct CfSpec {
    /// unique constant appearing in the rule formula (0: the rule has no formula)
    pub id: u32,
}

#[derive(Clone, Debug, Serialize, Deserialize)]
pub struct Case {
    pub language: String,
    pub locale: String,
    pub setup: Vec<Op>,
    /// number of links (ids 0..links)
    pub links: u32,
    /// conditional formats in storage order; the range probe of the j-th sits on Aux!A(j+1)
    pub cfs: Vec<CfSpec>,
    pub history: Vec<Op>,
    /// run-time guards for the listed findings are on (off in replays of those findings)
    pub restricted: Vec<String>,
}

fn marker_id(text: &str) -> Option<u32> {
    let rest = text.strip_prefix('L')?;
    if rest.is_empty() || !rest.chars().all(|c| c.is_ascii_digit()) {
        return None;
    }
    rest.parse().ok()
}

fn link_id(l: &Link) -> Option<u32> {
    match l {
        Link::External { target, .. } => target.rsplit('/').next().and_then(marker_id),
        Link::Internal { .. } => None,
    }
}

type Placed = BTreeSet<(u32, i32, i32, String)>;

fn markers(um: &UserModel) -> Placed {
    let model = um.get_model();
    let mut out = Placed::new();
    for s in 0..geom2::sheet_count(model) {
        for (r, c) in geom2::cell_positions(model, s) {
            let cell = model.workbook.worksheets[s as usize].cell(r, c);
            if geom2::cell_kind(cell) != "text" {
                continue;
            }
            if let TV::Text(t) = crate::engine::snapshot::typed_value(cell, &model.workbook.shared_strings) {
                if let Some(id) = marker_id(&t) {
                    out.insert((s, r, c, format!("L{id}")));
                }
            }
        }
    }
    out
}

fn links(um: &UserModel) -> Placed {
    let mut out = Placed::new();
    for s in 0..geom2::sheet_count(um.get_model()) {
        if let Ok(list) = um.get_links_list(s) {
            for l in list {
                let id = match link_id(&l.link) {
                    Some(i) => format!("L{i}"),
                    None => format!("foreign:{}", serde_json::to_string(&l.link).unwrap_or_default()),
                };
                out.insert((s, l.row, l.column, id));
            }
        }
    }
    out
}

/// Normalised rectangle of a single-part sqref.
fn sqref_rect(s: &str) -> Option<(i32, i32, i32, i32)> {
    let mut parts = s.split_whitespace();
    let p = parts.next()?;
    if parts.next().is_some() {
        return None;
    }
    let up = p.to_uppercase();
    let mut it = up.splitn(2, ':');
    let a = parse_reference_a1(it.next()?)?;
    let (ar, ac) = (a.row, a.column);
    let (br, bc) = match it.next() {
        Some(t) => {
            let b = parse_reference_a1(t)?;
            (b.row, b.column)
        }
        None => (ar, ac),
    };
    Some((ar.min(br), ac.min(bc), ar.max(br), ac.max(bc)))
}

fn rule_formula(r: &CfRule) -> Option<String> {
    match r {
        CfRule::Formula { formula, .. } => Some(formula.clone()),
        CfRule::CellIs { formula, .. } => Some(formula.clone()),
        _ => None,
    }
}

#[derive(Clone, Debug, PartialEq)]
struct CfState {
    range: String,
    formula: Option<String>,
    /// second bound of a Between / NotBetween rule
    formula2: Option<String>,
}

fn cf_states(um: &UserModel) -> Vec<Option<CfState>> {
    let mut v: Vec<Option<CfState>> = vec![];
    if let Ok(list) = um.get_conditional_formatting_list(DATA) {
        for e in list {
            if v.len() <= e.index {
                v.resize(e.index + 1, None);
            }
            let formula2 = match &e.cf_rule {
                CfRule::CellIs { formula2, .. } => formula2.clone(),
                _ => None,
            };
            v[e.index] = Some(CfState { range: e.range.clone(), formula: rule_formula(&e.cf_rule), formula2 });
        }
    }
    v
}

/// Rectangle shown by the range probe of the j-th conditional format: Ok(Some(rect)), Ok(None)
/// when the probe no longer holds a range (#REF!), Err when the probe itself is unusable.
fn probe_rect(um: &UserModel, j: usize) -> Result<Option<(i32, i32, i32, i32)>, String> {
    let model = um.get_model();
    let fs = geom2::formulas(model);
    let Some(f) = geom2::formula_at(&fs, AUX, j as i32 + 1, 1) else {
        return Err("range probe is not a formula".into());
    };
    // a deleted corner is printed as `#REF!` (and takes the sheet prefix with it): the range is gone
    let mut gone = false;
    crate::engine::nodes::walk(&f.node, &mut |n| {
        if matches!(n, ironcalc_base::expressions::parser::Node::ErrorKind(_)) {
            gone = true;
        }
    });
    if gone {
        return Ok(None);
    }
    let on_data: Vec<&geom2::Leaf> = f.leaves.iter().collect();
    match on_data.len() {
        0 => Ok(None),
        1 => {
            let l = on_data[0];
            if !l.on_sheet(DATA) {
                return Err(format!("range probe points at another sheet: {}", l.canon()));
            }
            if !l.on_grid() {
                return Ok(None);
            }
            Ok(Some(l.rect()))
        }
        _ => {
            // `#REF!:$C$4` style remains: one endpoint survived as a reference
            Ok(None)
        }
    }
}

/// Does the Data sheet hold an empty cell entry sharing a column (`rows`) / a row with a linked cell?
fn empty_entry_in_line_with_link(um: &UserModel, rows: bool) -> bool {
    let model = um.get_model();
    let Some(ws) = model.workbook.worksheets.get(DATA as usize) else { return false };
    let mut lines: BTreeSet<i32> = BTreeSet::new();
    for &(r, c) in ws.links.keys() {
        lines.insert(if rows { c } else { r });
    }
    for (r, c) in geom2::cell_positions(model, DATA) {
        if geom2::cell_kind(ws.cell(r, c)) == "empty" && lines.contains(&(if rows { c } else { r })) {
            return true;
        }
    }
    false
}

fn guard(um: &UserModel, op: &Op, pending: Option<&str>, restricted: &[String]) -> Option<&'static str> {
    let on = |s: &str| restricted.iter().any(|r| r == s);
    let states = cf_states(um);
    let rects: Vec<(i32, i32, i32, i32)> = states.iter().flatten().filter_map(|s| sqref_rect(&s.range)).collect();
    // the operation kind that actually runs (undo / redo re-run structural edits)
    let effective = pending.unwrap_or(op.kind());
    if on("c33-empty-entry-next-to-link") {
        let rows_op = matches!(effective, "InsertRows" | "DeleteRows" | "MoveRows");
        let cols_op = matches!(effective, "InsertCols" | "DeleteCols" | "MoveCols");
        if (rows_op && empty_entry_in_line_with_link(um, true)) || (cols_op && empty_entry_in_line_with_link(um, false)) {
            return Some("empty-entry-next-to-link");
        }
    }
    match op {
        Op::DeleteRows { row, n, .. } if on("c33-delete-cf-endpoint") => {
            let (a, b) = (*row, *row + *n - 1);
            if rects.iter().any(|(t, _, bt, _)| (*t >= a && *t <= b) || (*bt >= a && *bt <= b)) {
                return Some("delete-cf-endpoint");
            }
        }
        Op::DeleteCols { col, n, .. } if on("c33-delete-cf-endpoint") => {
            let (a, b) = (*col, *col + *n - 1);
            if rects.iter().any(|(_, l, _, r)| (*l >= a && *l <= b) || (*r >= a && *r <= b)) {
                return Some("delete-cf-endpoint");
            }
        }
        Op::MoveRows { row, n, delta, .. } if on("c33-move-through-cf-range") => {
            // a range that straddles block / band / rest: endpoints are displaced one by one
            if rects.iter().any(|(t, _, b, _)| geom2::interval_region_fast(*t, *b, *row, *n, *delta).is_none()) {
                return Some("move-through-cf-range");
            }
        }
        Op::MoveCols { col, n, delta, .. } if on("c33-move-through-cf-range") => {
            if rects.iter().any(|(_, l, _, r)| geom2::interval_region_fast(*l, *r, *col, *n, *delta).is_none()) {
                return Some("move-through-cf-range");
            }
        }
        Op::MoveRows { row, n, delta, .. } if on("c33-move-reverses-cf-range") => {
            // a move that reverses the order of a range's corners (B2:B3 -> B3:B2)
            if rects.iter().any(|(t, _, b, _)| geom2::sigma(*t, *row, *n, *delta) > geom2::sigma(*b, *row, *n, *delta)) {
                return Some("move-reverses-cf-range");
            }
        }
        Op::MoveCols { col, n, delta, .. } if on("c33-move-reverses-cf-range") => {
            if rects.iter().any(|(_, l, _, r)| geom2::sigma(*l, *col, *n, *delta) > geom2::sigma(*r, *col, *n, *delta)) {
                return Some("move-reverses-cf-range");
            }
        }
        Op::CopyPaste { src, trow, tcol, cut: true, .. } if on("c16-overlapping-cut") => {
            // listed under C16: a cut pasted over part of itself displaces references twice,
            // so the probes themselves are wrong
            let overlap = *trow < src.row + src.h && src.row < *trow + src.h && *tcol < src.col + src.w && src.col < *tcol + src.w;
            if overlap && !(*trow == src.row && *tcol == src.col) {
                return Some("overlapping-cut");
            }
        }
        _ => {}
    }
    for sw in restricted {
        if let Some(k) = sw.strip_prefix("c33-no-op:") {
            if effective == k || op.kind() == k {
                return Some("op-kind-excluded");
            }
        }
    }
    None
}

fn after_name(op: &Op, undone: Option<&str>) -> String {
    match (op, undone) {
        (Op::Undo, Some(k)) => format!("Undo({k})"),
        (Op::Redo, Some(k)) => format!("Redo({k})"),
        _ => op.kind().to_string(),
    }
}

pub fn check(case: &Case) -> Outcome {
    let mut o = Outcome::pass();
    let mut um = ops::new_user_model(&case.locale, &case.language);
    if let Err(e) = geom2::apply_setup(&mut um, &case.setup) {
        let k = e.split(':').next().unwrap_or("?").to_string();
        return o.label(format!("setup-failed:{k}"));
    }
    // sanity of the construction: the invariant holds on the initial state
    let m0 = markers(&um);
    if m0 != links(&um) || m0.len() != case.links as usize {
        return o.label("setup-inconsistent:links");
    }
    let st0 = cf_states(&um);
    if st0.len() != case.cfs.len() {
        return o.label("setup-inconsistent:cf-count");
    }
    for j in 0..case.cfs.len() {
        let want = st0[j].as_ref().and_then(|s| sqref_rect(&s.range));
        match probe_rect(&um, j) {
            Ok(p) if p == want && p.is_some() => {}
            _ => return o.label("setup-inconsistent:cf-probe"),
        }
    }
    let mut undo_stack: Vec<String> = vec![];
    let mut redo_stack: Vec<String> = vec![];
    let mut nontrivial = false;
    let mut formula_compared = 0u32;
    // auto-fill (extras) extends marker texts as a series and copies links: what it leaves is not
    // specified by the statement; only that undo brings back what was there before
    // a copy of a formula probe (copy+paste) can later land on the anchor: once a probe is not
    // unique its conditional format's rule formula is no longer compared
    let mut probe_dead: Vec<bool> = vec![false; case.cfs.len()];
    let mut autofill_baseline: Option<(Placed, Placed)> = None;
    let mut links_unspecified = false;
    for (step, op) in case.history.iter().enumerate() {
        if geom2::sheet_count(um.get_model()) < 2 && !matches!(op, Op::Undo | Op::Redo) {
            // the Data sheet is deleted (extras campaign): only undo / redo make sense
            continue;
        }
        // undo must not reach into the set-up operations; redo needs something undone
        if (matches!(op, Op::Undo) && undo_stack.is_empty()) || (matches!(op, Op::Redo) && redo_stack.is_empty()) {
            continue;
        }
        let pending = match op {
            Op::Undo => undo_stack.last().cloned(),
            Op::Redo => redo_stack.last().cloned(),
            _ => None,
        };
        if let Some(reason) = guard(&um, op, pending.as_deref(), &case.restricted) {
            o.excluded += 1;
            o = o.label(format!("guard-skipped:{reason}"));
            continue;
        }
        let links_before = links(&um);
        let markers_before = markers(&um);
        let cf_before = cf_states(&um);
        let hist_before = um.verif_history_len();
        let sheets_before = geom2::sheet_count(um.get_model());
        let res = ops::apply(&mut um, op);
        let undone: Option<String> = match op {
            Op::Undo => undo_stack.last().cloned(),
            Op::Redo => redo_stack.last().cloned(),
            _ => None,
        };
        match &res {
            Applied::Panic(p) => {
                return o.fail(format!("C33:{}:{}", after_name(op, undone.as_deref()), geom2::panic_sig(p)), format!("step {step} {op:?} panicked: {}", p.describe()));
            }
            Applied::Err(_) => {
                o = o.label(format!("op-rejected:{}", op.kind()));
                continue;
            }
            _ => {}
        }
        let hist_after = um.verif_history_len();
        match op {
            Op::Undo => {
                if hist_after.0 + 1 == hist_before.0 {
                    if let Some(k) = undo_stack.pop() {
                        redo_stack.push(k);
                    }
                }
            }
            Op::Redo => {
                if hist_after.0 == hist_before.0 + 1 {
                    if let Some(k) = redo_stack.pop() {
                        undo_stack.push(k);
                    }
                }
            }
            _ => {
                if hist_after.0 == hist_before.0 + 1 {
                    undo_stack.push(op.kind().to_string());
                    redo_stack.clear();
                }
            }
        }
        let after = after_name(op, undone.as_deref());
        o = o.label(format!("step:{after}"));
        let sheets_now = geom2::sheet_count(um.get_model());
        let _ = sheets_before;
        if sheets_now < 2 {
            // the Data sheet is deleted (extras campaign): nothing to compare until undo
            continue;
        }
        // ---- links
        let m = markers(&um);
        let l = links(&um);
        let autofill_runs = matches!(op, Op::AutofillRows { .. } | Op::AutofillCols { .. })
            || (matches!(op, Op::Redo) && matches!(undone.as_deref(), Some("AutofillRows" | "AutofillCols")));
        if autofill_runs {
            if !links_unspecified {
                autofill_baseline = Some((markers_before.clone(), links_before.clone()));
            }
            links_unspecified = true;
        } else if links_unspecified {
            match (&autofill_baseline, undone.as_deref()) {
                (Some((bm, bl)), Some("AutofillRows" | "AutofillCols")) if matches!(op, Op::Undo) => {
                    if m == *bm {
                        links_unspecified = false;
                        if l != *bl {
                            let missing: Vec<_> = bl.difference(&l).cloned().collect();
                            return o.fail(
                                format!("C33:link:missing:after={after}"),
                                format!("after step {step} {op:?}: the marker cells are back ({m:?}) but the links are {l:?}; before the auto-fill they were {bl:?}; missing {missing:?}"),
                            );
                        }
                    }
                    autofill_baseline = None;
                }
                _ => {
                    autofill_baseline = None;
                }
            }
        }
        if links_unspecified {
            // nothing to say about links until the auto-fill is undone
        } else if m != l {
            let missing: Vec<_> = m.difference(&l).cloned().collect();
            let stale: Vec<_> = l.difference(&m).cloned().collect();
            let rel = match (missing.is_empty(), stale.is_empty()) {
                (false, true) => "missing",
                (true, false) => "stale",
                _ => "misplaced",
            };
            return o.fail(
                format!("C33:link:{rel}:after={after}"),
                format!(
                    "after step {step} {op:?}: marker cells (sheet,row,col,id) {:?} but links {:?}; markers without their link: {:?}; links without their marker: {:?}",
                    m, l, missing, stale
                ),
            );
        }
        if l != links_before {
            nontrivial = true;
        }
        // ---- conditional formats
        let states = cf_states(&um);
        if states.len() >= cf_before.len() && states[..cf_before.len().min(states.len())] != cf_before[..] {
            nontrivial = true;
        }
        for (j, spec) in case.cfs.iter().enumerate() {
            if spec.id != 0 && !probe_dead[j] {
                let id = spec.id.to_string();
                let model = um.get_model();
                let copies = geom2::formulas(model)
                    .iter()
                    .filter(|f| f.sheet == DATA && model.get_localized_cell_content(DATA, f.row, f.col).map(|c| c.contains(&id)).unwrap_or(false))
                    .count();
                if copies != 1 {
                    probe_dead[j] = true;
                }
            }
        }
        for (j, spec) in case.cfs.iter().enumerate() {
            let Some(Some(st)) = states.get(j) else {
                return o.fail(format!("C33:cf-lost:after={after}"), format!("after step {step} {op:?}: conditional format #{j} no longer exists"));
            };
            let probe = match probe_rect(&um, j) {
                Ok(p) => p,
                Err(e) => {
                    o = o.label(format!("range-probe-unusable:{}", e.split(':').next().unwrap_or("")));
                    continue;
                }
            };
            let rect = sqref_rect(&st.range);
            match (probe, rect) {
                (Some(p), Some(r)) if p == r => {}
                (None, _) => {
                    return o.fail(
                        format!("C33:cf-range:kept-where-formula-range-is-#REF!:after={after}"),
                        format!(
                            "after step {step} {op:?}: the range probe of conditional format #{j} is {} (its range lost an endpoint) but the conditional format still applies to {}",
                            um.get_cell_content(AUX, j as i32 + 1, 1).unwrap_or_default(),
                            st.range
                        ),
                    );
                }
                (Some(p), _) => {
                    return o.fail(
                        format!("C33:cf-range:differs:after={after}"),
                        format!(
                            "after step {step} {op:?}: conditional format #{j} has range {} but its range probe shows {} = rows {}..{}, columns {}..{} (before the step: {:?})",
                            st.range,
                            um.get_cell_content(AUX, j as i32 + 1, 1).unwrap_or_default(),
                            p.0,
                            p.2,
                            p.1,
                            p.3,
                            cf_before.get(j).and_then(|s| s.as_ref().map(|s| s.range.clone()))
                        ),
                    );
                }
            }
            // ---- rule formula
            if spec.id == 0 {
                continue;
            }
            if probe_dead[j] {
                o = o.label("formula-probe-not-unique");
                continue;
            }
            let (Some(f), Some(r)) = (&st.formula, rect) else { continue };
            let content = um.get_cell_content(DATA, r.0, r.1).unwrap_or_default();
            // once the probe formula has been *cut* away from the top-left cell of the range on
            // its own, the rule formula has been re-pointed at the cells the probe moved to and is
            // no longer "the formula of the first cell": the comparison ends for this format. (A
            // copy of the probe is still a faithful instance of the rule for the cell it lands
            // on, and row/column edits move range and probe together.)
            let Some(probe_text) = content.strip_prefix('=') else {
                o = o.label("formula-probe-not-at-anchor");
                if matches!(op, Op::CopyPaste { cut: true, .. }) {
                    probe_dead[j] = true;
                }
                continue;
            };
            if !probe_text.contains(&spec.id.to_string()) {
                o = o.label("formula-probe-not-at-anchor");
                if matches!(op, Op::CopyPaste { cut: true, .. }) {
                    probe_dead[j] = true;
                }
                continue;
            }
            let f_text = f.strip_prefix('=').unwrap_or(f);
            if f_text.contains('#') || probe_text.contains('#') {
                // an error literal (a deleted reference): how it is spelled is the printers' business
                o = o.label("formula-with-error-literal");
                continue;
            }
            formula_compared += 1;
            if f_text != probe_text {
                return o.fail(
                    format!("C33:cf-formula:differs:after={after}"),
                    format!(
                        "after step {step} {op:?}: conditional format #{j} on {} has rule formula `{f_text}` but the same formula kept as a cell formula at its top-left cell {} reads `{probe_text}`",
                        st.range,
                        geom2::a1(r.0, r.1)
                    ),
                );
            }
            if let Some(f2) = &st.formula2 {
                let f2_text = f2.strip_prefix('=').unwrap_or(f2);
                o = o.label("second-rule-formula-compared");
                if !f2_text.contains('#') && f2_text != probe_text {
                    return o.fail(
                        format!("C33:cf-formula2:differs:after={after}"),
                        format!(
                            "after step {step} {op:?}: conditional format #{j} on {} (Between) has second formula `{f2_text}` but the same formula kept as a cell formula at its top-left cell {} reads `{probe_text}` (first formula: `{f_text}`)",
                            st.range,
                            geom2::a1(r.0, r.1)
                        ),
                    );
                }
            }
        }
    }
    o = o.label(format!("rule-formula-comparisons:{}", formula_compared.min(9)));
    if nontrivial {
        o = o.nontrivial(serde_json::to_string(case).unwrap_or_default());
    }
    o
}

// ------------------------------------------------------------------------------------------------
// generator

fn dxf() -> Dxf {
    Dxf { fill: Some(Fill { color: Color::from_param("#FF0000").unwrap_or_default() }), ..Default::default() }
}

/// Rule formula text for a conditional format anchored at (`r`, `c`): operators and references
/// only plus SUM (localised), with the unique constant `id`.
fn rule_formula_text(kind: u8, r: i32, c: i32, id: u32, style: &fg::Style) -> String {
    let col = fg::column_name(c);
    let col2 = fg::column_name(c + 1);
    let sum = style.function_name("SUM");
    match kind % 6 {
        0 => format!("{col}{r}>{id}"),
        1 => format!("$A{r}>{id}"),
        2 => format!("{col}$1+{id}>{col}{r}"),
        3 => format!("{sum}(${col}${r}:{col2}{})>{id}", r + 1),
        4 => format!("$B$2+{col2}{}<>{id}", r + 2),
        _ => format!("{sum}({col}{r}:{col}{})<{id}", r + 3),
    }
}

#[derive(Clone, Copy, Debug, PartialEq, Eq)]
pub enum Flavor {
    /// the operations named by the statement
    Main,
    /// plus auto-fill and sheet deletion (confirmation of the findings listed under C01)
    Extras,
}

pub fn history_op(flavor: Flavor) -> BoxedStrategy<Op> {
    let s = 0u8;
    let structural = prop_oneof![
        (1..=ROWS, 1..4i32).prop_map(move |(row, n)| Op::InsertRows { s, row, n }),
        (1..=COLS, 1..4i32).prop_map(move |(col, n)| Op::InsertCols { s, col, n }),
        (1..=ROWS, 1..4i32).prop_map(move |(row, n)| Op::DeleteRows { s, row, n }),
        (1..=COLS, 1..4i32).prop_map(move |(col, n)| Op::DeleteCols { s, col, n }),
        (1..=ROWS, 1..4i32, prop_oneof![1..4i32, (1..4i32).prop_map(|d| -d)]).prop_map(move |(row, n, delta)| Op::MoveRows { s, row, n, delta }),
        (1..=COLS, 1..4i32, prop_oneof![1..4i32, (1..4i32).prop_map(|d| -d)]).prop_map(move |(col, n, delta)| Op::MoveCols { s, col, n, delta }),
    ];
    let area = (1..=ROWS, 1..=COLS, 1..4i32, 1..4i32).prop_map(move |(row, col, w, h)| A { s, row, col, w, h });
    let paste = (area.clone(), 1..=ROWS + 2, 1..=COLS + 2, prop_oneof![3 => Just(true), 2 => Just(false)])
        .prop_map(move |(src, trow, tcol, cut)| Op::CopyPaste { src, ts: s, trow, tcol, cut });
    let clear = area.clone().prop_map(Op::ClearContents);
    match flavor {
        Flavor::Main => prop_oneof![
            10 => structural,
            5 => paste,
            2 => clear,
            4 => Just(Op::Undo),
            2 => Just(Op::Redo),
        ]
        .boxed(),
        Flavor::Extras => prop_oneof![
            3 => structural,
            2 => paste,
            1 => clear,
            4 => (area.clone(), -3..6i32).prop_map(|(a, d)| {
                let to_row = if d >= 0 { a.row + a.h - 1 + d } else { a.row + d };
                Op::AutofillRows { a, to_row }
            }),
            4 => (area, -3..6i32).prop_map(|(a, d)| {
                let to_col = if d >= 0 { a.col + a.w - 1 + d } else { a.col + d };
                Op::AutofillCols { a, to_col }
            }),
            2 => Just(Op::DeleteSheet(0)),
            6 => Just(Op::Undo),
            2 => Just(Op::Redo),
        ]
        .boxed(),
    }
}

pub fn case_strategy(max_len: usize, flavor: Flavor, restricted: Vec<String>) -> BoxedStrategy<Case> {
    let positions: Vec<(i32, i32)> = (1..=ROWS).flat_map(|r| (1..=COLS).map(move |c| (r, c))).collect();
    (
        geom2::config_strategy(),
        Just(positions).prop_shuffle(),
        1..=4usize,
        1..=3usize,
        prop::collection::vec((0..8u8, 0..6u8, 0..4i32, 0..4i32), 3),
        prop::collection::vec((1..=ROWS, 1..=COLS, -50..50i32), 4..12),
        prop::collection::vec(history_op(flavor), 1..=max_len),
    )
        .prop_map(move |((language, locale), pos, k, m, cf_params, fillers, history)| {
            let style = fg::Style::new(&language, &locale).unwrap_or_else(|_| fg::Style::new("en", "en").expect("en"));
            let mut setup: Vec<Op> = vec![Op::RenameSheet(0, "Data".to_string()), Op::NewSheet, Op::RenameSheet(1, "Aux".to_string())];
            let taken: BTreeSet<(i32, i32)> = pos[..k + m].iter().cloned().collect();
            for (r, c, v) in fillers {
                if !taken.contains(&(r, c)) {
                    setup.push(Op::Input { s: 0, row: r, col: c, text: v.to_string() });
                }
            }
            for (i, (r, c)) in pos[..k].iter().enumerate() {
                setup.push(Op::Input { s: 0, row: *r, col: *c, text: format!("L{i}") });
                setup.push(Op::LinkSet {
                    s: 0,
                    row: *r,
                    col: *c,
                    link: Link::External { target: format!("https://example.com/L{i}"), tooltip: None },
                    label: None,
                });
            }
            let mut cfs = vec![];
            for (j, (r, c)) in pos[k..k + m].iter().enumerate() {
                let (kind, fkind, h, w) = cf_params[j];
                let id = 101 + j as u32;
                let range = if h == 0 && w == 0 && kind % 2 == 0 {
                    geom2::a1(*r, *c)
                } else {
                    format!("{}:{}", geom2::a1(*r, *c), geom2::a1(r + h, c + w))
                };
                let (rule, has_formula) = match kind {
                    0..=2 => (
                        CfRuleInput::Formula { formula: rule_formula_text(fkind, *r, *c, id, &style), format: dxf(), stop_if_true: false },
                        true,
                    ),
                    3 => (
                        CfRuleInput::CellIs {
                            operator: ValueOperator::GreaterThan,
                            formula: rule_formula_text(fkind, *r, *c, id, &style),
                            formula2: None,
                            format: dxf(),
                            stop_if_true: false,
                        },
                        true,
                    ),
                    // both bounds hold the same formula: each must follow the cells like the probe
                    4 => (
                        CfRuleInput::CellIs {
                            operator: if fkind % 2 == 0 { ValueOperator::Between } else { ValueOperator::NotBetween },
                            formula: rule_formula_text(fkind, *r, *c, id, &style),
                            formula2: Some(rule_formula_text(fkind, *r, *c, id, &style)),
                            format: dxf(),
                            stop_if_true: false,
                        },
                        true,
                    ),
                    5 => (CfRuleInput::DuplicateValues { format: dxf(), stop_if_true: false }, false),
                    6 => (CfRuleInput::Text { operator: TextOperator::Contains, value: "a".into(), format: dxf(), stop_if_true: false }, false),
                    _ => (CfRuleInput::NotBlanks { format: dxf(), stop_if_true: true }, false),
                };
                setup.push(Op::CfAdd { s: 0, range: range.clone(), rule: Box::new(rule.clone()) });
                // range probe on Aux
                let sum = style.function_name("SUM");
                let abs = format!("${}${}:${}${}", fg::column_name(*c), r, fg::column_name(c + w), r + h);
                setup.push(Op::Input { s: 1, row: j as i32 + 1, col: 1, text: format!("={sum}(Data!{abs})") });
                if has_formula {
                    setup.push(Op::Input { s: 0, row: *r, col: *c, text: format!("={}", rule_formula_text(fkind, *r, *c, id, &style)) });
                }
                cfs.push(CfSpec { id: if has_formula { id } else { 0 } });
            }
            Case { language, locale, setup, links: k as u32, cfs, history, restricted: restricted.clone() }
        })
        .boxed()
}

pub const SWITCHES: [&str; 5] =
    ["c33-delete-cf-endpoint", "c33-move-through-cf-range", "c33-move-reverses-cf-range", "c33-empty-entry-next-to-link", "c16-overlapping-cut"];

pub fn restricted_from(ctx: &Ctx) -> Vec<String> {
    let mut v = vec![];
    for s in SWITCHES {
        if ctx.avoid(s) {
            v.push(s.to_string());
        }
    }
    for k in ["Undo", "Redo", "CopyPaste", "CutPaste", "ClearContents", "AutofillRows", "AutofillCols", "DeleteSheet", "MoveRows", "MoveCols", "InsertRows", "InsertCols", "DeleteRows", "DeleteCols"] {
        let s = format!("c33-no-op:{k}");
        if ctx.avoid(&s) {
            v.push(s);
        }
    }
    v
}

pub fn run(ctx: &Ctx) {
    ctx.set_rule(
        "Two-sheet workbooks with 1-4 hyperlinks on marker cells and 1-3 conditional formats (rule kinds Formula, CellIs, \
         DuplicateValues, Text, NotBlanks; ranges of 1x1..4x4 anywhere in a 10x7 window; rule formulas with relative, mixed and \
         absolute references and ranges) each with a range probe on a second sheet and a formula probe at its top-left cell, in \
         every language/locale; histories of 1..8 (quick) / 1..20 (thorough) row/column insert/delete/move, cut/copy+paste, clear \
         contents, undo, redo; all invariants checked after every step. Non-trivial: at least one step changed the position of a \
         link or the range/formula of a conditional format; distinct by the whole case.",
    );
    ctx.assume("the rule formula is compared only while its formula probe still sits on the range's top-left cell (counted otherwise)");
    ctx.assume("conditional formats added by copy+paste have no probes and are not checked");
    ctx.assume("ranges are compared as normalised rectangles (the engine evaluates `B3:C2` as `B2:C3`)");
    let restricted = restricted_from(ctx);
    let (cases, len) = match ctx.tier {
        Tier::Quick => (60000, 8),
        Tier::Thorough => (1200000, 20),
    };
    let enc = |c: &Case| serde_json::to_value(c).unwrap_or(Value::Null);
    ctx.campaign("histories", cases, || case_strategy(len, Flavor::Main, restricted.clone()), check, enc);
    ctx.campaign("histories-extras", cases / 6, || case_strategy(len.min(6), Flavor::Extras, restricted.clone()), check, enc);
}

pub fn replay(_ctx: &Ctx, _campaign: &str, case: &Value) -> Result<Outcome, String> {
    let c: Case = serde_json::from_value(case.clone()).map_err(|e| e.to_string())?;
    Ok(check(&c))
}
