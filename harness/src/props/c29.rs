//! C29 — Row and column attributes change independently.
//!
//! A random *sorted disjoint* column-descriptor layout (single and multi-column descriptors,
//! hidden, styled, custom width; optionally a tail descriptor reaching the last column) and a
//! random row-descriptor list (distinct rows, any order) are written directly into the public
//! `Workbook` of an empty model. Then 1..N operations from {set size, hide, unhide, set style,
//! delete style} x {row, column} are applied through the `Model` API.
//!
//! Oracle R-attr: a map index -> (latent size, hidden, style). The size getter returns 0 while
//! hidden and the latent size again after unhide (documented: `Worksheet::get_column_width` /
//! `row_height` return 0 for hidden, `get_actual_column_width` "ignoring hidden status"). After
//! every operation all attributes of all observed rows and columns (a window around every
//! descriptor boundary and every op target) are compared with the model; sizes to 1e-9 relative.

use std::collections::{BTreeMap, BTreeSet};

use ironcalc_base::types::{
    Alignment, Border, BorderItem, BorderStyle, Col, Color, Fill, HorizontalAlignment, Row, Style,
};
use ironcalc_base::{Model, COLUMN_WIDTH_FACTOR, ROW_HEIGHT_FACTOR};
use proptest::prelude::*;
use serde::{Deserialize, Serialize};
use serde_json::Value;

use crate::engine::{panics, Ctx, Outcome, Tier};

const DEFAULT_COLUMN_WIDTH: f64 = 90.0;
const DEFAULT_ROW_HEIGHT: f64 = 25.0;
const LAST_COLUMN: i32 = 16_384;
const LAST_ROW: i32 = 1_048_576;

/// Number of palette styles. Palette 0 is the default style.
const PALETTE: u8 = 5;

pub fn palette(i: u8) -> Style {
    let mut s = Style::default();
    match i % PALETTE {
        0 => {}
        1 => s.font.b = true,
        2 => {
            s.fill = Fill { color: Color::Rgb("#FFEE11".to_string()) };
            s.num_fmt = "0.00".to_string();
        }
        3 => {
            s.border = Border {
                left: Some(BorderItem { style: BorderStyle::Thin, color: Color::Rgb("#112233".to_string()) }),
                ..Default::default()
            };
            s.alignment = Some(Alignment { horizontal: HorizontalAlignment::Center, ..Default::default() });
        }
        _ => {
            s.font.color = Color::Theme(4, 0.5);
            s.font.i = true;
            s.num_fmt = "dd/mm/yyyy".to_string();
        }
    }
    s
}

#[derive(Clone, Debug, Serialize, Deserialize, PartialEq)]
pub struct ColD {
    pub min: i32,
    pub max: i32,
    /// width in pixels (stored in the descriptor divided by COLUMN_WIDTH_FACTOR)
    pub width: f64,
    pub custom_width: bool,
    pub hidden: bool,
    /// palette index
    pub style: Option<u8>,
}

#[derive(Clone, Debug, Serialize, Deserialize, PartialEq)]
pub struct RowD {
    pub r: i32,
    /// height in pixels (stored divided by ROW_HEIGHT_FACTOR)
    pub height: f64,
    pub custom_height: bool,
    pub hidden: bool,
    /// palette index; `custom_format` is written as `style is Some and not the default style`
    /// (the invariant the API keeps)
    pub style: Option<u8>,
}

#[derive(Clone, Debug, Serialize, Deserialize, PartialEq)]
pub enum Op {
    ColWidth { c: i32, w: f64 },
    ColHidden { c: i32, h: bool },
    ColStyle { c: i32, s: u8 },
    ColDelStyle { c: i32 },
    RowHeight { r: i32, h: f64 },
    RowHidden { r: i32, h: bool },
    RowStyle { r: i32, s: u8 },
    RowDelStyle { r: i32 },
}

impl Op {
    fn kind(&self) -> &'static str {
        match self {
            Op::ColWidth { .. } => "col-set-width",
            Op::ColHidden { h: true, .. } => "col-hide",
            Op::ColHidden { h: false, .. } => "col-unhide",
            Op::ColStyle { .. } => "col-set-style",
            Op::ColDelStyle { .. } => "col-delete-style",
            Op::RowHeight { .. } => "row-set-height",
            Op::RowHidden { h: true, .. } => "row-hide",
            Op::RowHidden { h: false, .. } => "row-unhide",
            Op::RowStyle { .. } => "row-set-style",
            Op::RowDelStyle { .. } => "row-delete-style",
        }
    }
    fn is_col(&self) -> bool {
        matches!(self, Op::ColWidth { .. } | Op::ColHidden { .. } | Op::ColStyle { .. } | Op::ColDelStyle { .. })
    }
    fn index(&self) -> i32 {
        match self {
            Op::ColWidth { c, .. } | Op::ColHidden { c, .. } | Op::ColStyle { c, .. } | Op::ColDelStyle { c } => *c,
            Op::RowHeight { r, .. } | Op::RowHidden { r, .. } | Op::RowStyle { r, .. } | Op::RowDelStyle { r } => *r,
        }
    }
}

#[derive(Clone, Debug, Serialize, Deserialize, PartialEq)]
pub struct Case {
    pub cols: Vec<ColD>,
    pub rows: Vec<RowD>,
    pub ops: Vec<Op>,
}

/// R-attr entry.
#[derive(Clone, Debug, PartialEq)]
struct Attr {
    latent: f64,
    hidden: bool,
    style: Option<u8>,
}

struct Ref {
    /// initial column descriptors (attributes of columns never touched by an op)
    init: Vec<ColD>,
    /// columns touched by an op
    cols: BTreeMap<i32, Attr>,
    rows: BTreeMap<i32, Attr>,
}

impl Ref {
    fn col(&self, c: i32) -> Attr {
        if let Some(a) = self.cols.get(&c) {
            return a.clone();
        }
        match self.init.iter().find(|d| d.min <= c && c <= d.max) {
            Some(d) => col_attr(d),
            None => Attr { latent: DEFAULT_COLUMN_WIDTH, hidden: false, style: None },
        }
    }
    fn row(&self, r: i32) -> Attr {
        self.rows.get(&r).cloned().unwrap_or(Attr { latent: DEFAULT_ROW_HEIGHT, hidden: false, style: None })
    }
}

fn close(a: f64, b: f64) -> bool {
    if a == b {
        return true;
    }
    (a - b).abs() <= 1e-9 * a.abs().max(b.abs())
}

/// Preconditions of the layout ("any descriptor layout" = what a well-formed file can contain).
fn layout_ok(case: &Case) -> Result<(), String> {
    let mut prev = 0;
    for d in &case.cols {
        if d.min <= prev || d.max < d.min || d.max > LAST_COLUMN {
            return Err(format!("column descriptors not sorted/disjoint/in range at {d:?}"));
        }
        if !(d.width >= 0.0 && d.width.is_finite()) {
            return Err("negative or non-finite width".into());
        }
        prev = d.max;
    }
    let mut seen = BTreeSet::new();
    for r in &case.rows {
        if r.r < 1 || r.r > LAST_ROW || !seen.insert(r.r) {
            return Err(format!("row descriptors not distinct/in range at {r:?}"));
        }
        if !(r.height >= 0.0 && r.height.is_finite()) {
            return Err("negative or non-finite height".into());
        }
    }
    for op in &case.ops {
        let i = op.index();
        let last = if op.is_col() { LAST_COLUMN } else { LAST_ROW };
        if i < 1 || i > last {
            return Err(format!("op index out of range: {op:?}"));
        }
        match op {
            Op::ColWidth { w: x, .. } | Op::RowHeight { h: x, .. } => {
                if !(*x >= 0.0 && x.is_finite()) {
                    return Err("negative or non-finite size".into());
                }
            }
            _ => {}
        }
    }
    Ok(())
}

fn build(case: &Case) -> Result<(Model<'static>, Ref), String> {
    let mut model = Model::new_empty("model", "en", "UTC", "en")?;
    let mut index_of = vec![0i32; PALETTE as usize];
    for i in 1..PALETTE {
        let st = palette(i);
        let styles = &mut model.workbook.styles;
        index_of[i as usize] = match styles.get_style_index(&st) {
            Some(ix) => ix,
            None => styles.create_new_style(&st),
        };
    }
    let mut reference = Ref { init: case.cols.clone(), cols: BTreeMap::new(), rows: BTreeMap::new() };
    let ws = &mut model.workbook.worksheets[0];
    ws.cols.clear();
    ws.rows.clear();
    for d in &case.cols {
        ws.cols.push(Col {
            min: d.min,
            max: d.max,
            width: d.width / COLUMN_WIDTH_FACTOR,
            custom_width: d.custom_width,
            hidden: d.hidden,
            style: d.style.map(|p| index_of[(p % PALETTE) as usize]),
        });
    }
    for r in &case.rows {
        let s = r.style.map(|p| index_of[(p % PALETTE) as usize]).unwrap_or(0);
        ws.rows.push(Row {
            r: r.r,
            height: r.height / ROW_HEIGHT_FACTOR,
            custom_format: s != 0,
            custom_height: r.custom_height,
            s,
            hidden: r.hidden,
        });
        reference.rows.insert(
            r.r,
            Attr { latent: r.height, hidden: r.hidden, style: r.style.map(|p| p % PALETTE) },
        );
    }
    Ok((model, reference))
}

/// Columns observed: every column of short descriptors, a window of 2 around every descriptor
/// boundary, and a window of 1 around every column targeted by an op. Rows likewise.
fn observed(case: &Case) -> (Vec<i32>, Vec<i32>) {
    let mut cols = BTreeSet::new();
    let mut rows = BTreeSet::new();
    let put = |set: &mut BTreeSet<i32>, lo: i32, hi: i32, last: i32| {
        for i in lo.max(1)..=hi.min(last) {
            set.insert(i);
        }
    };
    for d in &case.cols {
        if d.max - d.min <= 40 {
            put(&mut cols, d.min - 2, d.max + 2, LAST_COLUMN);
        } else {
            put(&mut cols, d.min - 2, d.min + 2, LAST_COLUMN);
            put(&mut cols, d.max - 2, d.max + 2, LAST_COLUMN);
            let mid = d.min + (d.max - d.min) / 2;
            put(&mut cols, mid, mid, LAST_COLUMN);
        }
    }
    for r in &case.rows {
        put(&mut rows, r.r - 1, r.r + 1, LAST_ROW);
    }
    for op in &case.ops {
        let i = op.index();
        if op.is_col() {
            put(&mut cols, i - 1, i + 1, LAST_COLUMN);
        } else {
            put(&mut rows, i - 1, i + 1, LAST_ROW);
        }
    }
    put(&mut cols, 1, 1, LAST_COLUMN);
    put(&mut rows, 1, 1, LAST_ROW);
    (cols.into_iter().collect(), rows.into_iter().collect())
}

/// Compare the engine with the reference; returns the list of differing aspects
/// `(axis, index, aspect, expected, got)`.
fn compare(model: &Model, reference: &Ref, cols: &[i32], rows: &[i32]) -> Vec<(char, i32, &'static str, String, String)> {
    let mut d = vec![];
    let default = Style::default();
    let ws = match model.workbook.worksheet(0) {
        Ok(w) => w,
        Err(e) => {
            d.push(('c', 0, "sheet", "sheet 0".to_string(), e));
            return d;
        }
    };
    for &c in cols {
        let e = reference.col(c);
        let visible = if e.hidden { 0.0 } else { e.latent };
        match model.get_column_width(0, c) {
            Ok(w) if close(w, visible) => {}
            other => d.push(('c', c, "size", format!("{visible}"), format!("{other:?}"))),
        }
        match ws.get_actual_column_width(c) {
            Ok(w) if close(w, e.latent) => {}
            other => d.push(('c', c, "actual", format!("{}", e.latent), format!("{other:?}"))),
        }
        match model.is_column_hidden(0, c) {
            Ok(h) if h == e.hidden => {}
            other => d.push(('c', c, "hidden", format!("{}", e.hidden), format!("{other:?}"))),
        }
        let es = e.style.map(palette);
        match model.get_column_style(0, c) {
            Ok(s) if s == es => {}
            other => d.push(('c', c, "style", format!("{es:?}"), format!("{other:?}"))),
        }
    }
    for &r in rows {
        let e = reference.row(r);
        let visible = if e.hidden { 0.0 } else { e.latent };
        match model.get_row_height(0, r) {
            Ok(h) if close(h, visible) => {}
            other => d.push(('r', r, "size", format!("{visible}"), format!("{other:?}"))),
        }
        match model.is_row_hidden(0, r) {
            Ok(h) if h == e.hidden => {}
            other => d.push(('r', r, "hidden", format!("{}", e.hidden), format!("{other:?}"))),
        }
        // `get_row_style` answers Some(default style) for a row that has a descriptor but no
        // style and None for a row without descriptor: both mean "no style of its own".
        let es = e.style.map(palette).unwrap_or_else(|| default.clone());
        match model.get_row_style(0, r) {
            Ok(s) if s.clone().unwrap_or_else(|| default.clone()) == es => {}
            other => d.push(('r', r, "style", format!("{es:?}"), format!("{other:?}"))),
        }
    }
    d
}

/// Class of the descriptor covering the target *in the engine* just before the op.
fn target_class(model: &Model, op: &Op) -> (String, bool, bool) {
    // (class text, multi, hidden)
    let ws = &model.workbook.worksheets[0];
    let i = op.index();
    if op.is_col() {
        for c in &ws.cols {
            if c.min <= i && i <= c.max {
                let multi = c.max > c.min;
                let mut s = if multi { "multi".to_string() } else { "single".to_string() };
                if c.hidden {
                    s.push_str(",hidden");
                }
                return (s, multi, c.hidden);
            }
        }
    } else {
        for r in &ws.rows {
            if r.r == i {
                let mut s = "single".to_string();
                if r.hidden {
                    s.push_str(",hidden");
                }
                return (s, false, r.hidden);
            }
        }
    }
    ("none".to_string(), false, false)
}

pub fn check_with(case: &Case, avoid: &Avoid) -> Outcome {
    let mut o = Outcome::pass();
    if let Err(e) = layout_ok(case) {
        return o.label(format!("invalid-case:{e}"));
    }
    let (mut model, mut reference) = match build(case) {
        Ok(x) => x,
        Err(e) => return o.fail("C29:setup", e),
    };
    let (cols, rows) = observed(case);
    let d0 = compare(&model, &reference, &cols, &rows);
    if let Some(x) = d0.first() {
        return o.fail(
            "C29:initial-layout-misread",
            format!("before any op: {}{} {}: expected {}, got {}", x.0, x.1, x.2, x.3, x.4),
        );
    }
    let mut nontrivial = false;
    for (k, op) in case.ops.iter().enumerate() {
        let (class, multi, hidden) = target_class(&model, op);
        // steer away from listed findings (exclusion by construction, counted)
        let before = if op.is_col() { reference.col(op.index()) } else { reference.row(op.index()) };
        let skip = match op {
            Op::ColStyle { s, .. } => {
                (avoid.style_in_range && multi && before.style != Some(*s % PALETTE))
                    || (avoid.style_hidden && hidden && before.latent != 0.0)
            }
            Op::ColDelStyle { .. } => avoid.delstyle_hidden && hidden,
            _ => false,
        };
        if skip {
            o.excluded += 1;
            o = o.label(format!("excluded:{}:{}", op.kind(), class));
            continue;
        }
        let i = op.index();
        let res = panics::catch(|| match op {
            Op::ColWidth { c, w } => model.set_column_width(0, *c, *w),
            Op::ColHidden { c, h } => model.set_column_hidden(0, *c, *h),
            Op::ColStyle { c, s } => model.set_column_style(0, *c, &palette(*s)),
            Op::ColDelStyle { c } => model.delete_column_style(0, *c),
            Op::RowHeight { r, h } => model.set_row_height(0, *r, *h),
            Op::RowHidden { r, h } => model.set_row_hidden(0, *r, *h),
            Op::RowStyle { r, s } => model.set_row_style(0, *r, &palette(*s)),
            Op::RowDelStyle { r } => model.delete_row_style(0, *r),
        });
        match res {
            Err(p) => {
                return o.fail(
                    format!("C29:{}:{}:{}", op.kind(), class, p.class()),
                    format!("op #{k} {op:?} panicked: {}", p.describe()),
                );
            }
            Ok(Err(e)) => {
                return o.fail(
                    format!("C29:{}:{}:returns-error", op.kind(), class),
                    format!("op #{k} {op:?} on a valid index returned Err({e})"),
                );
            }
            Ok(Ok(())) => {}
        }
        // reference update: exactly one attribute of exactly one index
        {
            let map = if op.is_col() { &mut reference.cols } else { &mut reference.rows };
            let mut a = before.clone();
            match op {
                Op::ColWidth { w: x, .. } | Op::RowHeight { h: x, .. } => a.latent = *x,
                Op::ColHidden { h, .. } | Op::RowHidden { h, .. } => a.hidden = *h,
                Op::ColStyle { s, .. } | Op::RowStyle { s, .. } => a.style = Some(*s % PALETTE),
                Op::ColDelStyle { .. } | Op::RowDelStyle { .. } => a.style = None,
            }
            map.insert(i, a);
        }
        o = o.label(format!("op:{}:{}", op.kind(), class));
        if multi || hidden {
            nontrivial = true;
        }
        let d = compare(&model, &reference, &cols, &rows);
        if !d.is_empty() {
            let axis = if op.is_col() { 'c' } else { 'r' };
            let mut aspects: BTreeSet<String> = BTreeSet::new();
            for x in &d {
                let who = if x.0 == axis && x.1 == i {
                    "target"
                } else if x.0 == axis {
                    "other"
                } else {
                    "other-axis"
                };
                // the visible size of a column is derived from (hidden, actual width): do not
                // repeat it in the root-cause class when one of those already differs
                if x.2 == "size"
                    && x.0 == 'c'
                    && d.iter().any(|y| y.0 == x.0 && y.1 == x.1 && (y.2 == "hidden" || y.2 == "actual"))
                {
                    continue;
                }
                aspects.insert(format!("{who}.{}", x.2));
            }
            let aspects: Vec<String> = aspects.into_iter().collect();
            let mut detail = format!(
                "op #{k} {op:?} (target descriptor before the op: {class}; reference before: {before:?}) left:\n"
            );
            for x in d.iter().take(10) {
                detail.push_str(&format!(
                    "  {} {} {}: expected {}, got {}\n",
                    if x.0 == 'c' { "column" } else { "row" },
                    x.1,
                    x.2,
                    x.3,
                    x.4
                ));
            }
            detail.push_str(&format!("cols now: {:?}\n", model.workbook.worksheets[0].cols));
            return o.fail(format!("C29:{}:{}:{}", op.kind(), class, aspects.join(",")), detail);
        }
    }
    if nontrivial {
        o = o.nontrivial(serde_json::to_string(case).unwrap_or_default());
    }
    o
}

fn col_attr(d: &ColD) -> Attr {
    Attr {
        // a descriptor without `custom_width` has the default width whatever `width` says
        latent: if d.custom_width { d.width } else { DEFAULT_COLUMN_WIDTH },
        hidden: d.hidden,
        style: d.style.map(|p| p % PALETTE),
    }
}

/// Avoidance switches of listed findings.
#[derive(Clone, Copy, Debug, Default)]
pub struct Avoid {
    pub style_in_range: bool,
    pub style_hidden: bool,
    pub delstyle_hidden: bool,
}

impl Avoid {
    fn from_ctx(ctx: &Ctx) -> Avoid {
        if ctx.strict {
            return Avoid::default();
        }
        Avoid {
            style_in_range: ctx.avoid("c29-col-style-in-multi-descriptor"),
            style_hidden: ctx.avoid("c29-col-style-on-hidden"),
            delstyle_hidden: ctx.avoid("c29-col-delete-style-on-hidden"),
        }
    }
}

// ---------------------------------------------------------------- generators

fn size_strategy(default: f64) -> impl Strategy<Value = f64> {
    prop_oneof![
        2 => Just(default),
        1 => Just(0.0),
        3 => (1u32..400).prop_map(|n| n as f64),
        2 => (1u32..4000).prop_map(|n| n as f64 / 8.0),
        1 => (1u32..100000).prop_map(|n| n as f64 / 997.0),
    ]
}

fn style_opt() -> impl Strategy<Value = Option<u8>> {
    prop_oneof![2 => Just(None), 3 => (0..PALETTE).prop_map(Some)]
}

/// Sorted disjoint descriptors from (gap, length, attributes) segments.
fn cols_strategy() -> impl Strategy<Value = Vec<ColD>> {
    let seg = (
        0i32..=2,
        prop_oneof![3 => Just(1i32), 2 => Just(2), 2 => Just(3), 1 => Just(5)],
        size_strategy(DEFAULT_COLUMN_WIDTH),
        prop::bool::weighted(0.75),
        prop::bool::weighted(0.35),
        style_opt(),
    );
    (prop::collection::vec(seg, 0..=8), prop_oneof![3 => Just(0u8), 1 => Just(1), 1 => Just(2)]).prop_map(
        |(segs, tail)| {
            let mut out: Vec<ColD> = vec![];
            let mut next = 1;
            for (gap, len, width, custom_width, hidden, style) in segs {
                let min = next + gap;
                let max = min + len - 1;
                next = max + 1;
                out.push(ColD { min, max, width, custom_width, hidden, style });
            }
            // tail 1: the last descriptor reaches the last column (as files written by some
            // producers have); tail 2: a separate far descriptor
            match tail {
                1 => {
                    if let Some(l) = out.last_mut() {
                        l.max = LAST_COLUMN;
                    }
                }
                2 => {
                    if let Some(l) = out.last().cloned() {
                        out.push(ColD { min: LAST_COLUMN - 2, max: LAST_COLUMN, ..l });
                    }
                }
                _ => {}
            }
            out
        },
    )
}

fn rows_strategy() -> impl Strategy<Value = Vec<RowD>> {
    let row = (
        prop_oneof![8 => 1i32..=12, 1 => Just(LAST_ROW), 1 => Just(LAST_ROW - 1)],
        size_strategy(DEFAULT_ROW_HEIGHT),
        prop::bool::weighted(0.7),
        prop::bool::weighted(0.35),
        style_opt(),
    );
    prop::collection::vec(row, 0..=6).prop_map(|v| {
        let mut seen = BTreeSet::new();
        v.into_iter()
            .filter(|x| seen.insert(x.0))
            .map(|(r, height, custom_height, hidden, style)| RowD { r, height, custom_height, hidden, style })
            .collect()
    })
}

fn col_index() -> impl Strategy<Value = i32> {
    prop_oneof![12 => 1i32..=20, 1 => Just(LAST_COLUMN), 1 => Just(LAST_COLUMN - 1), 1 => Just(LAST_COLUMN - 3), 1 => Just(8000)]
}

fn row_index() -> impl Strategy<Value = i32> {
    prop_oneof![10 => 1i32..=13, 1 => Just(LAST_ROW), 1 => Just(LAST_ROW - 1)]
}

fn op_strategy() -> impl Strategy<Value = Op> {
    prop_oneof![
        3 => (col_index(), size_strategy(DEFAULT_COLUMN_WIDTH)).prop_map(|(c, w)| Op::ColWidth { c, w }),
        2 => col_index().prop_map(|c| Op::ColHidden { c, h: true }),
        2 => col_index().prop_map(|c| Op::ColHidden { c, h: false }),
        3 => (col_index(), 0..PALETTE).prop_map(|(c, s)| Op::ColStyle { c, s }),
        2 => col_index().prop_map(|c| Op::ColDelStyle { c }),
        2 => (row_index(), size_strategy(DEFAULT_ROW_HEIGHT)).prop_map(|(r, h)| Op::RowHeight { r, h }),
        1 => row_index().prop_map(|r| Op::RowHidden { r, h: true }),
        1 => row_index().prop_map(|r| Op::RowHidden { r, h: false }),
        2 => (row_index(), 0..PALETTE).prop_map(|(r, s)| Op::RowStyle { r, s }),
        1 => row_index().prop_map(|r| Op::RowDelStyle { r }),
    ]
}

pub fn case_strategy(max_ops: usize) -> impl Strategy<Value = Case> {
    (cols_strategy(), rows_strategy(), prop::collection::vec(op_strategy(), 1..=max_ops))
        .prop_map(|(cols, rows, ops)| Case { cols, rows, ops })
}

pub fn run(ctx: &Ctx) {
    ctx.set_rule(
        "Layout: 0..8 sorted disjoint column descriptors of length 1/2/3/5 with gaps 0..2 starting at \
         column 1 (random width, custom_width, hidden, style from a 5-style palette incl. the default \
         style), optionally extended to / followed by a descriptor at the last column; 0..6 distinct \
         row descriptors (rows 1..12 and the last rows, any order), written directly into the workbook. \
         Then 1..25 (quick) / 1..40 (thorough) ops from {set size, hide, unhide, set style, delete style} \
         x {row, column} on indices 1..20 / the last columns / rows 1..13 / the last rows. After every op \
         size, actual (latent) width, hidden flag and style of every observed row/column (all columns of \
         descriptors up to 40 wide, +-2 around every descriptor boundary, +-1 around every op target) \
         are compared with the reference map. Non-trivial: at least one executed (not excluded) op \
         targeted a column inside a multi-column descriptor or a hidden row/column; distinct by case.",
    );
    ctx.assume("indices are valid (1..=16384 / 1..=1048576) and sizes finite and non-negative; invalid arguments are C04's subject");
    ctx.assume("sizes are compared to 1e-9 relative (stored divided by a constant factor and multiplied back)");
    ctx.assume("a row's style is compared up to None == Some(default style): get_row_style answers Some(default) for any row that has a descriptor");
    ctx.assume("initial row descriptors satisfy custom_format == (style index != 0), the invariant every API setter keeps; a column descriptor without custom_width has the default width");
    ctx.assume("the latent height of a hidden row is only observed when the row is unhidden (no getter ignores the hidden flag for rows); for columns Worksheet::get_actual_column_width is compared after every op");
    let avoid = Avoid::from_ctx(ctx);
    let (cases, len) = match ctx.tier {
        Tier::Quick => (250_000u64, 25usize),
        Tier::Thorough => (6_000_000, 40),
    };
    let enc = |c: &Case| serde_json::to_value(c).unwrap_or(Value::Null);
    ctx.campaign("attr-histories", cases, || case_strategy(len), |c| check_with(c, &avoid), enc);
}

pub fn replay(ctx: &Ctx, _campaign: &str, case: &Value) -> Result<Outcome, String> {
    let c: Case = serde_json::from_value(case.clone()).map_err(|e| e.to_string())?;
    Ok(check_with(&c, &Avoid::from_ctx(ctx)))
}
