//! C22 — Cell-reference and sheet-name codecs are bijective.
//!
//! Three parts:
//!  1. column codec: `number_to_column` / `column_to_number` / `is_valid_column` against an
//!     independent bijective base-26 reference, exhaustively over all 16 384 columns and all
//!     letter strings of length <= 4, plus invalid inputs;
//!  2. cell / range addresses: text in A1 form (written by an independent printer) is parsed by
//!     the real `Parser`, compared with the independently computed expected node (coordinates,
//!     flags, sheet), printed by the engine in A1 (`to_localized_string`, `to_excel_string`) and
//!     R1C1 (`to_rc_format`) and parsed back in both modes: same node, same text;
//!  3. sheet names: bounded-exhaustive over a tricky alphabet (plus look-alike names, function
//!     names and booleans of every language, and random longer names), filtered by the engine's
//!     own `add_sheet`; `quote_name(N)!A1` must parse (A1 and R1C1) to a reference to exactly
//!     sheet `N`, display back identically, evaluate to `N!A1`'s value and survive
//!     `to_bytes`/`from_bytes`.

use std::collections::{BTreeSet, HashMap};

use ironcalc_base::cell::CellValue;
use ironcalc_base::expressions::lexer::LexerMode;
use ironcalc_base::expressions::parser::stringify::{
    to_excel_string, to_localized_string, to_rc_format,
};
use ironcalc_base::expressions::parser::{Node, Parser};
use ironcalc_base::expressions::types::CellReferenceRC;
use ironcalc_base::expressions::utils::{
    column_to_number, is_valid_column, number_to_column, parse_reference_a1, parse_reference_r1c1,
    quote_name,
};
use ironcalc_base::language::get_language;
use ironcalc_base::locale::get_locale;
use ironcalc_base::{Function, Model};
use proptest::prelude::*;
use serde::{Deserialize, Serialize};
use serde_json::{json, Value};

use crate::engine::{panics, Ctx, Outcome, Tier};

/// Grid size, from the property statement ("all 16,384 columns, all rows").
const LAST_COLUMN: i64 = 16_384;
const LAST_ROW: i64 = 1_048_576;

// ---------------------------------------------------------------------------------------------
// Part 1: column codec
// ---------------------------------------------------------------------------------------------

/// Reference: bijective base 26 (A=1 .. Z=26, AA=27 ..), independent of the engine.
fn ref_letters(mut n: i64) -> String {
    let mut out = vec![];
    while n > 0 {
        let r = (n - 1) % 26;
        out.push(b'A' + r as u8);
        n = (n - 1) / 26;
    }
    out.reverse();
    String::from_utf8(out).unwrap_or_default()
}

/// Reference value of a non-empty string over A-Z (None otherwise). i128: no overflow for the
/// lengths used here.
fn ref_number(s: &str) -> Option<i128> {
    if s.is_empty() {
        return None;
    }
    let mut n: i128 = 0;
    for b in s.bytes() {
        if !b.is_ascii_uppercase() {
            return None;
        }
        n = n.checked_mul(26)?.checked_add((b - b'A') as i128 + 1)?;
    }
    Some(n)
}

fn check_column_number(n: i64) -> Outcome {
    let o = Outcome::pass().nontrivial(n.to_string()).label("column-number");
    let want = ref_letters(n);
    let r = panics::catch(|| -> Result<(), (String, String)> {
        let got = number_to_column(n as i32);
        if got.as_deref() != Some(want.as_str()) {
            return Err((
                "number_to_column:wrong-letters".into(),
                format!("number_to_column({n}) = {got:?}, reference {want:?}"),
            ));
        }
        let back = column_to_number(&want);
        if back != Ok(n as i32) {
            return Err((
                "column_to_number:wrong-number".into(),
                format!("column_to_number({want:?}) = {back:?}, reference {n}"),
            ));
        }
        if !is_valid_column(&want) {
            return Err((
                "is_valid_column:rejects-valid".into(),
                format!("is_valid_column({want:?}) is false for column {n}"),
            ));
        }
        Ok(())
    });
    match r {
        Ok(Ok(())) => o,
        Ok(Err((s, d))) => o.fail(format!("C22:{s}"), d),
        Err(p) => o.fail(format!("C22:column:{}", p.class()), format!("column {n}: {}", p.describe())),
    }
}

/// Does evaluating the string as a column overflow 32-bit arithmetic (listed finding)?
fn column_overflows_i32(s: &str) -> bool {
    match ref_number(s) {
        Some(n) => n > i32::MAX as i128,
        None => s.bytes().all(|b| b.is_ascii_uppercase()) && !s.is_empty(),
    }
}

const AVOID_COLUMN_OVERFLOW: &str = "c22:column-overflow";

/// Is the avoidance switch of a listed finding on? Never while replaying a saved case in strict
/// mode (the replay of a listed finding must reach the engine).
fn avoiding(ctx: &Ctx, switch: &str) -> bool {
    !ctx.strict && ctx.avoid(switch)
}

/// Any string: the engine must agree with the reference on validity and value.
fn check_column_string(ctx: &Ctx, s: &str) -> Outcome {
    let mut o = Outcome::pass().nontrivial(s.to_string());
    let want = ref_number(s).filter(|n| (1..=LAST_COLUMN as i128).contains(n));
    o = o.label(if want.is_some() { "column-string:valid" } else { "column-string:invalid" });
    let overflow = column_overflows_i32(s);
    if overflow && avoiding(ctx, AVOID_COLUMN_OVERFLOW) {
        o.excluded += 1;
        return o.label("excluded:column-overflow");
    }
    let r = panics::catch(|| -> Result<(), (String, String)> {
        let got = column_to_number(s);
        match (&got, want) {
            (Ok(g), Some(w)) if *g as i128 == w => {}
            (Err(_), None) => {}
            _ => {
                return Err((
                    "column_to_number:disagrees-with-reference".into(),
                    format!("column_to_number({s:?}) = {got:?}, reference {want:?}"),
                ))
            }
        }
        let valid = is_valid_column(s);
        if valid != want.is_some() {
            return Err((
                "is_valid_column:disagrees-with-reference".into(),
                format!("is_valid_column({s:?}) = {valid}, reference {want:?}"),
            ));
        }
        if let Some(w) = want {
            let back = number_to_column(w as i32);
            if back.as_deref() != Some(s) {
                return Err((
                    "number_to_column:not-inverse".into(),
                    format!("number_to_column({w}) = {back:?}, expected {s:?}"),
                ));
            }
        }
        Ok(())
    });
    match r {
        Ok(Ok(())) => o,
        Ok(Err((sg, d))) => {
            if overflow {
                o.fail("C22:column_to_number:i32-overflow", d)
            } else {
                o.fail(format!("C22:{sg}"), d)
            }
        }
        Err(p) => {
            if overflow {
                o.fail("C22:column_to_number:i32-overflow", format!("{s:?}: {}", p.describe()))
            } else {
                o.fail(format!("C22:column:{}", p.class()), format!("{s:?}: {}", p.describe()))
            }
        }
    }
}

fn check_column_out_of_range(n: i64) -> Outcome {
    let o = Outcome::pass().nontrivial(n.to_string()).label("column-number:out-of-range");
    match panics::catch(|| number_to_column(n as i32)) {
        Ok(None) => o,
        Ok(Some(s)) => o.fail(
            "C22:number_to_column:accepts-out-of-range",
            format!("number_to_column({n}) = {s:?}"),
        ),
        Err(p) => o.fail(format!("C22:column:{}", p.class()), format!("{n}: {}", p.describe())),
    }
}

fn all_letter_strings(max_len: usize) -> Vec<String> {
    let mut out: Vec<String> = vec![];
    let mut level: Vec<String> = vec![String::new()];
    for _ in 0..max_len {
        let mut next = Vec::with_capacity(level.len() * 26);
        for p in &level {
            for c in b'A'..=b'Z' {
                let mut s = p.clone();
                s.push(c as char);
                next.push(s);
            }
        }
        out.extend(next.iter().cloned());
        level = next;
    }
    out
}

fn invalid_column_strings() -> Vec<String> {
    let mut v: Vec<String> = [
        "", "a", "z", "aa", "xfd", "Aa", "aA", "A1", "1", "1A", "$A", "A$", " A", "A ", "A.", "_",
        "Á", "É", "Ａ", "А" /* Cyrillic */, "A\u{0}", "A:A", "XFE", "XFDA", "ZZZ", "AAAA", "ZZZZZ",
        "AAAAAA", "ZZZZZZ",
    ]
    .iter()
    .map(|s| s.to_string())
    .collect();
    // long strings: 7 letters and more can exceed 32-bit arithmetic
    for len in 5..=12usize {
        for c in [b'A', b'F', b'G', b'M', b'Z'] {
            v.push(String::from_utf8(vec![c; len]).unwrap_or_default());
        }
    }
    v.push("ZQQQQQYZ".to_string());
    v.push("FXSHRXW".to_string()); // 2^31 - 1 exactly: the largest value that still fits
    v.push("FXSHRXX".to_string()); // 2^31
    v.push("MWLQKWW".to_string()); // 2^32 + 1: wraps to column 1 without overflow checks
    v.push("MWLRJCZ".to_string()); // 2^32 + 16384: wraps to the last column
    v
}

// ---------------------------------------------------------------------------------------------
// Part 2: cell and range addresses
// ---------------------------------------------------------------------------------------------

/// Worksheets known to the parser in the address campaigns; the context cell is on the first.
const SHEETS: [&str; 4] = ["Sheet1", "Other", "My Sheet", "O'Neil"];

#[derive(Clone, Copy, Debug, PartialEq, Eq, Serialize, Deserialize)]
pub struct Corner {
    pub col: i64,
    pub row: i64,
    pub abs_col: bool,
    pub abs_row: bool,
}

#[derive(Clone, Copy, Debug, PartialEq, Eq, Serialize, Deserialize)]
pub enum Shape {
    /// `A1`
    Cell,
    /// `A1:B2` (first corner <= second corner in both coordinates)
    Range,
    /// `A:B` (rows of the corners ignored)
    Columns,
    /// `1:2` (columns of the corners ignored)
    Rows,
}

#[derive(Clone, Debug, PartialEq, Eq, Serialize, Deserialize)]
pub struct AddrCase {
    pub shape: Shape,
    /// index into SHEETS; None = unqualified
    pub sheet: Option<usize>,
    pub a: Corner,
    pub b: Corner,
    pub ctx_row: i64,
    pub ctx_col: i64,
}

fn a1_corner(c: &Corner, with_col: bool, with_row: bool) -> String {
    let mut s = String::new();
    if with_col {
        if c.abs_col {
            s.push('$');
        }
        s.push_str(&ref_letters(c.col));
    }
    if with_row {
        if c.abs_row {
            s.push('$');
        }
        s.push_str(&c.row.to_string());
    }
    s
}

/// Reference quoting of the fixed sheet names (independent of `quote_name`; these four names are
/// unambiguous: a space or an apostrophe needs quotes, apostrophes are doubled).
fn ref_sheet_prefix(sheet: Option<usize>) -> String {
    match sheet {
        None => String::new(),
        Some(i) => {
            let n = SHEETS[i];
            if n.contains(' ') || n.contains('\'') {
                format!("'{}'!", n.replace('\'', "''"))
            } else {
                format!("{n}!")
            }
        }
    }
}

impl AddrCase {
    /// Canonical A1 text of the address.
    fn a1_text(&self) -> String {
        let p = ref_sheet_prefix(self.sheet);
        match self.shape {
            Shape::Cell => format!("{p}{}", a1_corner(&self.a, true, true)),
            Shape::Range => format!(
                "{p}{}:{}",
                a1_corner(&self.a, true, true),
                a1_corner(&self.b, true, true)
            ),
            Shape::Columns => format!(
                "{p}{}:{}",
                a1_corner(&self.a, true, false),
                a1_corner(&self.b, true, false)
            ),
            Shape::Rows => format!(
                "{p}{}:{}",
                a1_corner(&self.a, false, true),
                a1_corner(&self.b, false, true)
            ),
        }
    }

    /// The two corners as the documented internal representation has them: open ranges are
    /// normal ranges whose missing coordinate is absolute 1..=LAST.
    fn corners(&self) -> (Corner, Corner) {
        let (mut a, mut b) = (self.a, self.b);
        match self.shape {
            Shape::Cell | Shape::Range => {}
            Shape::Columns => {
                a.row = 1;
                a.abs_row = true;
                b.row = LAST_ROW;
                b.abs_row = true;
            }
            Shape::Rows => {
                a.col = 1;
                a.abs_col = true;
                b.col = LAST_COLUMN;
                b.abs_col = true;
            }
        }
        (a, b)
    }

    /// Expected node: relative coordinates are stored as offsets from the context cell.
    fn expected_node(&self) -> Node {
        let sheet_name = self.sheet.map(|i| SHEETS[i].to_string());
        let sheet_index = self.sheet.unwrap_or(0) as u32;
        let rel = |c: &Corner| -> (i32, i32) {
            (
                (if c.abs_row { c.row } else { c.row - self.ctx_row }) as i32,
                (if c.abs_col { c.col } else { c.col - self.ctx_col }) as i32,
            )
        };
        let (a, b) = self.corners();
        if self.shape == Shape::Cell {
            let (row, column) = rel(&a);
            return Node::ReferenceKind {
                sheet_name,
                sheet_index,
                absolute_row: a.abs_row,
                absolute_column: a.abs_col,
                row,
                column,
            };
        }
        let (row1, column1) = rel(&a);
        let (row2, column2) = rel(&b);
        Node::RangeKind {
            sheet_name,
            sheet_index,
            absolute_row1: a.abs_row,
            absolute_column1: a.abs_col,
            row1,
            column1,
            absolute_row2: b.abs_row,
            absolute_column2: b.abs_col,
            row2,
            column2,
        }
    }

    /// The engine prints a range whose rows (columns) are absolute 1..=LAST as an open range.
    /// When a `Range` case happens to have that form its canonical text is the open form, so
    /// text identity is only asserted for the others.
    fn prints_as_written(&self) -> bool {
        if self.is_whole_sheet_absolute() {
            // one node, three spellings ($A:$XFD, $1:$1048576, $A$1:$XFD$1048576): any is fine
            return false;
        }
        if self.shape != Shape::Range {
            return true;
        }
        let (a, b) = (self.a, self.b);
        let full_rows = a.abs_row && b.abs_row && a.row == 1 && b.row == LAST_ROW;
        let full_cols = a.abs_col && b.abs_col && a.col == 1 && b.col == LAST_COLUMN;
        !(full_rows || full_cols)
    }

    /// Trigger of the listed finding "the whole sheet with every coordinate absolute prints as
    /// ':'": both the row span and the column span are absolute and complete.
    fn is_whole_sheet_absolute(&self) -> bool {
        if self.shape == Shape::Cell {
            return false;
        }
        let (a, b) = self.corners();
        a.abs_row && b.abs_row && a.row == 1 && b.row == LAST_ROW
            && a.abs_col && b.abs_col && a.col == 1 && b.col == LAST_COLUMN
    }

    fn well_formed(&self) -> bool {
        let inside = |c: &Corner| (1..=LAST_COLUMN).contains(&c.col) && (1..=LAST_ROW).contains(&c.row);
        inside(&self.a)
            && inside(&self.b)
            && (1..=LAST_ROW).contains(&self.ctx_row)
            && (1..=LAST_COLUMN).contains(&self.ctx_col)
            && self.sheet.map(|i| i < SHEETS.len()).unwrap_or(true)
            && (self.shape == Shape::Cell
                || ((self.shape == Shape::Rows || self.a.col <= self.b.col)
                    && (self.shape == Shape::Columns || self.a.row <= self.b.row)))
    }
}

const AVOID_WHOLE_SHEET: &str = "c22:whole-sheet-absolute-range";

fn addr_parser() -> Parser<'static> {
    let locale = get_locale("en").expect("locale en");
    let language = get_language("en").expect("language en");
    Parser::new(
        SHEETS.iter().map(|s| s.to_string()).collect(),
        vec![],
        HashMap::new(),
        locale,
        language,
    )
}

fn check_address(ctx: &Ctx, c: &AddrCase) -> Outcome {
    let mut o = Outcome::pass()
        .label(format!("shape={:?}", c.shape))
        .label(if c.sheet.is_some() { "sheet=qualified" } else { "sheet=none" });
    if !c.well_formed() {
        return o.label("malformed-case");
    }
    if c.is_whole_sheet_absolute() && avoiding(ctx, AVOID_WHOLE_SHEET) {
        o.excluded += 1;
        return o.label("excluded:whole-sheet-absolute");
    }
    o = o.nontrivial(serde_json::to_string(c).unwrap_or_default());
    let text = c.a1_text();
    let context = CellReferenceRC { sheet: SHEETS[0].to_string(), row: c.ctx_row as i32, column: c.ctx_col as i32 };
    let sig = |leg: &str| {
        if c.is_whole_sheet_absolute() {
            "C22:range:whole-sheet-absolute-prints-empty".to_string()
        } else {
            format!("C22:address:{leg}:shape={:?}", c.shape)
        }
    };
    let r = panics::catch(|| -> Result<(), (String, String)> {
        let locale = get_locale("en").expect("locale en");
        let language = get_language("en").expect("language en");
        let mut parser = addr_parser();
        // A1 text -> node, against the independently computed expectation
        let node = parser.parse(&text, &context);
        let expected = c.expected_node();
        if node != expected {
            return Err((
                sig("a1-parse"),
                format!("{text:?} at row {} column {} parses to {node:?}, expected {expected:?}", c.ctx_row, c.ctx_col),
            ));
        }
        // node -> A1 text -> node
        let shown = to_localized_string(&node, &context, locale, language);
        let exported = to_excel_string(&node, &context);
        if shown != exported {
            return Err((
                sig("a1-print-differs-export"),
                format!("{text:?} displays as {shown:?} but exports as {exported:?}"),
            ));
        }
        let node2 = parser.parse(&shown, &context);
        if node2 != node {
            return Err((
                sig("a1-print-parse"),
                format!("{text:?} displays as {shown:?}, which parses to {node2:?} instead of {node:?}"),
            ));
        }
        if c.prints_as_written() && shown != text {
            return Err((
                sig("a1-print"),
                format!("{text:?} displays as {shown:?}"),
            ));
        }
        let shown2 = to_localized_string(&node2, &context, locale, language);
        if shown2 != shown {
            return Err((
                sig("a1-print-unstable"),
                format!("{text:?} displays as {shown:?}, then as {shown2:?}"),
            ));
        }
        // node -> R1C1 text -> node
        let rc = to_rc_format(&node);
        parser.set_lexer_mode(LexerMode::R1C1);
        let node3 = parser.parse(&rc, &context);
        if node3 != node {
            return Err((
                sig("r1c1-print-parse"),
                format!("{text:?} is stored as {rc:?}, which parses (R1C1) to {node3:?} instead of {node:?}"),
            ));
        }
        let rc2 = to_rc_format(&node3);
        if rc2 != rc {
            return Err((
                sig("r1c1-print-unstable"),
                format!("{text:?} is stored as {rc:?}, then as {rc2:?}"),
            ));
        }
        Ok(())
    });
    match r {
        Ok(Ok(())) => o,
        Ok(Err((s, d))) => o.fail(s, d),
        Err(p) => o.fail(
            format!("C22:address:{}", p.class()),
            format!("{text:?}: {}", p.describe()),
        ),
    }
}

const EDGE_COLUMNS: [i64; 10] = [1, 2, 26, 27, 52, 702, 703, 16_383, 16_384, 18];
const EDGE_ROWS: [i64; 7] = [1, 2, 9, 10, 1_048_575, 1_048_576, 99_999];

fn column_strategy() -> impl Strategy<Value = i64> {
    prop_oneof![
        3 => proptest::sample::select(EDGE_COLUMNS.to_vec()),
        3 => 1i64..=60,
        4 => 1i64..=LAST_COLUMN,
    ]
}

fn row_strategy() -> impl Strategy<Value = i64> {
    prop_oneof![
        3 => proptest::sample::select(EDGE_ROWS.to_vec()),
        3 => 1i64..=60,
        4 => 1i64..=LAST_ROW,
    ]
}

fn corner_strategy() -> impl Strategy<Value = Corner> {
    (column_strategy(), row_strategy(), any::<bool>(), any::<bool>())
        .prop_map(|(col, row, abs_col, abs_row)| Corner { col, row, abs_col, abs_row })
}

fn addr_strategy() -> impl Strategy<Value = AddrCase> {
    (
        prop_oneof![
            Just(Shape::Cell),
            Just(Shape::Range),
            Just(Shape::Columns),
            Just(Shape::Rows)
        ],
        proptest::option::of(0usize..SHEETS.len()),
        corner_strategy(),
        corner_strategy(),
        row_strategy(),
        column_strategy(),
    )
        .prop_map(|(shape, sheet, a, b, ctx_row, ctx_col)| {
            // by construction: the first corner is the smaller one in both coordinates (flags
            // travel with their coordinate)
            let (mut a, mut b) = (a, b);
            if a.col > b.col {
                std::mem::swap(&mut a.col, &mut b.col);
                std::mem::swap(&mut a.abs_col, &mut b.abs_col);
            }
            if a.row > b.row {
                std::mem::swap(&mut a.row, &mut b.row);
                std::mem::swap(&mut a.abs_row, &mut b.abs_row);
            }
            AddrCase { shape, sheet, a, b, ctx_row, ctx_col }
        })
}

/// Every combination of edge columns x edge rows x flags for cells, and edge spans x flags for
/// ranges (the spans include the complete row and column spans).
fn edge_addresses() -> Vec<AddrCase> {
    let cols = [1, 2, 26, 27, 702, 703, 16_383, 16_384];
    let rows = [1, 2, 1_048_575, 1_048_576];
    let flags = [false, true];
    let mut v = vec![];
    for &col in &cols {
        for &row in &rows {
            for &abs_col in &flags {
                for &abs_row in &flags {
                    let a = Corner { col, row, abs_col, abs_row };
                    for (ctx_row, ctx_col) in [(1, 1), (LAST_ROW, LAST_COLUMN), (7, 5)] {
                        v.push(AddrCase { shape: Shape::Cell, sheet: None, a, b: a, ctx_row, ctx_col });
                    }
                    v.push(AddrCase { shape: Shape::Cell, sheet: Some(2), a, b: a, ctx_row: 3, ctx_col: 3 });
                }
            }
        }
    }
    let col_spans = [(1, 1), (1, 16_384), (2, 16_384), (1, 16_383), (27, 703), (16_384, 16_384)];
    let row_spans = [(1, 1), (1, 1_048_576), (2, 1_048_576), (1, 1_048_575), (10, 99), (1_048_576, 1_048_576)];
    for &(c1, c2) in &col_spans {
        for &(r1, r2) in &row_spans {
            for bits in 0..16u32 {
                let a = Corner { col: c1, row: r1, abs_col: bits & 1 != 0, abs_row: bits & 2 != 0 };
                let b = Corner { col: c2, row: r2, abs_col: bits & 4 != 0, abs_row: bits & 8 != 0 };
                for shape in [Shape::Range, Shape::Columns, Shape::Rows] {
                    for sheet in [None, Some(3)] {
                        v.push(AddrCase { shape, sheet, a, b, ctx_row: 4, ctx_col: 6 });
                    }
                }
            }
        }
    }
    v
}

// ---------------------------------------------------------------------------------------------
// Part 3: sheet names
// ---------------------------------------------------------------------------------------------

/// The tricky alphabet of the design (22 symbols).
const ALPHABET: [char; 22] = [
    'A', 'R', 'C', 'E', 'T', '1', '0', ' ', '\'', '!', '$', '-', '+', '(', ')', '.', '_', '&', '#',
    ',', ';', '{',
];

/// Extra symbols for the random longer names: lower case, other digits, non-ASCII letters, the
/// operator characters the design lists as suspects, a closing brace, one emoji (the engine's
/// own tests use it as a valid sheet name).
const EXTRA: [char; 25] = [
    'a', 'r', 'c', 'e', 'x', 'F', 'S', '9', 'é', 'ß', 'Ω', '日', 'й', '"', '=', '<', '>', '^', '%',
    '@', '}', '🙈', '²', '٢', '½',
];

/// Characters the formula lexer accepts inside an unquoted sheet name (its identifier rule:
/// alphanumeric, '_' and '.'; the first one alphabetic or '_').
fn lexer_identifier_char(c: char) -> bool {
    c.is_alphanumeric() || c == '_' || c == '.'
}

/// First character that prevents an *unquoted* name from being one lexer identifier, as
/// (position-class, char): ("leading", c) when the first character cannot start an identifier,
/// ("char", c) for a later one.
fn unquoted_obstacle(name: &str) -> Option<(&'static str, char)> {
    let mut chars = name.chars();
    let first = chars.next()?;
    if !lexer_identifier_char(first) {
        return Some(("char", first));
    }
    if !(first.is_alphabetic() || first == '_') {
        return Some(("leading", first));
    }
    chars.find(|c| !lexer_identifier_char(*c)).map(|c| ("char", c))
}

fn char_tag(c: char) -> String {
    if c.is_ascii_graphic() {
        format!("'{c}'")
    } else {
        format!("U+{:04X}", c as u32)
    }
}

/// Avoidance switch of one trigger of the listed finding "unquoted name contains a character
/// the lexer does not accept in an identifier".
fn avoid_switch(kind: &str, c: char) -> String {
    format!("c22:unquoted-{kind}:{}", char_tag(c))
}

/// Is the name excluded by construction? Only names the engine leaves unquoted, that contain a
/// character (or start with one) whose switch is on.
fn excluded_by_listed_finding(ctx: &Ctx, name: &str, quoted: &str) -> bool {
    if quoted != name {
        return false;
    }
    let mut first = true;
    for c in name.chars() {
        if !lexer_identifier_char(c) && avoiding(ctx, &avoid_switch("char", c)) {
            return true;
        }
        if first && lexer_identifier_char(c) && !(c.is_alphabetic() || c == '_') && avoiding(ctx, &avoid_switch("leading", c)) {
            return true;
        }
        first = false;
    }
    false
}

/// Words that are something else in a formula: booleans and function names of every language.
fn reserved_words() -> &'static BTreeSet<String> {
    static WORDS: std::sync::OnceLock<BTreeSet<String>> = std::sync::OnceLock::new();
    WORDS.get_or_init(|| {
        let mut s = BTreeSet::new();
        for id in super::c23::supported_languages() {
            if let Ok(l) = get_language(&id) {
                s.insert(l.booleans.r#true.to_uppercase());
                s.insert(l.booleans.r#false.to_uppercase());
                for f in Function::into_iter() {
                    s.insert(f.to_localized_name(l).to_uppercase());
                }
            }
        }
        s
    })
}

/// Coarse, input-derived shape of a name (labels, non-triviality, signatures).
fn name_shape(name: &str) -> &'static str {
    let upper = name.to_uppercase();
    if parse_reference_a1(&upper).is_some() {
        return "a1-reference";
    }
    if parse_reference_r1c1(&upper).is_some() {
        return "r1c1-reference";
    }
    {
        // R, C, RC, R1C, RC1, R12 ... : short forms of R1C1 references
        let b = upper.as_bytes();
        let mut i = 0;
        let mut seen = false;
        if i < b.len() && b[i] == b'R' {
            i += 1;
            seen = true;
            while i < b.len() && b[i].is_ascii_digit() {
                i += 1;
            }
        }
        if i < b.len() && b[i] == b'C' {
            i += 1;
            seen = true;
            while i < b.len() && b[i].is_ascii_digit() {
                i += 1;
            }
        }
        if seen && i == b.len() {
            return "r1c1-short";
        }
    }
    if name.trim().parse::<f64>().is_ok() {
        return "number";
    }
    if upper.chars().next().map(|c| c.is_ascii_digit()).unwrap_or(false) {
        return "leading-digit";
    }
    if reserved_words().contains(&upper) {
        return "boolean-or-function";
    }
    if upper.chars().all(|c| c.is_ascii_uppercase()) && upper.len() <= 3 {
        return "column-letters";
    }
    "plain"
}

fn check_sheet_name(ctx: &Ctx, name: &str) -> Outcome {
    let mut o = Outcome::pass();
    let quoted = match panics::catch(|| quote_name(name)) {
        Ok(q) => q,
        Err(p) => {
            return o.fail(format!("C22:sheet-name:quote_name:{}", p.class()), format!("{name:?}: {}", p.describe()))
        }
    };
    let shape = name_shape(name);
    let needs_quotes = quoted != name;
    // the engine's own validity rule decides the domain
    let mut model = match Model::new_empty("c22", "en", "UTC", "en") {
        Ok(m) => m,
        Err(e) => return o.fail("C22:sheet-name:setup", e),
    };
    match panics::catch(|| model.add_sheet(name)) {
        Ok(Ok(())) => {}
        Ok(Err(_)) => return o.label("name:invalid"),
        Err(p) => {
            return o.fail(format!("C22:sheet-name:add_sheet:{}", p.class()), format!("{name:?}: {}", p.describe()))
        }
    }
    o = o.label("name:valid").label(format!("shape={shape}")).label(if needs_quotes { "quoted" } else { "unquoted" });
    if excluded_by_listed_finding(ctx, name, &quoted) {
        o.excluded += 1;
        return o.label("excluded:unquoted-char");
    }
    if needs_quotes || shape != "plain" {
        o = o.nontrivial(name.to_string());
    }
    let sig = |leg: &str| -> String {
        if !needs_quotes {
            if let Some((kind, c)) = unquoted_obstacle(name) {
                return format!("C22:sheet-name:unquoted-{kind}={}", char_tag(c));
            }
        }
        format!(
            "C22:sheet-name:{leg}:{}:shape={shape}",
            if needs_quotes { "quoted" } else { "unquoted" }
        )
    };
    let text = format!("{quoted}!A1");
    let range_text = format!("{quoted}!A1:B2");
    let r = panics::catch(|| -> Result<(), (String, String)> {
        let locale = get_locale("en").expect("locale en");
        let language = get_language("en").expect("language en");
        let context = CellReferenceRC { sheet: "Sheet1".to_string(), row: 2, column: 2 };
        let mut parser = Parser::new(
            vec!["Sheet1".to_string(), name.to_string()],
            vec![],
            HashMap::new(),
            locale,
            language,
        );
        // --- the lexer/parser, A1 mode
        let expected = Node::ReferenceKind {
            sheet_name: Some(name.to_string()),
            sheet_index: 1,
            absolute_row: false,
            absolute_column: false,
            row: -1,
            column: -1,
        };
        let node = parser.parse(&text, &context);
        if node != expected {
            return Err((
                sig("a1-parse"),
                format!("sheet {name:?} is written {quoted:?}; {text:?} parses to {node:?}, expected a reference to that sheet"),
            ));
        }
        let shown = to_localized_string(&node, &context, locale, language);
        if shown != text {
            return Err((sig("a1-print"), format!("{text:?} displays as {shown:?}")));
        }
        let expected_range = Node::RangeKind {
            sheet_name: Some(name.to_string()),
            sheet_index: 1,
            absolute_row1: false,
            absolute_column1: false,
            row1: -1,
            column1: -1,
            absolute_row2: false,
            absolute_column2: false,
            row2: 0,
            column2: 0,
        };
        let rnode = parser.parse(&range_text, &context);
        if rnode != expected_range {
            return Err((
                sig("a1-parse-range"),
                format!("{range_text:?} parses to {rnode:?}, expected a range on sheet {name:?}"),
            ));
        }
        // --- R1C1 mode (how formulas are stored and re-read)
        let rc = to_rc_format(&node);
        parser.set_lexer_mode(LexerMode::R1C1);
        let node_rc = parser.parse(&rc, &context);
        if node_rc != expected {
            return Err((
                sig("r1c1-parse"),
                format!("{text:?} is stored as {rc:?}, which parses (R1C1) to {node_rc:?}"),
            ));
        }
        let rrc = to_rc_format(&rnode);
        let rnode_rc = parser.parse(&rrc, &context);
        if rnode_rc != expected_range {
            return Err((
                sig("r1c1-parse-range"),
                format!("{range_text:?} is stored as {rrc:?}, which parses (R1C1) to {rnode_rc:?}"),
            ));
        }
        // --- a real model: evaluate, display, save, load
        let e = |m: String| (sig("model-setup"), m);
        model.set_user_input(0, 1, 1, "1".to_string()).map_err(e)?;
        model.set_user_input(1, 1, 1, "4711".to_string()).map_err(e)?;
        model.set_user_input(0, 2, 2, format!("={text}")).map_err(e)?;
        model.evaluate();
        let want = CellValue::Number(4711.0);
        let v = model.get_cell_value_by_index(0, 2, 2).map_err(e)?;
        if v != want {
            return Err((
                sig("model-value"),
                format!("={text} evaluates to {v:?}; sheet {name:?} cell A1 holds 4711"),
            ));
        }
        let f = model.get_cell_formula(0, 2, 2).map_err(e)?;
        if f.as_deref() != Some(&format!("={text}")) {
            return Err((sig("model-formula"), format!("={text} reads back as {f:?}")));
        }
        let bytes = model.to_bytes();
        let mut loaded = Model::from_bytes(&bytes, "en").map_err(|m| (sig("reload"), m))?;
        loaded.evaluate();
        let v = loaded.get_cell_value_by_index(0, 2, 2).map_err(e)?;
        if v != want {
            return Err((
                sig("reload-value"),
                format!("after to_bytes/from_bytes ={text} evaluates to {v:?} instead of 4711"),
            ));
        }
        let f = loaded.get_cell_formula(0, 2, 2).map_err(e)?;
        if f.as_deref() != Some(&format!("={text}")) {
            return Err((
                sig("reload-formula"),
                format!("after to_bytes/from_bytes ={text} reads back as {f:?}"),
            ));
        }
        Ok(())
    });
    match r {
        Ok(Ok(())) => o,
        Ok(Err((s, d))) => o.fail(s, d),
        Err(p) => o.fail(
            format!("{}:{}", sig("panic"), p.class()),
            format!("{name:?}: {}", p.describe()),
        ),
    }
}

fn names_over_alphabet(max_len: usize) -> Vec<String> {
    let mut out: Vec<String> = vec![];
    let mut level: Vec<String> = vec![String::new()];
    for _ in 0..max_len {
        let mut next = Vec::with_capacity(level.len() * ALPHABET.len());
        for p in &level {
            for c in ALPHABET {
                let mut s = p.clone();
                s.push(c);
                next.push(s);
            }
        }
        out.extend(next.iter().cloned());
        level = next;
    }
    out
}

/// Look-alike names: references in both notations, numbers, booleans and function names of
/// every language, in several cases.
fn special_names() -> Vec<String> {
    let mut v: Vec<String> = [
        "A1", "a1", "XFD1048576", "XFD1048577", "XFE1", "A1048577", "AAAA1", "A0", "A01", "$A$1",
        "R1C1", "r1c1", "R1C1P", "RC", "rc", "R", "C", "r", "c", "R1", "C1", "R1C", "RC1", "R[1]C[1]",
        "R[-1]C", "RC[-1]", "R-4C", "RC-8", "R5C", "R1048577C1", "R1C16385", "R0C0", "1", "1.5", "1E3", "1e3",
        "E1", "E", "TRUE", "FALSE", "true", "True", "TRUE.", "_TRUE", "SUM", "sum", "Sum", "IF", "LOG10",
        "T", "N", "PI", "NA", "ATAN2", "_xlfn.CONCAT", "Sheet1 ", " Sheet1", "Sheet 1", "Sheet1!", "'", "''",
        "'A", "A'", "A'B", "''A''", "A''B", " ", "  ", "_", ".", "..", ".A", "A.", "A.B", "_1", "_A1",
        "A!A1", "A1!A1", "!", "#REF!", "#N/A", "#", "A#", "A B", "A,B", "A;B", "A&B", "A+B", "A-B", "(A)",
        "{A}", "A{", "A}", "Zażółć gęślą jaźń", "日本", "Übersicht", "Ω1", "é", "🙈", "A🙈",
        "AAAAAAAAAABBBBBBBBBBCCCCCCCCCCD", "A1:B2", "A/B", "[A]", "A*", "A?", "A\\B", "",
        // alphanumeric characters that are neither letters nor ASCII digits (other scripts'
        // digits, superscripts, fractions, enclosed numbers), leading and inside
        "²x", "x²", "²", "٢٠٢٤", "x٢", "①st", "x①", "½year", "x½", "_²", "٣_a", "५", "A५",
    ]
    .iter()
    .map(|s| s.to_string())
    .collect();
    // reference look-alike families, inside and just outside the grid
    for a in ["", "0", "1", "9", "10", "1048576", "1048577"] {
        for b in ["", "0", "1", "9", "16384", "16385"] {
            v.push(format!("R{a}C{b}"));
            v.push(format!("r{a}c{b}"));
        }
    }
    for col in ["A", "Z", "AA", "XFD", "XFE", "AAAA", "a", "xfd"] {
        for row in ["0", "1", "01", "1048576", "1048577"] {
            v.push(format!("{col}{row}"));
        }
    }
    for w in reserved_words() {
        v.push(w.clone());
        v.push(w.to_lowercase());
    }
    v.sort();
    v.dedup();
    v
}

fn random_name_strategy() -> impl Strategy<Value = String> {
    let mut symbols: Vec<char> = ALPHABET.to_vec();
    symbols.extend(EXTRA);
    prop_oneof![
        4 => proptest::collection::vec(proptest::sample::select(symbols.clone()), 4..=8),
        2 => proptest::collection::vec(proptest::sample::select(symbols.clone()), 9..=31),
        1 => proptest::collection::vec(proptest::sample::select(symbols), 1..=3),
    ]
    .prop_map(|v| v.into_iter().collect::<String>())
}

// ---------------------------------------------------------------------------------------------

pub fn run(ctx: &Ctx) {
    ctx.set_rule(
        "Columns: every number 1..=16384 and every string of 1..=4 letters A-Z (exhaustive), plus a \
         fixed list of invalid strings and out-of-range numbers; every one is non-trivial. \
         Addresses: cells, ranges, open column and row ranges x 4 absolute/relative flags per \
         corner x optional (quoted) sheet prefix x context cell; an exhaustive product of edge \
         columns/rows/spans and a random campaign biased to the edges; every well-formed case is \
         non-trivial, distinct by its encoding. Sheet names: every string of length <=3 (quick) / \
         <=4 (thorough) over the 22-symbol alphabet \"ARCET10 '!$-+()._&#,;{\", a list of \
         look-alike names (references, numbers, booleans and function names of every language) and \
         random names of 1..=31 symbols over that alphabet plus 25 more (lower case, non-ASCII \
         letters, operator characters, an emoji); kept only if add_sheet accepts them; non-trivial \
         if the engine quotes the name or the name looks like a reference, number, boolean, \
         function or column; distinct by name.",
    );
    ctx.assume("sheet-name validity is whatever Model::add_sheet accepts (rejected names are counted under label name:invalid, not checked)");
    ctx.assume("the formula language and locale are 'en' for sheet names and addresses (function/boolean names of other languages are used as sheet names, but parsed by the English lexer)");
    ctx.assume("Model::parse_reference (unquoted 'Sheet!A1' strings) is not a formula-lexer path and is not checked");
    ctx.assume("3D references (Sheet1:Sheet3!A1) and structured references are out of scope");

    // Part 1
    let numbers: Vec<i64> = (1..=LAST_COLUMN).collect();
    ctx.enumerate("column-numbers", &numbers, |&n| check_column_number(n), |n| json!({"number": n}));
    let strings = all_letter_strings(4);
    ctx.note(format!("letter strings of length <= 4 enumerated: {}", strings.len()));
    ctx.enumerate("column-strings", &strings, |s| check_column_string(ctx, s), |s| json!({"string": s}));
    let invalid = invalid_column_strings();
    ctx.enumerate("column-invalid", &invalid, |s| check_column_string(ctx, s), |s| json!({"string": s}));
    let out_of_range: Vec<i64> = vec![0, -1, -26, LAST_COLUMN + 1, 18_278, 18_279, i32::MAX as i64, i32::MIN as i64];
    ctx.enumerate("column-out-of-range", &out_of_range, |&n| check_column_out_of_range(n), |n| json!({"number": n}));

    // Part 2
    let edges = edge_addresses();
    ctx.enumerate("address-edges", &edges, |c| check_address(ctx, c), |c| serde_json::to_value(c).unwrap_or(Value::Null));
    let cases = ctx.tier.pick(100_000, 3_000_000);
    ctx.campaign(
        "addresses",
        cases,
        addr_strategy,
        |c| check_address(ctx, c),
        |c| serde_json::to_value(c).unwrap_or(Value::Null),
    );

    // Part 3
    let special = special_names();
    ctx.enumerate("sheet-names-special", &special, |n| check_sheet_name(ctx, n), |n| json!({"name": n}));
    let max_len = match ctx.tier {
        Tier::Quick => 3,
        Tier::Thorough => 4,
    };
    let names = names_over_alphabet(max_len);
    ctx.note(format!("names of length <= {max_len} over the alphabet: {}", names.len()));
    ctx.enumerate("sheet-names-sweep", &names, |n| check_sheet_name(ctx, n), |n| json!({"name": n}));
    let cases = ctx.tier.pick(15_000, 600_000);
    ctx.campaign(
        "sheet-names-random",
        cases,
        random_name_strategy,
        |n| check_sheet_name(ctx, n),
        |n| json!({"name": n}),
    );
    // exhaustive: the column codec part only (numbers and letter strings)
    ctx.set_exhaustive(true);
    ctx.note("exhaustive applies to the column codec (16384 numbers, all letter strings of length <= 4) and to the bounded sheet-name sweep; addresses and longer names are sampled");
}

pub fn replay(ctx: &Ctx, campaign: &str, case: &Value) -> Result<Outcome, String> {
    match campaign {
        "column-numbers" => Ok(check_column_number(case["number"].as_i64().ok_or("number")?)),
        "column-out-of-range" => Ok(check_column_out_of_range(case["number"].as_i64().ok_or("number")?)),
        "column-strings" | "column-invalid" => {
            Ok(check_column_string(ctx, case["string"].as_str().ok_or("string")?))
        }
        "address-edges" | "addresses" => {
            let c: AddrCase = serde_json::from_value(case.clone()).map_err(|e| e.to_string())?;
            Ok(check_address(ctx, &c))
        }
        "sheet-names-special" | "sheet-names-sweep" | "sheet-names-random" => {
            Ok(check_sheet_name(ctx, case["name"].as_str().ok_or("name")?))
        }
        _ => Err(format!("unknown campaign {campaign}")),
    }
}
