//! C11 — Text inputs never crash the engine.
//!
//! Targets (every engine call goes through `panics::catch`):
//!   * `parse`  : `Parser::parse` in A1 and R1C1 mode and `get_tokens_with_locale`, in every
//!                language x locale, at several context cells;
//!   * `cursor` : `Model::formula_completion` at every cursor 0..=len+1 and
//!                `Model::cycle_reference` at every cursor pair 0..=len+1;
//!   * `format` : `format_number(x, fmt, locale)` for any f64 bit pattern in every locale;
//!   * `input`  : `Model::set_user_input` + `evaluate` and `UserModel::set_user_input`.
//!
//! Oracle: no panic; plus the positive half of the statement: a formula the parser rejects shows
//! as the `#ERROR!` literal of the language, a format code the format parser rejects
//! (every section an error part, or not 1..=4 sections) yields `Formatted.error = Some`.

use std::collections::HashMap;
use std::sync::OnceLock;

use ironcalc_base::expressions::lexer::util::get_tokens_with_locale;
use ironcalc_base::expressions::lexer::LexerMode;
use ironcalc_base::expressions::parser::{Node, Parser};
use ironcalc_base::expressions::types::CellReferenceRC;
use ironcalc_base::formatter::format::format_number;
use ironcalc_base::formatter::parser::Parser as FmtParser;
use ironcalc_base::language::{get_language, Language};
use ironcalc_base::locale::{get_locale, Locale};
use ironcalc_base::types::{Table, TableColumn, TableStyleInfo};
use ironcalc_base::{Function, Model, UserModel};
use proptest::prelude::*;
use serde::{Deserialize, Serialize};
use serde_json::Value;

use crate::engine::config::{self, LANGUAGES};
use crate::engine::nodes;
use crate::engine::panics::{self, Panic};
use crate::engine::{Ctx, Outcome, Tier};

#[derive(Clone, Debug, Serialize, Deserialize)]
#[serde(tag = "target", rename_all = "kebab-case")]
pub enum Case {
    Parse { text: String },
    Cursor { language: String, locale: String, text: String },
    Format { bits: u64, format: String },
    Input { language: String, locale: String, text: String },
    /// `open` x n + "1" + `close` x n, parsed in a child process (stack exhaustion is an abort,
    /// not a panic: it cannot be observed in-process)
    Depth { open: String, close: String, n: usize },
}

// ------------------------------------------------------------------------------------------
// configuration tables (computed once)

struct Cfg {
    language_id: &'static str,
    locale_id: &'static str,
    language: &'static Language,
    locale: &'static Locale,
}

fn leak(s: &str) -> &'static str {
    Box::leak(s.to_string().into_boxed_str())
}

fn cfgs() -> &'static Vec<Cfg> {
    static C: OnceLock<Vec<Cfg>> = OnceLock::new();
    C.get_or_init(|| {
        let mut v = vec![];
        for (lang, loc) in config::configs() {
            if let (Ok(language), Ok(locale)) = (get_language(&lang), get_locale(&loc)) {
                v.push(Cfg { language_id: leak(&lang), locale_id: leak(&loc), language, locale });
            }
        }
        // en/en (what everybody runs by default) first
        v.sort_by_key(|c| (c.language_id != "en", c.locale_id != "en"));
        v
    })
}

fn locales() -> &'static Vec<(&'static str, &'static Locale)> {
    static L: OnceLock<Vec<(&'static str, &'static Locale)>> = OnceLock::new();
    L.get_or_init(|| {
        config::locales()
            .iter()
            .filter_map(|l| get_locale(l).ok().map(|x| (leak(l), x)))
            .collect()
    })
}

fn sample_tables() -> HashMap<String, Table> {
    let col = |id: u32, name: &str| TableColumn { id, name: name.to_string(), ..Default::default() };
    let mut m = HashMap::new();
    m.insert(
        "Table1".to_string(),
        Table {
            name: "Table1".into(),
            display_name: "Table1".into(),
            sheet_name: "Sheet1".into(),
            reference: "A1:C4".into(),
            totals_row_count: 0,
            header_row_count: 1,
            header_row_dxf_id: None,
            data_dxf_id: None,
            totals_row_dxf_id: None,
            columns: vec![col(1, "Col"), col(2, "Other col"), col(3, "x")],
            style_info: TableStyleInfo::default(),
            has_filters: false,
        },
    );
    m
}

fn new_parser(c: &Cfg) -> Parser<'static> {
    Parser::new(
        vec!["Sheet1".to_string(), "Sheet 2".to_string(), "Ünï".to_string()],
        vec![
            ("nm1".to_string(), None, "Sheet1!$A$1".to_string()),
            ("nm2".to_string(), Some(0), "Sheet1!$A$1:$B$2".to_string()),
        ],
        sample_tables(),
        c.locale,
        c.language,
    )
}

/// Signature of a panic: crate + source file, enclosing function, normalised message and the text
/// of the panicking source line (two unchecked sites in one file are different root causes).
fn sig(p: &Panic) -> String {
    super::crashsig::signature_here("C11", &p.file, p.line, &p.message)
}

fn clip(s: &str) -> String {
    let t: String = s.chars().take(300).collect();
    format!("{t:?}")
}

// ------------------------------------------------------------------------------------------
// checks

/// Number of tokens the (English) lexer sees; used for the non-triviality rule only.
fn token_count(body: &str) -> usize {
    let c = &cfgs()[0];
    panics::catch(|| get_tokens_with_locale(body, c.locale, c.language).len()).unwrap_or(0)
}

fn check_parse(text: &str) -> Outcome {
    let mut o = Outcome::pass();
    let cfgs = cfgs();
    let mut rejected = 0usize;
    let mut accepted = 0usize;
    for (ci, c) in cfgs.iter().enumerate() {
        let contexts: &[(i32, i32)] = if ci == 0 { &[(7, 3), (1, 1), (1_048_576, 16_384)] } else { &[(7, 3)] };
        for mode in [LexerMode::A1, LexerMode::R1C1] {
            let mode_name = if matches!(mode, LexerMode::A1) { "A1" } else { "R1C1" };
            for &(row, column) in contexts {
                let r = panics::catch(|| {
                    let mut p = new_parser(c);
                    p.set_lexer_mode(mode.clone());
                    let cell = CellReferenceRC { sheet: "Sheet1".to_string(), row, column };
                    p.parse(text, &cell)
                });
                match r {
                    Ok(Node::ParseErrorKind { .. }) => rejected += 1,
                    Ok(_) => accepted += 1,
                    Err(p) => {
                        return o.fail(
                            sig(&p),
                            format!(
                                "Parser::parse({}) mode={mode_name} language={} locale={} context=R{row}C{column}: {}",
                                clip(text), c.language_id, c.locale_id, p.describe()
                            ),
                        );
                    }
                }
            }
        }
        if let Err(p) = panics::catch(|| get_tokens_with_locale(text, c.locale, c.language)) {
            return o.fail(
                sig(&p),
                format!(
                    "get_tokens_with_locale({}) language={} locale={}: {}",
                    clip(text), c.language_id, c.locale_id, p.describe()
                ),
            );
        }
    }
    o = o.label(match (accepted > 0, rejected > 0) {
        (true, false) => "parse:accepted-everywhere",
        (false, true) => "parse:rejected-everywhere",
        (true, true) => "parse:depends-on-config",
        _ => "parse:none",
    });
    if token_count(text) >= 2 {
        o = o.nontrivial(format!("parse:{text}"));
    }
    o
}

fn new_model(language: &str, locale: &str) -> Result<Model<'static>, String> {
    let mut m = Model::new_empty("model", leak_cached(locale), "UTC", leak_cached(language))?;
    m.add_sheet("Sheet 2")?;
    Ok(m)
}

/// Leak each distinct configuration id once (Model borrows its ids for its lifetime).
fn leak_cached(s: &str) -> &'static str {
    for l in LANGUAGES {
        if l == s {
            return l;
        }
    }
    for (id, _) in locales() {
        if *id == s {
            return id;
        }
    }
    leak(s)
}

fn check_cursor(language: &str, locale: &str, text: &str) -> Outcome {
    let mut o = Outcome::pass();
    let mut model = match new_model(language, locale) {
        Ok(m) => m,
        Err(e) => return o.label(format!("cursor:bad-config:{e}")),
    };
    let n = text.chars().count();
    for cursor in 0..=n + 1 {
        let r = panics::catch(|| model.formula_completion(0, 3, 2, text, cursor));
        match r {
            Ok(Ok(_)) => {}
            Ok(Err(e)) => {
                // sheet 0 exists: an Err here would be a (non-panic) refusal; the statement only
                // asks for "no panic", so just make it visible
                o = o.label(format!("cursor:completion-err:{}", e.chars().take(30).collect::<String>()));
            }
            Err(p) => {
                return o.fail(
                    sig(&p),
                    format!(
                        "formula_completion({}, cursor={cursor}) language={language} locale={locale}: {}",
                        clip(text), p.describe()
                    ),
                );
            }
        }
    }
    let mut cycled = false;
    for start in 0..=n + 1 {
        for end in 0..=n + 1 {
            let r = panics::catch(|| model.cycle_reference(text, start, end));
            match r {
                Ok(Ok((t, _, _))) => {
                    if t != text {
                        cycled = true;
                    }
                }
                Ok(Err(_)) => {}
                Err(p) => {
                    return o.fail(
                        sig(&p),
                        format!(
                            "cycle_reference({}, {start}, {end}) language={language} locale={locale}: {}",
                            clip(text), p.describe()
                        ),
                    );
                }
            }
        }
    }
    o = o.label(if cycled { "cursor:some-reference-cycled" } else { "cursor:nothing-cycled" });
    let body = text.strip_prefix('=').unwrap_or(text);
    if token_count(body) >= 2 {
        o = o.nontrivial(format!("cursor:{language}:{locale}:{text}"));
    }
    o
}

fn value_class(x: f64) -> &'static str {
    if x.is_nan() {
        "nan"
    } else if x.is_infinite() {
        "inf"
    } else if x == 0.0 {
        "zero"
    } else if x.is_subnormal() {
        "subnormal"
    } else if x.abs() >= 1e15 {
        "huge"
    } else if x.abs() < 1e-9 {
        "tiny"
    } else if x.fract() == 0.0 {
        "integer"
    } else {
        "fractional"
    }
}

fn check_format(bits: u64, format: &str) -> Outcome {
    let mut o = Outcome::pass();
    let x = f64::from_bits(bits);
    // what the format parser says about the code (under catch: it is a target too)
    let parsed = panics::catch(|| {
        let mut p = FmtParser::new(format);
        p.parse();
        let n = p.parts.len();
        let errors = p.parts.iter().filter(|p| p.is_error()).count();
        (n, errors)
    });
    let (nparts, nerrors) = match parsed {
        Ok(v) => v,
        Err(p) => {
            return o.fail(sig(&p), format!("formatter::Parser::parse({}): {}", clip(format), p.describe()));
        }
    };
    let rejected = nparts == 0 || nparts > 4 || nerrors == nparts;
    for (id, locale) in locales() {
        match panics::catch(|| format_number(x, format, locale)) {
            Ok(f) => {
                if rejected && f.error.is_none() {
                    return o.fail(
                        "C11:format:rejected-code-without-error",
                        format!(
                            "format parser rejects {} ({nparts} sections, {nerrors} error sections) but format_number({x:e}, .., {id}) returned text {:?} with error=None",
                            clip(format), f.text
                        ),
                    );
                }
            }
            Err(p) => {
                return o.fail(
                    sig(&p),
                    format!(
                        "format_number({x:e} [bits {bits:#018x}], {}, locale {id}): {}",
                        clip(format), p.describe()
                    ),
                );
            }
        }
    }
    o = o.label(format!("format:value:{}", value_class(x)));
    o = o.label(if rejected {
        "format:code-rejected"
    } else if nerrors > 0 {
        "format:code-some-section-rejected"
    } else {
        "format:code-accepted"
    });
    if nparts >= 1 && nerrors < nparts {
        o = o.nontrivial(format!("format:{bits}:{format}"));
    }
    o
}

/// Functions whose cost is governed by a numeric argument (array sizes, iteration counts):
/// a formula containing one is parsed and stored but not evaluated.
const SIZE_LIKE: [&str; 22] = [
    "Sequence", "Randarray", "Makearray", "Expand", "Munit", "Wrapcols", "Wraprows", "Fact",
    "Factdouble", "Combin", "Combina", "Permut", "Permutationa", "Besseli", "Besselj", "Besselk",
    "Bessely", "Seriessum", "Multinomial", "Base", "Roman", "Textjoin",
];
const MAX_EVAL_RANGE_CELLS: i64 = 4_096;

/// Is evaluating this stored formula cheap by construction?
fn cheap_to_evaluate(node: &Node, row: i32, column: i32) -> Result<(), &'static str> {
    let mut verdict = Ok(());
    let mut count = 0usize;
    nodes::walk(node, &mut |n| {
        count += 1;
        match n {
            Node::FunctionKind { kind, .. } => {
                let name = format!("{kind:?}");
                if SIZE_LIKE.iter().any(|s| *s == name) {
                    verdict = Err("size-like-function");
                }
                if matches!(kind, Function::Lambda) {
                    verdict = Err("lambda");
                }
            }
            Node::LambdaDefKind { .. } | Node::LambdaCallKind { .. } => verdict = Err("lambda"),
            // `A1 : XFD1048576`, `A1:INDEX(..)`: the operator builds a range of any size at run
            // time (17 thousand million cells materialised as an array exhaust the memory)
            Node::OpRangeKind { .. } => verdict = Err("range-operator"),
            _ => {}
        }
    });
    verdict?;
    for leaf in nodes::ref_leaves(node, row, column) {
        let area = (leaf.row2 as i64 - leaf.row1 as i64 + 1) * (leaf.col2 as i64 - leaf.col1 as i64 + 1);
        if area > MAX_EVAL_RANGE_CELLS {
            return Err("large-range");
        }
    }
    Ok(())
}

fn check_input(language: &str, locale: &str, text: &str) -> Outcome {
    let mut o = Outcome::pass();
    let (Ok(lang), Ok(_loc)) = (get_language(language), get_locale(locale)) else {
        return o.label("input:bad-config");
    };
    let mut model = match new_model(language, locale) {
        Ok(m) => m,
        Err(e) => return o.label(format!("input:bad-config:{e}")),
    };
    // a little context so that references in the input see numbers, text, a formula and an error
    for (r, c, v) in [(1, 1, "1"), (2, 1, "2.5"), (1, 2, "text"), (2, 2, "=1/0"), (3, 1, "=A1+A2")] {
        let _ = model.set_user_input(0, r, c, v.to_string());
    }
    let (row, column) = (3, 2);
    let r = panics::catch(|| model.set_user_input(0, row, column, text.to_string()));
    let set = match r {
        Ok(r) => r,
        Err(p) => {
            return o.fail(
                sig(&p),
                format!("Model::set_user_input({}) language={language} locale={locale}: {}", clip(text), p.describe()),
            );
        }
    };
    // what was stored?
    let stored: Option<(Node, bool)> = model
        .workbook
        .worksheet(0)
        .ok()
        .and_then(|ws| ws.cell(row, column))
        .and_then(|c| c.get_formula())
        .and_then(|f| model.parsed_formulas.first().and_then(|v| v.get(f as usize)))
        .map(|(n, _)| (n.clone(), matches!(n, Node::ParseErrorKind { .. })));
    let mut evaluated = false;
    match &stored {
        Some((node, _)) => match cheap_to_evaluate(node, row, column) {
            Ok(()) => evaluated = true,
            Err(why) => {
                o.excluded += 1;
                o = o.label(format!("input:not-evaluated:{why}"));
            }
        },
        None => evaluated = true,
    }
    if evaluated {
        if let Err(p) = panics::catch(|| model.evaluate()) {
            return o.fail(
                sig(&p),
                format!("Model::evaluate after set_user_input({}) language={language} locale={locale}: {}", clip(text), p.describe()),
            );
        }
        for what in ["formatted", "content"] {
            let r = panics::catch(|| {
                if what == "formatted" {
                    model.get_formatted_cell_value(0, row, column)
                } else {
                    model.get_localized_cell_content(0, row, column)
                }
            });
            match r {
                Err(p) => {
                    return o.fail(
                        sig(&p),
                        format!("reading the cell ({what}) after input {} language={language} locale={locale}: {}", clip(text), p.describe()),
                    );
                }
                Ok(Ok(shown)) => {
                    if what == "formatted" {
                        if let Some((_, true)) = &stored {
                            // positive half: a rejected formula is an #ERROR! cell
                            if shown != lang.errors.error {
                                return o.fail(
                                    "C11:input:rejected-formula-not-error-cell",
                                    format!(
                                        "input {} was stored as a parse error but the cell shows {shown:?}, not {:?} (language={language} locale={locale})",
                                        clip(text), lang.errors.error
                                    ),
                                );
                            }
                        }
                    }
                }
                Ok(Err(_)) => {}
            }
        }
    }
    o = o.label(match (&set, &stored) {
        (Err(_), _) => "input:refused",
        (Ok(()), Some((_, true))) => "input:formula-parse-error",
        (Ok(()), Some((_, false))) => "input:formula-accepted",
        (Ok(()), None) => "input:not-a-formula",
    });
    // the same text through the UserModel (own evaluation, history, diff list)
    let um = panics::catch(|| {
        let mut um = UserModel::new_empty("model", leak_cached(locale), "UTC", leak_cached(language))?;
        let cheap = match &stored {
            Some((node, _)) => cheap_to_evaluate(node, row, column).is_ok(),
            None => true,
        };
        if !cheap {
            um.pause_evaluation();
        }
        um.set_user_input(0, 1, 1, "3")?;
        um.set_user_input(0, row, column, text)?;
        let _ = um.get_formatted_cell_value(0, row, column);
        let _ = um.get_cell_content(0, row, column);
        um.undo()?;
        um.redo()?;
        Ok::<(), String>(())
    });
    if let Err(p) = um {
        return o.fail(
            sig(&p),
            format!("UserModel::set_user_input({}) language={language} locale={locale}: {}", clip(text), p.describe()),
        );
    }
    let body = text.strip_prefix('=').unwrap_or(text);
    if token_count(body) >= 2 {
        o = o.nontrivial(format!("input:{language}:{locale}:{text}"));
    }
    o
}

/// Deeply nested input: the recursive-descent parser uses one stack frame group per level. Run
/// `vcheck --replay` on the nested formula in a child process (default main-thread stack of the
/// platform) and look at how it ended.
fn check_depth(open: &str, close: &str, n: usize) -> Outcome {
    let o = Outcome::pass().label(format!("depth:{open}x{n}"));
    let text = format!("{}1{}", open.repeat(n), close.repeat(n));
    let doc = serde_json::json!({"property": "C11", "campaign": "depth-child", "case": {"target": "parse", "text": text}});
    let path = std::env::temp_dir().join(format!("vcheck-c11-depth-{}-{n}-{}.json", crate::engine::hash64(open), std::process::id()));
    if std::fs::write(&path, doc.to_string()).is_err() {
        return o.label("depth:cannot-write-temp-file");
    }
    let Ok(exe) = std::env::current_exe() else { return o.label("depth:no-current-exe") };
    let out = std::process::Command::new(exe).arg("--replay").arg(&path).output();
    let _ = std::fs::remove_file(&path);
    let Ok(out) = out else { return o.label("depth:cannot-spawn") };
    let stderr = String::from_utf8_lossy(&out.stderr);
    use std::os::unix::process::ExitStatusExt;
    if out.status.signal().is_some() || stderr.contains("overflowed its stack") {
        return o.nontrivial(format!("depth:{open}:{n}")).fail(
            "C11:abort:stack-overflow:parser-recursion".to_string(),
            format!(
                "parsing {open:?} x {n} + \"1\" + {close:?} x {n} ({} bytes) in a child process (default main-thread stack) ended with {:?}: {}",
                text.len(),
                out.status,
                stderr.lines().rev().take(2).collect::<Vec<_>>().join(" | ")
            ),
        );
    }
    match out.status.code() {
        Some(0) => o.nontrivial(format!("depth:{open}:{n}")),
        // the child reported a (panic) violation or could not run: not this check's business
        other => o.label(format!("depth:child-exit-{other:?}")),
    }
}

/// Development aid (VERIF_TRACE=<dir>): every thread keeps the case it is executing in a file, so
/// that a run killed from outside (memory, time) leaves the culprit behind.
fn trace(case: &Case) {
    static DIR: OnceLock<Option<String>> = OnceLock::new();
    if let Some(dir) = DIR.get_or_init(|| std::env::var("VERIF_TRACE").ok()) {
        let _ = std::fs::create_dir_all(dir);
        let id = format!("{:?}", std::thread::current().id()).replace(|c: char| !c.is_ascii_digit(), "");
        let _ = std::fs::write(format!("{dir}/thread-{id}.json"), serde_json::to_string(case).unwrap_or_default());
    }
}

pub fn check(case: &Case) -> Outcome {
    trace(case);
    match case {
        Case::Parse { text } => check_parse(text),
        Case::Cursor { language, locale, text } => check_cursor(language, locale, text),
        Case::Format { bits, format } => check_format(*bits, format),
        Case::Input { language, locale, text } => check_input(language, locale, text),
        Case::Depth { open, close, n } => check_depth(open, close, *n),
    }
}

// ------------------------------------------------------------------------------------------
// generators

pub const BOUNDARY_NUMBERS: [&str; 22] = [
    "0", "1048576", "1048577", "16384", "16385", "99999999999", "2147483647", "2147483648",
    "4294967295", "4294967296", "9223372036854775807", "9223372036854775808", "-1", "1E+308",
    "1E309", "1E-320", "00000000000000000000000001", "1.7976931348623157E+308", "0.1E1", "1e",
    "32767", "65536",
];

const LONG_IDENTS: [&str; 10] = [
    "ZQQQQQYZ", "XFD", "XFE", "ZZZ", "AAAA", "FXSHRXW", "FXSHRXX", "ZZZZZZZZZZZZZZZZZZZZZZZZZZZZZZZZ",
    "R1048577C16385", "ñandú",
];

fn formula_alphabet() -> impl Strategy<Value = String> {
    prop::collection::vec(
        prop_oneof![
            6 => prop::sample::select(vec!['A', 'B', 'Z', 'X', 'F', 'D', 'R', 'C', 'E', 'a', 'e', 's', 'u', 'm']),
            5 => prop::sample::select(vec!['0', '1', '2', '9', '4', '6']),
            10 => prop::sample::select(vec![
                '$', '!', ':', ',', ';', '.', '(', ')', '{', '}', '[', ']', '"', '\'', '+', '-', '*', '/', '^',
                '&', '%', '<', '>', '=', '#', '@', '\\', ' ', '_', '?', '|', '~',
            ]),
            1 => prop::sample::select(vec!['\n', '\t', '\u{0}', '\u{a0}', 'é', 'ß', '¡', '€', '√', '\u{202e}', '😀', '٣', 'Ａ', '１', '\u{feff}']),
        ],
        0..28,
    )
    .prop_map(|v| v.into_iter().collect())
}

fn arbitrary_unicode(max: usize) -> impl Strategy<Value = String> {
    prop::collection::vec(any::<char>(), 0..max).prop_map(|v| v.into_iter().collect())
}

/// Function names in every language, error literals and booleans: the vocabulary of the lexer.
fn vocabulary() -> &'static Vec<String> {
    static V: OnceLock<Vec<String>> = OnceLock::new();
    V.get_or_init(|| {
        let mut v: Vec<String> = vec![];
        for l in LANGUAGES {
            let Ok(lang) = get_language(l) else { continue };
            for f in Function::into_iter() {
                v.push(f.to_localized_name(lang));
            }
            let e = &lang.errors;
            for s in [&e.name, &e.value, &e.div, &e.na, &e.num, &e.nimpl, &e.spill, &e.calc, &e.circ, &e.error, &e.null] {
                v.push(s.clone());
            }
            v.push(lang.errors.r#ref.clone());
            v.push(lang.booleans.r#true.clone());
            v.push(lang.booleans.r#false.clone());
        }
        v.sort();
        v.dedup();
        v
    })
}

fn vocab_word() -> impl Strategy<Value = String> {
    (0..vocabulary().len()).prop_map(|i| vocabulary()[i].clone())
}

fn reference() -> impl Strategy<Value = String> {
    let col = prop_oneof![
        6 => prop::sample::select(vec!["A", "B", "Z", "AA", "XFD", "XFC"]).prop_map(|s| s.to_string()),
        1 => prop::sample::select(vec!["XFE", "ZZZ", "AAAA"]).prop_map(|s| s.to_string()),
    ];
    let row = prop_oneof![
        6 => (1..30i32).prop_map(|r| r.to_string()),
        2 => prop::sample::select(vec!["1048576", "1048575", "1"]).prop_map(|s| s.to_string()),
        1 => prop::sample::select(vec!["0", "1048577", "99999999999", "01"]).prop_map(|s| s.to_string()),
    ];
    let cell = (col, row, 0..4u8).prop_map(|(c, r, a)| {
        format!("{}{c}{}{r}", if a & 1 == 1 { "$" } else { "" }, if a & 2 == 2 { "$" } else { "" })
    });
    let prefix = prop_oneof![
        8 => Just(String::new()),
        1 => Just("Sheet1!".to_string()),
        1 => Just("'Sheet 2'!".to_string()),
        1 => Just("Ghost!".to_string()),
        1 => Just("'It''s'!".to_string()),
        1 => Just("Ünï!".to_string()),
    ];
    let c2 = cell.clone();
    prop_oneof![
        6 => (prefix.clone(), cell.clone()).prop_map(|(p, c)| format!("{p}{c}")),
        3 => (prefix.clone(), cell, c2).prop_map(|(p, a, b)| format!("{p}{a}:{b}")),
        1 => (prefix.clone(), prop::sample::select(vec!["A:A", "$B:C", "1:1", "$2:3", "A:XFD", "1:1048576", "A1:B", "A:B2"])).prop_map(|(p, s)| format!("{p}{s}")),
        1 => prop::sample::select(vec!["R1C1", "R[1]C[-1]", "RC", "R[-7]C[-3]", "R1048576C16384", "R[1048576]C", "R1C1:R2C2", "RC[99999999999]", "R[C", "R-1C"]).prop_map(|s| s.to_string()),
        1 => prop::sample::select(vec!["Table1[Col]", "Table1[[#All],[Col]]", "Table1[@Col]", "Table1[[#This Row],[Other col]]", "Table1[[Col]:[x]]", "Table1[#Headers]", "Table1[", "[@Col]", "Table1[[#Data],[#Totals]]", "NoTable[Col]"]).prop_map(|s| s.to_string()),
        1 => prop::sample::select(vec!["nm1", "nm2", "_xlfn.nm", "A1B", "R", "C", "TRUE1", "A1.B2", "x.y_z"]).prop_map(|s| s.to_string()),
    ]
}

fn literal() -> impl Strategy<Value = String> {
    prop_oneof![
        5 => (0..200i32).prop_map(|n| n.to_string()),
        2 => (0..100i32, 0..100i32).prop_map(|(a, b)| format!("{a}.{b}")),
        1 => (0..100i32, 0..100i32).prop_map(|(a, b)| format!("{a},{b}")),
        1 => prop::sample::select(vec!["1E3", "1.5e-3", "2E+2", ".5", "5.", "1E", "1E+", "1.2.3", "1e5e5", "0x1F", "1_000"]).prop_map(|s| s.to_string()),
        2 => prop::sample::select(vec!["\"\"", "\"a\"", "\"a\"\"b\"", "\"é😀\"", "\"{1,2}\"", "\"unterminated"]).prop_map(|s| s.to_string()),
        1 => prop::sample::select(BOUNDARY_NUMBERS.to_vec()).prop_map(|s| s.to_string()),
        2 => vocab_word(),
        1 => prop::sample::select(vec!["{1,2;3,4}", "{1\\2;3\\4}", "{1;2}", "{\"a\",TRUE,#N/A}", "{1,2;3}", "{}", "{{1}}", "{1,}", "{-1,+2}", "{A1}"]).prop_map(|s| s.to_string()),
    ]
}

fn cheap_function() -> impl Strategy<Value = String> {
    prop::sample::select(vec![
        "SUM", "MAX", "MIN", "IF", "AND", "OR", "NOT", "ABS", "ROUND", "CONCATENATE", "LEN", "LEFT", "MID", "TEXT",
        "VALUE", "COUNTA", "AVERAGE", "INDEX", "MATCH", "VLOOKUP", "IFERROR", "DATE", "YEAR", "ROW", "COLUMN",
        "OFFSET", "INDIRECT", "CHOOSE", "SUMIF", "COUNTIF", "ISERROR", "LET", "XLOOKUP", "TRANSPOSE", "UNIQUE",
        "SORT", "FILTER", "TEXTSPLIT", "REPT", "SUBSTITUTE", "FIND", "SEARCH", "DOLLAR", "FIXED", "CELL",
        "HYPERLINK", "N", "T", "TYPE", "ERROR.TYPE", "SUBTOTAL", "SUMPRODUCT", "TRUE", "FALSE", "PI", "UNKNOWNFN",
        "_xlfn.XLOOKUP", "_xlfn._xlws.FILTER", "SEQUENCE", "LAMBDA",
    ])
    .prop_map(|s| s.to_string())
}

/// Grammar-derived formulas (without the leading '='); the separator is chosen by the caller.
fn expr(sep: &'static str) -> BoxedStrategy<String> {
    let leaf = prop_oneof![4 => reference(), 4 => literal()].boxed();
    leaf.prop_recursive(4, 24, 4, move |inner| {
        prop_oneof![
            4 => (inner.clone(), prop::sample::select(vec!["+", "-", "*", "/", "^", "&", "=", "<>", "<=", ">=", "<", ">", ":", " ", ","]), inner.clone())
                .prop_map(|(a, op, b)| format!("{a}{op}{b}")),
            1 => inner.clone().prop_map(|a| format!("-{a}")),
            1 => inner.clone().prop_map(|a| format!("+{a}")),
            1 => inner.clone().prop_map(|a| format!("{a}%")),
            1 => inner.clone().prop_map(|a| format!("({a})")),
            1 => inner.clone().prop_map(|a| format!("@{a}")),
            1 => inner.clone().prop_map(|a| format!("{a}#")),
            5 => (prop_oneof![3 => cheap_function(), 1 => vocab_word()], prop::collection::vec(inner.clone(), 0..4))
                .prop_map(move |(f, args)| format!("{f}({})", args.join(sep))),
            1 => (inner.clone(), inner.clone()).prop_map(move |(a, b)| format!("LAMBDA(x{sep}x+{a})({b})")),
            1 => (inner.clone(), inner.clone()).prop_map(move |(a, b)| format!("LET(x{sep}{a}{sep}x&{b})")),
        ]
    })
    .boxed()
}

fn split_tokens(s: &str) -> Vec<String> {
    let mut out: Vec<String> = vec![];
    let mut cur = String::new();
    for ch in s.chars() {
        if ch.is_alphanumeric() || ch == '_' || ch == '.' {
            cur.push(ch);
        } else {
            if !cur.is_empty() {
                out.push(std::mem::take(&mut cur));
            }
            out.push(ch.to_string());
        }
    }
    if !cur.is_empty() {
        out.push(cur);
    }
    out
}

#[derive(Clone, Debug)]
enum Mutation {
    DeleteToken(usize),
    DuplicateToken(usize),
    SwapTokens(usize, usize),
    ReplaceToken(usize, String),
    InsertToken(usize, String),
    DeleteChar(usize),
    DuplicateChar(usize, usize),
    SwapChars(usize, usize),
    InsertChar(usize, char),
    Truncate(usize),
    Splice(usize, usize, String),
}

fn mutation(filler: BoxedStrategy<String>) -> impl Strategy<Value = Mutation> {
    let i = || 0..64usize;
    prop_oneof![
        3 => i().prop_map(Mutation::DeleteToken),
        2 => i().prop_map(Mutation::DuplicateToken),
        2 => (i(), i()).prop_map(|(a, b)| Mutation::SwapTokens(a, b)),
        4 => (i(), filler.clone()).prop_map(|(a, s)| Mutation::ReplaceToken(a, s)),
        2 => (i(), filler.clone()).prop_map(|(a, s)| Mutation::InsertToken(a, s)),
        2 => i().prop_map(Mutation::DeleteChar),
        1 => (i(), 1..40usize).prop_map(|(a, n)| Mutation::DuplicateChar(a, n)),
        1 => (i(), i()).prop_map(|(a, b)| Mutation::SwapChars(a, b)),
        2 => (i(), prop_oneof![3 => prop::sample::select(vec!['(', ')', '"', '\'', '{', '}', '[', ']', '!', ':', '$', '#', '@', ',', ';', '.', ' ', '%', '\\', '*', '_']), 1 => any::<char>()]).prop_map(|(a, c)| Mutation::InsertChar(a, c)),
        2 => i().prop_map(Mutation::Truncate),
        2 => (i(), i(), filler).prop_map(|(a, b, s)| Mutation::Splice(a, b, s)),
    ]
}

fn apply_mutation(s: &str, m: &Mutation) -> String {
    let mut toks = split_tokens(s);
    let mut chars: Vec<char> = s.chars().collect();
    match m {
        Mutation::DeleteToken(i) if !toks.is_empty() => {
            toks.remove(i % toks.len());
            toks.concat()
        }
        Mutation::DuplicateToken(i) if !toks.is_empty() => {
            let k = i % toks.len();
            let t = toks[k].clone();
            toks.insert(k, t);
            toks.concat()
        }
        Mutation::SwapTokens(a, b) if !toks.is_empty() => {
            let n = toks.len();
            toks.swap(a % n, b % n);
            toks.concat()
        }
        Mutation::ReplaceToken(i, t) if !toks.is_empty() => {
            let n = toks.len();
            toks[i % n] = t.clone();
            toks.concat()
        }
        Mutation::InsertToken(i, t) => {
            let n = toks.len() + 1;
            toks.insert(i % n, t.clone());
            toks.concat()
        }
        Mutation::DeleteChar(i) if !chars.is_empty() => {
            chars.remove(i % chars.len());
            chars.into_iter().collect()
        }
        Mutation::DuplicateChar(i, n) if !chars.is_empty() => {
            let k = i % chars.len();
            let c = chars[k];
            for _ in 0..*n {
                chars.insert(k, c);
            }
            chars.into_iter().collect()
        }
        Mutation::SwapChars(a, b) if !chars.is_empty() => {
            let n = chars.len();
            chars.swap(a % n, b % n);
            chars.into_iter().collect()
        }
        Mutation::InsertChar(i, c) => {
            let n = chars.len() + 1;
            chars.insert(i % n, *c);
            chars.into_iter().collect()
        }
        Mutation::Truncate(i) if !chars.is_empty() => {
            let n = chars.len();
            chars.truncate(i % n);
            chars.into_iter().collect()
        }
        Mutation::Splice(a, b, other) => {
            let o: Vec<char> = other.chars().collect();
            let ka = a % (chars.len() + 1);
            let kb = b % (o.len() + 1);
            chars[..ka].iter().chain(o[kb..].iter()).collect()
        }
        _ => s.to_string(),
    }
}

fn formula_filler() -> BoxedStrategy<String> {
    prop_oneof![
        4 => prop::sample::select(BOUNDARY_NUMBERS.to_vec()).prop_map(|s| s.to_string()),
        3 => prop::sample::select(LONG_IDENTS.to_vec()).prop_map(|s| s.to_string()),
        2 => (1..400usize, prop::sample::select(vec!['A', 'Z', '9', '(', '[', '\'', '"', '$', 'é'])).prop_map(|(n, c)| std::iter::repeat(c).take(n).collect::<String>()),
        3 => reference(),
        3 => literal(),
        2 => vocab_word(),
    ]
    .boxed()
}

/// Seed formulas taken from typical use (valid in en/en), mutated by the campaigns.
const SEED_FORMULAS: [&str; 40] = [
    "SUM(A1:B2)", "A1+B2*3", "IF(A1>0,\"yes\",\"no\")", "Sheet1!A1", "'Sheet 2'!$A$1:$B$2", "-A1%", "(1+2)*3",
    "{1,2;3,4}", "A1&\" \"&B1", "1E+10/2", "VLOOKUP(A1,$A$1:$C$10,2,FALSE)", "A:A", "1:1", "$A:$B", "A1:A2 A2:A3",
    "SUM(A1,B1,)", "#REF!+1", "#N/A", "TRUE", "Table1[Col]", "Table1[[#This Row],[Other col]]", "SUM(Table1[[Col]:[x]])",
    "nm1*2", "A1#", "@A1:A5", "LAMBDA(x,x+1)(2)", "LET(x,1,x+1)", "INDEX(A1:B2,1,2):B3", "1<>2", "\"a\"\"b\"",
    "_xlfn.XLOOKUP(1,A:A,B:B)", "SUM(Sheet1:Sheet3!A1)", "[1]Sheet1!A1", "R1C1", "R[1]C[-1]+RC", "Sheet1!R1C1:R2C2",
    "A1^2^3", "10%%", "--1", "IFERROR(1/0,#DIV/0!)",
];

fn seed_formula() -> impl Strategy<Value = String> {
    prop_oneof![
        1 => prop::sample::select(SEED_FORMULAS.to_vec()).prop_map(|s| s.to_string()),
        1 => expr(","),
        1 => expr(";"),
    ]
}

fn mutated_formula() -> impl Strategy<Value = String> {
    (seed_formula(), prop::collection::vec(mutation(formula_filler()), 1..4)).prop_map(|(s, ms)| {
        let mut t = s;
        for m in &ms {
            t = apply_mutation(&t, m);
        }
        // bounded: the campaigns enumerate cursor pairs
        t.chars().take(700).collect()
    })
}

/// Token sequences with runs of blanks between (and inside) tokens: the helpers that cut a formula
/// into token spans (completion, F4 cycling) index into the text by character offsets.
fn spaced_tokens() -> impl Strategy<Value = String> {
    let token = prop_oneof![
        6 => prop::sample::select(vec![
            "A1", "$B$2", "C$3", "S!A1", "S!$A$1", "Sheet1!B2", "Sheet1!B2:C3", "'My Sheet'!A1", "'It''s'!A1:B2", "S!A:B", "5:7",
            "$5:$7", "A:A", "AB12", "XFD1048576", "S!AB12", "Ab!c1", "T[a]", "T[[a]:[b]]", "S!", "!A1", "S!!A1", "S!A1!B2",
        ])
        .prop_map(|s| s.to_string()),
        3 => prop::sample::select(vec!["+", "-", "*", ",", ";", "(", ")", ":", "&", "=", "#", "@", "%", "{", "}"]).prop_map(|s| s.to_string()),
        2 => prop::sample::select(vec!["SUM(", "IF(", "1", "2.5", "\"a b\"", "TRUE", "x", "é!A1"]).prop_map(|s| s.to_string()),
    ];
    let blanks = prop_oneof![
        4 => Just(String::new()),
        3 => Just(" ".to_string()),
        2 => (2..7usize).prop_map(|n| " ".repeat(n)),
        1 => prop::sample::select(vec!["\t", "\n", " \n ", "\u{a0}", "  \t"]).prop_map(|s| s.to_string()),
    ];
    prop::collection::vec((blanks, token), 1..6).prop_map(|v| v.into_iter().map(|(b, t)| format!("{b}{t}")).collect::<String>())
}

/// Formula bodies (no leading '=').
fn formula_body() -> BoxedStrategy<String> {
    prop_oneof![
        3 => spaced_tokens(),
        2 => arbitrary_unicode(24),
        4 => formula_alphabet(),
        4 => expr(","),
        2 => expr(";"),
        8 => mutated_formula(),
        1 => prop::sample::select(SEED_FORMULAS.to_vec()).prop_map(|s| s.to_string()),
    ]
    .boxed()
}

/// A string strategy that shrinks by deleting chunks of characters (delta debugging): mutated
/// strings do not shrink through the strategies that built them.
#[derive(Debug)]
pub struct Ddmin(BoxedStrategy<String>);

pub struct DdminTree {
    chars: Vec<char>,
    chunk: usize,
    pos: usize,
    trial: Option<Vec<char>>,
    removed_in_last_pass: bool,
}

impl DdminTree {
    fn propose(&mut self) -> bool {
        loop {
            if self.chunk == 0 {
                return false;
            }
            if self.pos >= self.chars.len() {
                if self.chunk == 1 {
                    if !self.removed_in_last_pass {
                        self.chunk = 0;
                        return false;
                    }
                    self.removed_in_last_pass = false;
                } else {
                    self.chunk /= 2;
                }
                self.pos = 0;
                if self.chars.is_empty() {
                    self.chunk = 0;
                    return false;
                }
                continue;
            }
            let end = (self.pos + self.chunk).min(self.chars.len());
            let mut t = Vec::with_capacity(self.chars.len());
            t.extend_from_slice(&self.chars[..self.pos]);
            t.extend_from_slice(&self.chars[end..]);
            self.trial = Some(t);
            return true;
        }
    }
}

impl proptest::strategy::ValueTree for DdminTree {
    type Value = String;
    fn current(&self) -> String {
        self.trial.as_ref().unwrap_or(&self.chars).iter().collect()
    }
    fn simplify(&mut self) -> bool {
        if let Some(t) = self.trial.take() {
            // the trial still failed: keep it
            self.chars = t;
            if self.chunk == 1 {
                self.removed_in_last_pass = true;
            }
        }
        self.propose()
    }
    fn complicate(&mut self) -> bool {
        if self.trial.take().is_some() {
            self.pos += self.chunk;
        }
        self.propose()
    }
}

impl Strategy for Ddmin {
    type Tree = DdminTree;
    type Value = String;
    fn new_tree(&self, runner: &mut proptest::test_runner::TestRunner) -> proptest::strategy::NewTree<Self> {
        use proptest::strategy::ValueTree;
        let inner = self.0.new_tree(runner)?;
        let chars: Vec<char> = inner.current().chars().collect();
        let chunk = (chars.len() / 2).max(1);
        Ok(DdminTree { chars, chunk, pos: 0, trial: None, removed_in_last_pass: false })
    }
}

pub fn ddmin(s: BoxedStrategy<String>) -> Ddmin {
    Ddmin(s)
}

fn short(s: String, n: usize) -> String {
    s.chars().take(n).collect()
}

// format codes -----------------------------------------------------------------------------

const SEED_FORMATS: [&str; 44] = [
    "General", "0", "0.00", "#,##0", "#,##0.00", "0%", "0.00%", "0.00E+00", "##0.0E+0", "# ?/?", "# ??/??",
    "mm-dd-yy", "d-mmm-yy", "d-mmm", "mmm-yy", "h:mm AM/PM", "h:mm:ss AM/PM", "h:mm", "h:mm:ss", "m/d/yy h:mm",
    "#,##0 ;(#,##0)", "#,##0 ;[Red](#,##0)", "#,##0.00;[Red](#,##0.00)", "mm:ss", "[h]:mm:ss", "mmss.0", "@",
    "_(\"$\"* #,##0.00_);_(\"$\"* \\(#,##0.00\\);_(\"$\"* \"-\"??_);_(@_)", "yyyy-mm-dd", "dddd, mmmm d, yyyy",
    "[$-409]d/m/yy h:mm AM/PM;@", "[$€-407] #,##0.00", "0.0,,\"M\"", "[>=100]0.0;[<0]-0;0", "[Color 12]0;[Blue]-0",
    "\"x\"0\"y\"", "\\a0", "0.0E-0", "#.##", "000000", "???.???", "0.000000000000000000", "#,#", "[mm]:ss",
];

fn format_piece() -> impl Strategy<Value = String> {
    prop_oneof![
        8 => prop::sample::select(vec!["0", "#", "?", ".", ",", "%", "E+", "E-", "e+", "/", " ", "-", "(", ")", ":", "@", "*", "_", "\\", "\"", "General"]).prop_map(|s| s.to_string()),
        5 => prop::sample::select(vec!["d", "dd", "ddd", "dddd", "m", "mm", "mmm", "mmmm", "mmmmm", "mmmmmm", "yy", "yyyy", "y", "h", "hh", "s", "ss", "[h]", "[mm]", "[s]", "[ss]", "AM/PM", "A/P", "am/pm", ".0", ".000"]).prop_map(|s| s.to_string()),
        3 => prop::sample::select(vec!["[Red]", "[Blue]", "[Color 12]", "[Color12]", "[Color 99]", "[Color 0]", "[Color 99999999999]", "[>100]", "[<=-1.5]", "[=0]", "[<>1]", "[>1E400]", "[$-409]", "[$€-407]", "[$$-409]", "[$-F800]"]).prop_map(|s| s.to_string()),
        2 => prop::sample::select(vec!["\"text\"", "\"\"", "_)", "*x", "* ", "\\a", "é", "€", "$", "£", "¥", "😀"]).prop_map(|s| s.to_string()),
        1 => prop::sample::select(vec!["\"un", "\\", "_", "*", "\\\"", "[", "]", "[]", "[$", "[Colour]", "[>]"]).prop_map(|s| s.to_string()),
        2 => (1..60usize, prop::sample::select(vec!['0', '#', '?', ',', '.', '%', 'E', 'm', 'y', ';'])).prop_map(|(n, c)| std::iter::repeat(c).take(n).collect::<String>()),
    ]
}

fn format_section() -> impl Strategy<Value = String> {
    prop_oneof![
        2 => prop::sample::select(SEED_FORMATS.to_vec()).prop_map(|s| s.split(';').next().unwrap_or("").to_string()),
        3 => prop::collection::vec(format_piece(), 0..8).prop_map(|v| v.concat()),
    ]
}

fn format_filler() -> BoxedStrategy<String> {
    prop_oneof![
        3 => format_piece(),
        1 => prop::sample::select(BOUNDARY_NUMBERS.to_vec()).prop_map(|s| s.to_string()),
        1 => prop::sample::select(SEED_FORMATS.to_vec()).prop_map(|s| s.to_string()),
    ]
    .boxed()
}

fn format_code() -> BoxedStrategy<String> {
    let grammar = prop_oneof![12 => prop::collection::vec(format_section(), 1..5), 1 => prop::collection::vec(format_section(), 5..7)]
        .prop_map(|v| v.join(";"))
        .boxed();
    let seeds = prop::sample::select(SEED_FORMATS.to_vec()).prop_map(|s| s.to_string()).boxed();
    let base = prop_oneof![1 => seeds.clone(), 2 => grammar.clone()];
    prop_oneof![
        1 => arbitrary_unicode(16),
        2 => prop::collection::vec(format_piece(), 0..10).prop_map(|v| v.concat()),
        3 => grammar,
        1 => seeds,
        5 => (base, prop::collection::vec(mutation(format_filler()), 1..4)).prop_map(|(s, ms)| {
            let mut t = s;
            for m in &ms {
                t = apply_mutation(&t, m);
            }
            t.chars().take(400).collect()
        }),
    ]
    .boxed()
}

const SPECIAL_VALUES: [f64; 44] = [
    0.0, -0.0, 1.0, -1.0, 0.5, -0.5, 0.05, 0.999999, 0.9999999999999999, 9.5, 99.5, 999.9999, 1234.5678, -1234.5678,
    1e-7, 1e-9, 1e-10, 1e-15, 1e-300, 5e-324, 2.2250738585072014e-308, 1e10, 99999999999.0, 1e11, 123456789012345.0,
    999999999999999.0, 1e15, 1e16, 1e21, 1e22, 1e100, 1e308, f64::MAX, f64::MIN, 2147483647.0, 2147483648.0,
    -2147483649.0, 9.223372036854775807e18, 1e19, 2958465.0, 2958466.0, 2958465.9999999, -693594.0, 60.0,
];

fn value_bits() -> impl Strategy<Value = u64> {
    prop_oneof![
        4 => prop::sample::select(SPECIAL_VALUES.to_vec()).prop_map(|x| x.to_bits()),
        1 => prop::sample::select(vec![f64::NAN.to_bits(), (-f64::NAN).to_bits(), f64::INFINITY.to_bits(), f64::NEG_INFINITY.to_bits(), 0x7ff0_0000_0000_0001, 0xfff8_0000_0000_0001, 0x000f_ffff_ffff_ffff, 0x8000_0000_0000_0001]),
        3 => any::<u64>(),
        3 => (-100_000i64..100_000, 0..5u32).prop_map(|(n, d)| (n as f64 / 10f64.powi(d as i32)).to_bits()),
        2 => (0..60_000i64, 0..86_400i64).prop_map(|(d, s)| (d as f64 + s as f64 / 86_400.0).to_bits()),
        1 => (any::<i32>(), -330..310i32).prop_map(|(m, e)| (m as f64 * 10f64.powi(e)).to_bits()),
    ]
}

// cell inputs ------------------------------------------------------------------------------

fn cell_input() -> BoxedStrategy<String> {
    prop_oneof![
        10 => formula_body().prop_map(|b| format!("={b}")),
        1 => formula_body().prop_map(|b| format!("+{b}")),
        1 => formula_body().prop_map(|b| format!("-{b}")),
        1 => formula_body(),
        1 => arbitrary_unicode(20),
        2 => prop::sample::select(vec![
            "", "'", "'=1", "=", "==", "=+", "+", "-", "1e999", "-1e999", "1,234.5", "1.234,5", "$1,000", "€5", "5€", "10%", "%",
            "1/2", "1 1/2", "2024-03-01", "31/12/2023", "12/31/2023", "1-Jan", "Jan-2024", "12:30", "12:30:45 PM", "25:61",
            "1e5", "(5)", "-$1e3", "TRUE", "verdadero", "#N/A", "#DIV/0!", "#¡VALOR!", "https://example.com", " 7 ", "\t1",
            "1 000", "1\u{a0}000", "٣", "１２", "0x10", "1.", ".1", "-.5", "+.5e-3", "9999999999999999999999",
            "0.000000000000000000000000000001", "1:1:1:1", "2958466", "-1/1/1900", "29/2/1900", "30-Feb-2024",
        ]).prop_map(|s| s.to_string()),
        3 => (prop::sample::select(vec![
            "1,234.5", "$1,000", "10%", "1 1/2", "2024-03-01", "31/12/2023", "12:30:45 PM", "1e5", "(5)", "-$1e3", "1-Jan-2024",
            "January 5, 2024", "5 de enero de 2024", "1.234,56 €",
        ]).prop_map(|s| s.to_string()), prop::collection::vec(mutation(formula_filler()), 1..3)).prop_map(|(s, ms)| {
            let mut t = s;
            for m in &ms {
                t = apply_mutation(&t, m);
            }
            t.chars().take(200).collect()
        }),
    ]
    .boxed()
}

fn config_strategy() -> impl Strategy<Value = (String, String)> {
    (0..cfgs().len(), 0..4u8).prop_map(|(i, w)| {
        // half the cases in en/en (the default everybody runs), the rest spread over all configs
        let c = if w < 2 { &cfgs()[0] } else { &cfgs()[i] };
        (c.language_id.to_string(), c.locale_id.to_string())
    })
}

pub fn parse_strategy() -> BoxedStrategy<Case> {
    ddmin(formula_body()).prop_map(|text| Case::Parse { text }).boxed()
}

pub fn cursor_strategy() -> BoxedStrategy<Case> {
    let text = (formula_body(), 0..8u8)
        // every cursor pair is enumerated: keep the text short
        .prop_map(|(b, eq)| short(if eq == 0 { b } else { format!("={b}") }, 30))
        .boxed();
    (config_strategy(), ddmin(text))
        .prop_map(|((language, locale), text)| Case::Cursor { language, locale, text })
        .boxed()
}

pub fn format_strategy() -> BoxedStrategy<Case> {
    (value_bits(), ddmin(format_code())).prop_map(|(bits, format)| Case::Format { bits, format }).boxed()
}

pub fn input_strategy() -> BoxedStrategy<Case> {
    (config_strategy(), ddmin(cell_input()))
        .prop_map(|((language, locale), text)| Case::Input { language, locale, text })
        .boxed()
}

pub fn run(ctx: &Ctx) {
    super::crashsig::install_backtrace_hook();
    ctx.set_rule(
        "Strings from five generators (arbitrary Unicode; strings over the formula / format alphabets; \
         grammar-derived formulas and format codes incl. the function names, error literals and booleans of \
         every language; token- and character-level mutations of valid ones: delete, duplicate, swap, splice, \
         truncate, replace by boundary numbers / very long identifiers). parse: Parser::parse in A1 and R1C1 mode \
         + get_tokens_with_locale in every language x locale; cursor: formula_completion at every cursor \
         0..=len+1 and cycle_reference at every cursor pair; format: format_number on any f64 bit pattern in \
         every locale; input: Model::set_user_input + evaluate + read back, and UserModel::set_user_input + \
         undo/redo. Non-trivial: the English lexer produces >= 2 tokens for the formula body (format: the \
         format parser produced at least one non-error section); distinct by target + configuration + text.",
    );
    ctx.assume("generated inputs are bounded in length (<= 700 chars for parse, <= 30 for the cursor enumeration); deep nesting is probed separately by the `depth` campaign (6 nesting shapes x depths 100..100000, each parsed in a child process with the platform's default main-thread stack)");
    ctx.assume("evaluation cost: a stored formula containing a function whose cost is governed by a numeric argument (SEQUENCE, RANDARRAY, MAKEARRAY, EXPAND, MUNIT, WRAPROWS/COLS, FACT*, COMBIN*, PERMUT*, BESSEL*, SERIESSUM, MULTINOMIAL, BASE, ROMAN, TEXTJOIN), a LAMBDA, the range operator between two expressions (`A1 : XFD1048576` builds its range at run time), or a range of more than 4096 cells is parsed and stored but not evaluated (counted under excluded_by_construction)");
    ctx.assume("format codes: 'rejected' means the format parser returns no section, more than four sections, or only error sections; a code with some valid sections is only required not to panic");
    ctx.note(format!(
        "{} language x locale configurations, {} locales, vocabulary of {} localized words",
        cfgs().len(),
        locales().len(),
        vocabulary().len()
    ));
    let enc = |c: &Case| serde_json::to_value(c).unwrap_or(Value::Null);
    let (n_parse, n_cursor, n_format, n_input) = match ctx.tier {
        Tier::Quick => (30_000, 15_000, 100_000, 45_000),
        Tier::Thorough => (1_000_000, 500_000, 4_000_000, 1_500_000),
    };
    // bounded-exhaustive: every function x 0..=7 arguments x uniform argument shapes, evaluated
    let fills: [&str; 10] = ["", "1", "-1", "0.5", "70000", "\"a\"", "A1:B2", "#N/A", "{1,2;3,4}", "TRUE"];
    let mut sweep: Vec<Case> = vec![];
    let en = get_language("en").ok();
    for f in Function::into_iter() {
        let Some(en) = en else { break };
        let name = f.to_localized_name(en);
        for n in 0..=7usize {
            for fill in fills {
                if n == 0 && !fill.is_empty() {
                    continue;
                }
                let args = vec![fill; n].join(",");
                sweep.push(Case::Input { language: "en".into(), locale: "en".into(), text: format!("={name}({args})") });
            }
            if n >= 2 {
                // mixed shapes
                let mixed: Vec<&str> = (0..n).map(|i| fills[1 + (i * 3 + n) % (fills.len() - 1)]).collect();
                sweep.push(Case::Input { language: "en".into(), locale: "en".into(), text: format!("={name}({})", mixed.join(",")) });
            }
        }
    }
    ctx.note(format!("arity sweep: {} formulas ({} functions x 0..=7 arguments x {} argument shapes + mixed)", sweep.len(), Function::into_iter().count(), fills.len()));
    ctx.enumerate("arity-sweep", &sweep, check, enc);
    // nesting depth (child processes; sequential and few)
    let mut deep: Vec<Case> = vec![];
    for (open, close) in [("(", ")"), ("-", ""), ("SUM(", ")"), ("{", "}"), ("@", ""), ("1+", "")] {
        for n in [100usize, 1_000, 10_000, 100_000] {
            deep.push(Case::Depth { open: open.to_string(), close: close.to_string(), n });
        }
    }
    ctx.enumerate("depth", &deep, check, enc);
    ctx.campaign("parse", n_parse, parse_strategy, check, enc);
    ctx.campaign("cursor", n_cursor, cursor_strategy, check, enc);
    ctx.campaign("format", n_format, format_strategy, check, enc);
    ctx.campaign("input", n_input, input_strategy, check, enc);
}

pub fn replay(_ctx: &Ctx, _campaign: &str, case: &Value) -> Result<Outcome, String> {
    super::crashsig::install_backtrace_hook();
    let c: Case = serde_json::from_value(case.clone()).map_err(|e| e.to_string())?;
    Ok(check(&c))
}
