//! C32 — Defined names are stable under edits.
//!
//! Workbook: sheets `Main`, `Data`, `Other A`, `Zeta`; data in A1:C4 of every sheet; names
//!   g_cell  (global)      Data!$A$2
//!   g_rng   (global)      Data!$A$1:$B$3
//!   g_lam   (global)      LAMBDA(x, x + (<generated, reads Data and g_cell/g_rng>))
//!   l_cell  (local Main)  Main!$B$2
//!   l_lam   (local Main)  LAMBDA(x, x * g_cell + (<generated>))
//!   dup     (global)      Data!$C$1   and   dup (local Main)  Main!$A$4      [optional pair]
//! typed in the starting language / locale; 1..6 formula cells on any sheet that use the names
//! (leaf or call), typed localized. `Other A` and `Zeta` are the *other* sheets: no name is scoped
//! to them or mentions them, no formula refers to them.
//!
//! Operations: set_language, set_locale, rename / move / delete of an other sheet, duplicate of
//! any sheet, binary round trip, xlsx round trip, rename of a name (`update_defined_name` with
//! the formula the name list shows).
//!
//! Oracle after every operation: the stored formula of every name that existed before (keyed by
//! lower-case name and scope sheet; a leading `=` is not significant) is unchanged and still
//! there, and every cell that existed before on a surviving sheet has the same typed value.
//! After renaming a name: the name is found under its new spelling with the same stored formula,
//! every formula that used it is displayed as before with the new spelling in place of the old,
//! every other name is unchanged, and all values are unchanged.

use std::collections::BTreeMap;

use ironcalc_base::expressions::parser::stringify::to_localized_string;
use ironcalc_base::expressions::parser::Node;
use ironcalc_base::expressions::types::CellReferenceRC;
use ironcalc_base::language::get_language;
use ironcalc_base::locale::get_locale;
use ironcalc_base::Model;
use proptest::prelude::*;
use serde::{Deserialize, Serialize};
use serde_json::Value;

use super::c10::{accepted_in_active_configuration, no_right_nested_sums, decimal_comma, evaluation_assertion, first_diff, formula_node, has_parse_error, leak, map_nodes, show_tv, val, Val};
use super::formula_gen::{self as fg, BinOp, FTree, Profile, Style};
use crate::engine::config;
use crate::engine::snapshot::{typed_value, TV};
use crate::engine::{panics, Ctx, Outcome, Tier};

pub const SHEETS: [&str; 4] = ["Main", "Data", "Other A", "Zeta"];
pub const HOST_COL: i32 = 5;

#[derive(Clone, Debug, Serialize, Deserialize)]
pub enum Op {
    Language(String),
    Locale(String),
    /// rename the `which`-th other sheet
    RenameOther { which: u8, name: String },
    /// move the `which`-th other sheet to position `to`
    MoveOther { which: u8, to: u8 },
    DeleteOther { which: u8 },
    /// duplicate any sheet (selector over all sheets)
    Duplicate { sheet: u8 },
    Binary,
    Xlsx,
    /// rename the `which`-th defined name (order of `workbook.defined_names`)
    RenameName { which: u8, name: String },
}

impl Op {
    fn kind(&self) -> &'static str {
        match self {
            Op::Language(_) => "set_language",
            Op::Locale(_) => "set_locale",
            Op::RenameOther { .. } => "rename-other-sheet",
            Op::MoveOther { .. } => "move-other-sheet",
            Op::DeleteOther { .. } => "delete-other-sheet",
            Op::Duplicate { .. } => "duplicate-sheet",
            Op::Binary => "binary-round-trip",
            Op::Xlsx => "xlsx-round-trip",
            Op::RenameName { .. } => "rename-name",
        }
    }
}

#[derive(Clone, Debug, Serialize, Deserialize)]
pub struct Case {
    pub language: String,
    pub locale: String,
    pub lam_g: FTree,
    pub lam_l: FTree,
    pub with_dup: bool,
    /// LAMBDA names typed with a leading `=`
    pub eq: bool,
    /// (sheet selector 0..4, formula)
    pub cells: Vec<(u8, FTree)>,
    pub ops: Vec<Op>,
    #[serde(default)]
    pub avoid: Vec<String>,
}

/// rename of a sheet / of a name re-parses stored formulas with the active language and locale
pub const AVOID_REPARSE: &str = "c32-reparse-under-other-configuration";
/// renaming a name does not reach LAMBDA calls and other names' formulas
pub const AVOID_RENAME_CALLED: &str = "c32-rename-name-used-by-call-or-name";

// ------------------------------------------------------------------------------------------------
// generator

const FUNCS: [(&str, usize, usize); 10] =
    [("SUM", 1, 3), ("MAX", 1, 2), ("MIN", 1, 2), ("IF", 2, 3), ("ROUND", 2, 2), ("ABS", 1, 1), ("INDEX", 2, 3), ("COUNT", 1, 2), ("IFERROR", 2, 2), ("AVERAGE", 1, 2)];

fn base_profile() -> Profile {
    let mut p = Profile::all();
    p.functions = FUNCS.to_vec();
    // no `&`: number -> text -> number conversions depend on the locale by definition
    p.binary = vec![BinOp::Add, BinOp::Sub, BinOp::Mul, BinOp::Div, BinOp::Lt, BinOp::Eq];
    // single cells only: a range in a scalar position is implicit-intersection territory (C24)
    p.ranges = false;
    p.sheets = vec!["Main".into(), "Data".into()];
    p.sheet_pct = 30;
    p.max_col = 3;
    p.max_row = 4;
    p.edge_refs = false;
    p.spaces_pct = 0;
    p.extra_parens_pct = 5;
    p.errors = false;
    p.arrays = false;
    p.lambdas = false;
    p.let_ = false;
    p.at = true; // `@name`: a rename has to descend into the operand
    p.spill = false;
    p.full_ranges = false;
    p.strings = false;
    p.empty_args = false;
    p
}

fn cell_profile() -> Profile {
    let mut p = base_profile();
    p.names = ["g_cell", "g_rng", "l_cell", "dup"].iter().map(|s| s.to_string()).collect();
    p.functions.push(("g_lam", 1, 1));
    p.functions.push(("l_lam", 1, 1));
    // names often
    p.ref_weight = 4;
    p
}

fn lambda_profile() -> Profile {
    let mut p = base_profile();
    p.names = ["g_cell", "g_rng"].iter().map(|s| s.to_string()).collect();
    p.sheets = vec!["Data".into()];
    p.sheet_pct = 100;
    p
}

fn sanitize(t: &FTree) -> FTree {
    let t = fg::map_children(t, &sanitize, &|n| match n {
        FTree::Num(s) if s.len() > 15 => FTree::Num("1234.5".into()),
        // the range name is only used where a range is expected
        FTree::Name(n) if n == "g_rng" => FTree::func("SUM", vec![FTree::Name(n)]),
        // `@` only directly on a name (`@g_cell`): on anything else the xlsx printer drops an
        // explicit `@` and the value changes (listed under C09 / C24)
        FTree::At(x) if !matches!(x.as_ref(), FTree::Name(_)) => *x,
        FTree::Func { name, args } if ["SUM", "MAX", "MIN", "COUNT", "AVERAGE", "INDEX"].contains(&name.as_str()) => {
            let keep_first_only = name == "INDEX";
            let args = args
                .into_iter()
                .enumerate()
                .map(|(i, a)| match &a {
                    FTree::Func { name: inner, args: inner_args } if inner == "SUM" && inner_args.len() == 1 && matches!(&inner_args[0], FTree::Name(x) if x == "g_rng") && (!keep_first_only || i == 0) => {
                        inner_args[0].clone()
                    }
                    _ => a,
                })
                .collect();
            // INDEX(range, row) alone is a whole row of the range: an array in a scalar position,
            // which the xlsx importer marks with `@` (listed under C24)
            let mut args: Vec<FTree> = args;
            if name == "INDEX" && args.len() == 2 {
                args.push(FTree::num(1));
            }
            FTree::Func { name, args }
        }
        o => o,
    });
    no_right_nested_sums(&t)
}

/// Trees whose leaves are mostly names: a generated tree with some number leaves replaced.
fn cell_tree(depth: u32) -> BoxedStrategy<FTree> {
    let names = ["g_cell", "g_rng", "l_cell", "dup"];
    let calls = ["g_lam", "l_lam"];
    (fg::source_strategy(&cell_profile(), depth, 3, 80), 0..names.len(), 0..calls.len(), 0..5u8)
        .prop_map(move |(t, i, j, shape)| {
            // make sure a name is really used
            let t = match shape {
                0 => FTree::bin(BinOp::Add, FTree::Name(names[i].to_string()), FTree::paren(t)),
                1 => FTree::func(calls[j], vec![t]),
                2 => FTree::func("SUM", vec![FTree::Name(names[i].to_string()), FTree::func(calls[j], vec![FTree::Num("1.5".into())]), t]),
                3 => FTree::bin(BinOp::Mul, FTree::func("INDEX", vec![FTree::Name("g_rng".into()), FTree::num(2), FTree::num(1)]), FTree::paren(t)),
                _ => t,
            };
            sanitize(&t)
        })
        .boxed()
}

fn lambda_tree(depth: u32) -> BoxedStrategy<FTree> {
    fg::source_strategy(&lambda_profile(), depth, 2, 80).prop_map(|t| sanitize(&t)).boxed()
}

const SHEET_NAMES: [&str; 8] = ["Renamed", "Hoja 2", "Año", "Data&Co", "x.y", "other a", "B2", "Main (1)"];
const NAME_NAMES: [&str; 8] = ["nm_new", "Total", "tasa.2", "G_CELL", "año", "x_1", "g_lam2", "L_Lam"];

fn op_strategy() -> BoxedStrategy<Op> {
    let langs = config::LANGUAGES;
    let locales = config::locales();
    let nloc = locales.len();
    prop_oneof![
        3 => (0..langs.len()).prop_map(move |i| Op::Language(langs[i].to_string())),
        3 => (0..nloc).prop_map(move |i| Op::Locale(locales[i].clone())),
        3 => (0..4u8, 0..SHEET_NAMES.len()).prop_map(|(which, i)| Op::RenameOther { which, name: SHEET_NAMES[i].to_string() }),
        3 => (0..4u8, 0..8u8).prop_map(|(which, to)| Op::MoveOther { which, to }),
        1 => (0..4u8).prop_map(|which| Op::DeleteOther { which }),
        2 => (0..8u8).prop_map(|sheet| Op::Duplicate { sheet }),
        2 => Just(Op::Binary),
        1 => Just(Op::Xlsx),
        4 => (0..8u8, 0..NAME_NAMES.len()).prop_map(|(which, i)| Op::RenameName { which, name: NAME_NAMES[i].to_string() }),
    ]
    .boxed()
}

fn case_strategy(depth: u32, max_ops: usize, avoid: Vec<String>) -> BoxedStrategy<Case> {
    let cfgs = config::configs();
    let n = cfgs.len();
    (
        // half of the cases start in en/en
        prop_oneof![1 => Just(None), 2 => (0..n).prop_map(Some)],
        lambda_tree(depth.min(2)),
        lambda_tree(depth.min(2)),
        any::<bool>(),
        any::<bool>(),
        prop::collection::vec((0..4u8, cell_tree(depth)), 1..=6),
        prop::collection::vec(op_strategy(), 1..=max_ops),
    )
        .prop_map(move |(cfg, lam_g, lam_l, with_dup, eq, cells, ops)| {
            let (language, locale) = match cfg {
                None => ("en".to_string(), "en".to_string()),
                Some(i) => cfgs[i].clone(),
            };
            Case { language, locale, lam_g, lam_l, with_dup, eq, cells, ops, avoid: avoid.clone() }
        })
        .boxed()
}

// ------------------------------------------------------------------------------------------------
// building

fn lambda_g(body: &FTree) -> FTree {
    no_right_nested_sums(&FTree::Lambda { params: vec![("x".into(), false)], body: Box::new(FTree::bin(BinOp::Add, FTree::Name("x".into()), FTree::paren(body.clone()))), call: None })
}

fn lambda_l(body: &FTree) -> FTree {
    no_right_nested_sums(&FTree::Lambda {
        params: vec![("x".into(), false)],
        body: Box::new(FTree::bin(BinOp::Add, FTree::bin(BinOp::Mul, FTree::Name("x".into()), FTree::Name("g_cell".into())), FTree::paren(body.clone()))),
        call: None,
    })
}

struct Built {
    model: Model<'static>,
    accepted: usize,
    rejected: usize,
}

fn build(case: &Case) -> Result<Built, String> {
    let style = Style::new(&case.language, &case.locale)?;
    let mut m = Model::new_empty("c32", leak(&case.locale), "UTC", leak(&case.language))?;
    m.rename_sheet_by_index(0, SHEETS[0])?;
    for s in &SHEETS[1..] {
        m.add_sheet(s)?;
    }
    for s in 0..SHEETS.len() as u32 {
        super::c17::fill_data(&mut m, s)?;
    }
    let eq = if case.eq { "=" } else { "" };
    m.new_defined_name("g_cell", None, "Data!$A$2")?;
    m.new_defined_name("g_rng", None, "Data!$A$1:$B$3")?;
    m.new_defined_name("l_cell", Some(0), "Main!$B$2")?;
    if case.with_dup {
        m.new_defined_name("dup", None, "Data!$C$1")?;
        m.new_defined_name("dup", Some(0), "Main!$A$4")?;
    }
    // a generated body the parser rejects in this configuration falls back to a plain one
    let g_text = fg::print(&lambda_g(&case.lam_g), &style);
    if !accepted_in_active_configuration(&m, &g_text) || m.new_defined_name("g_lam", None, &format!("{eq}{g_text}")).is_err() {
        m.new_defined_name("g_lam", None, &format!("{eq}{}", fg::print(&lambda_g(&FTree::num(1)), &style)))?;
    }
    let l_text = fg::print(&lambda_l(&case.lam_l), &style);
    if !accepted_in_active_configuration(&m, &l_text) || m.new_defined_name("l_lam", Some(0), &format!("{eq}{l_text}")).is_err() {
        m.new_defined_name("l_lam", Some(0), &format!("{eq}{}", fg::print(&lambda_l(&FTree::num(1)), &style)))?;
    }
    let mut per_sheet = vec![0i32; SHEETS.len()];
    let (mut accepted, mut rejected) = (0, 0);
    for (sel, tree) in &case.cells {
        let s = *sel as usize % SHEETS.len();
        let row = 6 + 4 * per_sheet[s];
        per_sheet[s] += 1;
        let text = format!("={}", fg::print(tree, &style));
        if m.set_user_input(s as u32, row, HOST_COL, text).is_err() {
            rejected += 1;
            continue;
        }
        let bad = match formula_node(&m, s as u32, row, HOST_COL) {
            Some(n) => has_parse_error(&n),
            None => true,
        };
        if bad {
            m.set_user_input(s as u32, row, HOST_COL, String::new())?;
            rejected += 1;
        } else {
            accepted += 1;
        }
    }
    m.evaluate();
    Ok(Built { model: m, accepted, rejected })
}

// ------------------------------------------------------------------------------------------------
// observation (keyed by sheet identity labels kept by the check, parallel to the sheet vector)

struct Obs {
    /// (lower-case name, scope label) -> stored formula without leading '='
    names: BTreeMap<(String, Option<String>), String>,
    values: BTreeMap<(String, i32, i32), Val>,
    /// displayed formulas
    shown: BTreeMap<(String, i32, i32), String>,
}

fn observe(m: &Model, labels: &[String]) -> Result<Obs, String> {
    if labels.len() != m.workbook.worksheets.len() {
        return Err(format!("{} sheets, {} labels", m.workbook.worksheets.len(), labels.len()));
    }
    let mut names = BTreeMap::new();
    for d in &m.workbook.defined_names {
        let scope = match d.sheet_id {
            None => None,
            Some(id) => match m.workbook.worksheets.iter().position(|w| w.sheet_id == id) {
                Some(i) => Some(labels[i].clone()),
                None => Some(format!("<no sheet with id {id}>")),
            },
        };
        let text = d.formula.strip_prefix('=').unwrap_or(&d.formula).to_string();
        if names.insert((d.name.to_lowercase(), scope.clone()), text).is_some() {
            return Err(format!("two names {:?} with scope {:?}", d.name, scope));
        }
    }
    let mut values = BTreeMap::new();
    let mut shown = BTreeMap::new();
    for (si, ws) in m.workbook.worksheets.iter().enumerate() {
        for (&r, rd) in &ws.sheet_data {
            for (&c, cell) in rd {
                let v = typed_value(Some(cell), &m.workbook.shared_strings);
                if v != TV::Empty {
                    values.insert((labels[si].clone(), r, c), val(&v));
                }
                if cell.get_formula().is_some() {
                    shown.insert((labels[si].clone(), r, c), m.get_cell_formula(si as u32, r, c)?.unwrap_or_default());
                }
            }
        }
    }
    Ok(Obs { names, values, shown })
}

fn cfg_class(language: &str, locale: &str) -> String {
    format!("{language}/{}", if decimal_comma(locale) { "comma" } else { "point" })
}

fn s_opt(v: Option<&String>) -> String {
    v.cloned().unwrap_or_else(|| "<absent>".into())
}

/// Expected display of a formula after renaming the name (`old`, scope index `scope`): rewrite
/// name leaves and calls that resolve to that name from the hosting sheet.
fn display_after_rename(m_before: &Model, node: &Node, host: u32, row: i32, col: i32, old: &str, scope: Option<u32>, new: &str, local_names_on_host: &[String]) -> String {
    let mut n = node.clone();
    let old_l = old.to_lowercase();
    map_nodes(&mut n, &mut |x| match x {
        Node::DefinedNameKind((name, s, _)) => {
            if name.to_lowercase() == old_l && *s == scope {
                *name = new.to_string();
            }
        }
        Node::NamedFunctionKind { name, .. } => {
            if name.to_lowercase() == old_l {
                let resolves_to = if local_names_on_host.iter().any(|l| *l == old_l) { Some(host) } else { None };
                if resolves_to == scope {
                    *name = new.to_string();
                }
            }
        }
        _ => {}
    });
    let ctx = CellReferenceRC { sheet: m_before.workbook.worksheets[host as usize].get_name(), row, column: col };
    let loc = get_locale(&m_before.get_locale()).expect("locale");
    let lang = get_language(&m_before.get_language()).expect("language");
    format!("={}", to_localized_string(&n, &ctx, loc, lang))
}

fn uses_call_of(node: &Node, name_l: &str) -> bool {
    let mut b = false;
    crate::engine::nodes::walk(node, &mut |x| {
        if let Node::NamedFunctionKind { name, .. } = x {
            if name.to_lowercase() == name_l {
                b = true;
            }
        }
    });
    b
}

// ------------------------------------------------------------------------------------------------
// check

pub fn check(case: &Case) -> Outcome {
    match panics::catch(|| check_inner(case)) {
        Ok(o) => o,
        Err(p) if evaluation_assertion(&p) => Outcome::pass().label("evaluation-debug-assertion"),
        Err(p) => Outcome::pass().fail(format!("C32:{}", p.class()), p.describe()),
    }
}

fn check_inner(case: &Case) -> Outcome {
    let mut o = Outcome::pass();
    let avoid = |s: &str| case.avoid.iter().any(|a| a == s);
    let built = match build(case) {
        Ok(b) => b,
        Err(e) => return o.fail("C32:setup", e),
    };
    let mut m = built.model;
    for _ in 0..built.accepted {
        o = o.label("formula-accepted");
    }
    for _ in 0..built.rejected {
        o = o.label("formula-rejected");
    }
    let mut labels: Vec<String> = SHEETS.iter().map(|s| s.to_string()).collect();
    // identity labels of the other sheets (may be renamed, moved, deleted)
    let mut others: Vec<String> = vec![SHEETS[2].to_string(), SHEETS[3].to_string()];
    let (mut language, mut locale) = (case.language.clone(), case.locale.clone());
    let mut non_english_op = false;
    let mut copies = 0;
    for (k, op) in case.ops.iter().enumerate() {
        let before = match observe(&m, &labels) {
            Ok(x) => x,
            Err(e) => return o.fail("C32:setup", format!("before op {k}: {e}")),
        };
        let here = format!("op {k} {op:?} [{language}/{locale}; sheets {:?}]", m.workbook.get_worksheet_names());
        let class = cfg_class(&language, &locale);
        let english = language == "en" && locale == "en";
        let mut deleted: Option<String> = None;
        let mut new_sheet: Option<String> = None;
        let mut renamed_name: Option<((String, Option<String>), String)> = None;
        match op {
            Op::Language(id) => {
                if let Err(e) = m.set_language(id) {
                    return o.fail("C32:setup", format!("{here}: {e}"));
                }
                language = id.clone();
            }
            Op::Locale(id) => {
                if let Err(e) = m.set_locale(id) {
                    return o.fail("C32:setup", format!("{here}: {e}"));
                }
                locale = id.clone();
            }
            Op::RenameOther { which, name } => {
                if others.is_empty() {
                    o = o.label("no-other-sheet");
                    continue;
                }
                if avoid(AVOID_REPARSE) && !english {
                    o.excluded += 1;
                    continue;
                }
                let label = &others[*which as usize % others.len()];
                let idx = labels.iter().position(|l| l == label).expect("label") as u32;
                if m.rename_sheet_by_index(idx, name).is_err() {
                    o = o.label("rename-refused");
                    continue;
                }
            }
            Op::MoveOther { which, to } => {
                if others.is_empty() {
                    o = o.label("no-other-sheet");
                    continue;
                }
                let label = others[*which as usize % others.len()].clone();
                let idx = labels.iter().position(|l| *l == label).expect("label");
                let to = *to as usize % labels.len();
                if let Err(e) = m.move_sheet(idx as u32, to as u32) {
                    return o.fail("C32:move-other-sheet:refused", format!("{here}: {e}"));
                }
                let l = labels.remove(idx);
                labels.insert(to, l);
            }
            Op::DeleteOther { which } => {
                if others.is_empty() {
                    o = o.label("no-other-sheet");
                    continue;
                }
                let w = *which as usize % others.len();
                let label = others.remove(w);
                let idx = labels.iter().position(|l| *l == label).expect("label");
                if let Err(e) = m.delete_sheet(idx as u32) {
                    return o.fail("C32:delete-other-sheet:refused", format!("{here}: {e}"));
                }
                labels.remove(idx);
                deleted = Some(label);
            }
            Op::Duplicate { sheet } => {
                if labels.len() >= 7 {
                    o = o.label("duplicate-skipped:many-sheets");
                    continue;
                }
                let idx = *sheet as usize % labels.len();
                let (_, new_index) = match m.duplicate_sheet(idx as u32) {
                    Ok(x) => x,
                    Err(e) => return o.fail("C32:duplicate-sheet:refused", format!("{here}: {e}")),
                };
                copies += 1;
                let label = format!("copy{copies} of {}", labels[idx]);
                if others.contains(&labels[idx]) {
                    others.push(label.clone());
                }
                labels.insert(new_index as usize, label.clone());
                new_sheet = Some(label);
            }
            Op::Binary => {
                let bytes = m.to_bytes();
                m = match Model::from_bytes(&bytes, leak(&language)) {
                    Ok(x) => x,
                    Err(e) => return o.fail("C32:binary-round-trip:load-fails", format!("{here}: {e}")),
                };
            }
            Op::Xlsx => {
                let buf = std::io::Cursor::new(Vec::new());
                let bytes = match ironcalc::export::save_xlsx_to_writer(&m, buf) {
                    Ok(w) => w.into_inner(),
                    Err(e) => return o.fail("C32:xlsx-round-trip:save-fails", format!("{here}: {e:?}")),
                };
                let wb = match ironcalc::import::load_from_xlsx_bytes(&bytes, "c32", &locale, "UTC") {
                    Ok(w) => w,
                    Err(e) => return o.fail("C32:xlsx-round-trip:load-fails", format!("{here}: {e:?}")),
                };
                m = match Model::from_workbook(wb, leak(&language)) {
                    Ok(x) => x,
                    Err(e) => return o.fail("C32:xlsx-round-trip:from_workbook-fails", format!("{here}: {e}")),
                };
            }
            Op::RenameName { which, name } => {
                let n = m.workbook.defined_names.len();
                if n == 0 {
                    continue;
                }
                if avoid(AVOID_REPARSE) && !english {
                    o.excluded += 1;
                    continue;
                }
                let d = m.workbook.defined_names[*which as usize % n].clone();
                let scope = d.sheet_id.and_then(|id| m.workbook.worksheets.iter().position(|w| w.sheet_id == id)).map(|i| i as u32);
                if d.sheet_id.is_some() && scope.is_none() {
                    continue;
                }
                let old_l = d.name.to_lowercase();
                // the new spelling must be free in every scope (a name shadowed by, or shadowing,
                // another one changes what formulas bind to; not part of the claim)
                if name.to_lowercase() != old_l && m.workbook.defined_names.iter().any(|x| x.name.to_lowercase() == name.to_lowercase()) {
                    o = o.label("rename-name-skipped:spelling-in-use");
                    continue;
                }
                if avoid(AVOID_RENAME_CALLED) {
                    // the name is called somewhere, or another name's formula mentions it
                    let called = m.parsed_formulas.iter().flatten().any(|(node, _)| uses_call_of(node, &old_l));
                    let mentioned = m.workbook.defined_names.iter().any(|x| x.name.to_lowercase() != old_l && mentions_identifier(&x.formula, &old_l));
                    if called || mentioned {
                        o.excluded += 1;
                        continue;
                    }
                }
                let shown = m.get_defined_name_list().into_iter().find(|(nm, sc, _)| nm.to_lowercase() == old_l && *sc == scope).map(|x| x.2);
                let Some(shown) = shown else {
                    return o.fail("C32:rename-name:name-not-listed", format!("{here}: {:?} not in get_defined_name_list", d.name));
                };
                // expected displays, computed before the operation
                let mut expected: BTreeMap<(String, i32, i32), String> = BTreeMap::new();
                for (si, ws) in m.workbook.worksheets.iter().enumerate() {
                    let locals: Vec<String> = m.workbook.defined_names.iter().filter(|x| x.sheet_id == Some(ws.sheet_id)).map(|x| x.name.to_lowercase()).collect();
                    for (&r, rd) in &ws.sheet_data {
                        for (&c, cell) in rd {
                            if cell.get_formula().is_some() {
                                if let Some(node) = formula_node(&m, si as u32, r, c) {
                                    expected.insert((labels[si].clone(), r, c), display_after_rename(&m, &node, si as u32, r, c, &d.name, scope, name, &locals));
                                }
                            }
                        }
                    }
                }
                if m.update_defined_name(&d.name, scope, name, scope, &shown).is_err() {
                    o = o.label("rename-name-refused");
                    continue;
                }
                m.evaluate();
                o = o.label("rename-name");
                let after = match observe(&m, &labels) {
                    Ok(x) => x,
                    Err(e) => return o.fail("C32:setup", format!("{here}: {e}")),
                };
                if let Some(d2) = first_diff(&expected, &after.shown, &s_opt) {
                    let key = expected.iter().find(|(k, v)| after.shown.get(*k) != Some(*v)).map(|(k, _)| k.clone());
                    let kind = key
                        .and_then(|k| {
                            let si = labels.iter().position(|l| *l == k.0)?;
                            // the node before is gone; classify from the displayed text before
                            before.shown.get(&(labels[si].clone(), k.1, k.2)).cloned()
                        })
                        .map(|text| if text.to_lowercase().contains(&format!("{old_l}(")) { "call" } else { "leaf" })
                        .unwrap_or("?");
                    return o.fail(format!("C32:rename-name:formula-text:used-as-{kind}:{class}"), format!("{here}: renaming {:?} (scope {scope:?}) to {name:?}: expected -> shown: {d2}", d.name));
                }
                let scope_label = scope.map(|i| labels[i as usize].clone());
                renamed_name = Some(((old_l.clone(), scope_label), name.to_lowercase()));
            }
        }
        m.evaluate();
        if !(language == "en" && locale == "en") {
            non_english_op = true;
        }
        o = o.label(format!("op:{}", op.kind()));
        let after = match observe(&m, &labels) {
            Ok(x) => x,
            Err(e) => return o.fail(format!("C32:{}:observe", op.kind()), format!("{here}: {e}")),
        };
        // names
        let mut expected_names = before.names.clone();
        if let Some(((old, scope), new)) = &renamed_name {
            if let Some(text) = expected_names.remove(&(old.clone(), scope.clone())) {
                expected_names.insert((new.clone(), scope.clone()), text);
            }
        }
        let mut actual_names = after.names.clone();
        if let Some(label) = &new_sheet {
            // names scoped to the copy are new
            actual_names.retain(|k, _| k.1.as_ref() != Some(label));
        }
        if let Some(d) = first_diff(&expected_names, &actual_names, &s_opt) {
            let which = expected_names.iter().find(|(k, v)| actual_names.get(*k) != Some(*v)).map(|(k, v)| (k.clone(), v.clone()));
            let what = match &which {
                Some((k, v)) => {
                    let kind = if v.to_uppercase().starts_with("LAMBDA(") { "lambda" } else { "reference" };
                    let gone = if actual_names.contains_key(k) { "text" } else { "missing" };
                    format!("{gone}:{kind}")
                }
                None => "extra-name".into(),
            };
            return o.fail(format!("C32:{}:name-{what}:{class}", op.kind()), format!("{here}: (name, scope) stored before -> after: {d}"));
        }
        // values of surviving cells
        let mut expected_values = before.values.clone();
        if let Some(label) = &deleted {
            expected_values.retain(|k, _| k.0 != *label);
        }
        let mut actual_values = after.values.clone();
        if let Some(label) = &new_sheet {
            actual_values.retain(|k, _| k.0 != *label);
        }
        if let Some(d) = first_diff(&expected_values, &actual_values, &show_tv) {
            let key = expected_values.iter().find(|(k, v)| actual_values.get(*k) != Some(*v)).map(|(k, _)| k.clone());
            let text = key.and_then(|k| before.shown.get(&k).cloned()).unwrap_or_default();
            let uses = if text.contains("_lam(") || text.contains("_lam2(") { "call" } else if text.is_empty() { "not-a-formula" } else { "leaf-or-none" };
            return o.fail(format!("C32:{}:value:uses-{uses}:{class}", op.kind()), format!("{here}: (sheet, row, column) value before -> after: {d}; formula shown before: {text}; names after: {:?}", after.names));
        }
    }
    let has_lambda = true;
    let has_local = true;
    if has_lambda && has_local && non_english_op {
        o = o.nontrivial(serde_json::to_string(case).unwrap_or_default());
    }
    o
}

/// Does `text` mention `ident` (lower-case) as a whole identifier?
fn mentions_identifier(text: &str, ident: &str) -> bool {
    let lower = text.to_lowercase();
    let mut start = 0;
    while let Some(pos) = lower[start..].find(ident) {
        let a = start + pos;
        let b = a + ident.len();
        let before_ok = a == 0 || !lower[..a].chars().next_back().map(|c| c.is_alphanumeric() || c == '_' || c == '.').unwrap_or(false);
        let after_ok = b >= lower.len() || !lower[b..].chars().next().map(|c| c.is_alphanumeric() || c == '_' || c == '.').unwrap_or(false);
        if before_ok && after_ok {
            return true;
        }
        start = b;
    }
    false
}

pub fn run(ctx: &Ctx) {
    ctx.set_rule(
        "workbook Main/Data/Other A/Zeta with global names (cell, range, LAMBDA), names local to Main (cell, LAMBDA) and optionally a \
         name defined both globally and locally, typed in a generated starting language/locale (1/3 en/en); 1..6 formula cells using \
         the names as leaves and calls; 1..6 (quick) / 1..16 (thorough) operations: set_language, set_locale, rename/move/delete of an \
         other sheet, duplicate of any sheet, binary and xlsx round trip, rename of a name. Every case has a LAMBDA name and a \
         sheet-local name; non-trivial = at least one operation executed while language/locale is not en/en; distinct by the case.",
    );
    ctx.assume("a name is renamed to a spelling that no name in any scope uses");
    ctx.assume("other sheets = sheets that are neither the scope of a name nor mentioned by a name; formulas never refer to them");
    ctx.assume("a leading '=' of a stored defined-name formula is not significant (the xlsx writer drops it)");
    ctx.assume("formulas use arithmetic, comparisons and ten plain functions (no arrays / spills), so that the file round trips are about names, not about C24/C26 formula coverage");
    ctx.assume("names created by duplicate_sheet for the copy and the values on the copy are not asserted (C17)");
    let mut avoid = vec![];
    for s in [AVOID_REPARSE, AVOID_RENAME_CALLED] {
        if ctx.avoid(s) {
            avoid.push(s.to_string());
        }
    }
    let (cases, depth, ops) = match ctx.tier {
        Tier::Quick => (30000, 2, 6),
        Tier::Thorough => (400000, 3, 16),
    };
    let enc = |c: &Case| serde_json::to_value(c).unwrap_or(Value::Null);
    ctx.campaign("name-ops", cases, || case_strategy(depth, ops, avoid.clone()), check, enc);
}

pub fn replay(_ctx: &Ctx, _campaign: &str, case: &Value) -> Result<Outcome, String> {
    let c: Case = serde_json::from_value(case.clone()).map_err(|e| e.to_string())?;
    Ok(check(&c))
}
