//! C10 — Display language and locale never change what formulas compute.
//!
//! Two campaigns.
//!
//! **pairs** (enumeration): every ordered pair of configurations (language x locale) c1 -> c2 and a
//! list of formula source trees (fixed, hand-written ones in both tiers; generated ones in the
//! thorough tier). The formula is typed in c1 (printed by `formula_gen` in that language /
//! locale). Then
//!   * parser level: the node the engine parsed is displayed by the engine in c2
//!     (`to_localized_string`) and parsed by a `Parser` configured for c2: same `Node`;
//!   * model level: `set_language` then `set_locale` to c2 — after each, every typed cell value,
//!     the stored text of every formula cell (`shared_formulas`), the stored defined names and the
//!     stored conditional formats are unchanged (values also after `evaluate`); the formula is
//!     then read with `get_cell_formula` and typed again in c2: the stored text and the values are
//!     the same; switching back to c1 displays the text that was displayed there before.
//!
//! **histories** (proptest): a workbook (two sheets, data, global / sheet-local / LAMBDA names, a
//! formula conditional format, formula cells) is built in a starting configuration and a history of
//! language switches, locale switches, formula edits (typed in the *current* configuration), data
//! edits and sheet renames is applied to it. A *twin* workbook that always stays in en/en receives
//! the same history without the switches; a formula edit reaches the twin as the English display
//! (`to_localized_string(.., en, en)`) of the node the primary parsed — i.e. "shown in another
//! configuration and re-entered there". After every step: primary and twin agree on all typed
//! values, the stored text of every formula cell, the stored names and conditional formats and
//! the conditional-format results. After every switch additionally: nothing stored and no value
//! changed, and re-entering what `get_cell_formula` / `get_defined_name_list` /
//! `get_conditional_formatting_list` show reproduces the stored text.
//!
//! Values are compared typed (number bit-exact, text, boolean, error kind from the cell records).

use std::collections::BTreeMap;
use std::sync::Mutex;

use ironcalc_base::cf_types::{CfRule, CfRuleInput};
use ironcalc_base::expressions::parser::stringify::to_localized_string;
use ironcalc_base::expressions::parser::{Node, Parser};
use ironcalc_base::expressions::types::CellReferenceRC;
use ironcalc_base::language::get_language;
use ironcalc_base::locale::get_locale;
use ironcalc_base::types::{Color, Dxf, Fill};
use ironcalc_base::Model;
use proptest::prelude::*;
use proptest::strategy::ValueTree;
use proptest::test_runner::{Config, RngAlgorithm, TestRng, TestRunner};
use serde::{Deserialize, Serialize};
use serde_json::Value;

use super::formula_gen::{self as fg, BinOp, FTree, Profile, Style, UnOp};
use crate::engine::config;
use crate::engine::ctx::hash64;
use crate::engine::snapshot::{typed_value, TV};
use crate::engine::{panics, Ctx, Outcome, Tier};

// ------------------------------------------------------------------------------------------------
// shared helpers (also used by C17 and C32)

/// Language / locale ids as `&'static str` (the engine's constructors borrow them).
pub fn leak(s: &str) -> &'static str {
    static POOL: Mutex<Vec<&'static str>> = Mutex::new(Vec::new());
    let mut p = POOL.lock().unwrap();
    if let Some(x) = p.iter().find(|x| **x == s) {
        return x;
    }
    let l: &'static str = Box::leak(s.to_string().into_boxed_str());
    p.push(l);
    l
}

/// Visit every node mutably (pre-order).
pub fn map_nodes(node: &mut Node, f: &mut dyn FnMut(&mut Node)) {
    f(node);
    match node {
        Node::OpRangeKind { left, right }
        | Node::OpConcatenateKind { left, right }
        | Node::OpSumKind { left, right, .. }
        | Node::OpProductKind { left, right, .. }
        | Node::OpPowerKind { left, right }
        | Node::CompareKind { left, right, .. } => {
            map_nodes(left, f);
            map_nodes(right, f);
        }
        Node::FunctionKind { args, .. } | Node::NamedFunctionKind { args, .. } => {
            for a in args {
                map_nodes(a, f);
            }
        }
        Node::LambdaDefKind { body, .. } => map_nodes(body, f),
        Node::LambdaCallKind { lambda, args } => {
            map_nodes(lambda, f);
            for a in args {
                map_nodes(a, f);
            }
        }
        Node::ImplicitIntersection { child, .. } | Node::SpillRangeOperator { child } => map_nodes(child, f),
        Node::UnaryKind { right, .. } => map_nodes(right, f),
        _ => {}
    }
}

pub fn has_parse_error(n: &Node) -> bool {
    let mut b = false;
    crate::engine::nodes::walk(n, &mut |x| {
        if matches!(x, Node::ParseErrorKind { .. }) {
            b = true
        }
    });
    b
}

/// A typed value rendered for comparison: numbers bit-exactly (`{:?}` round-trips; NaN equals NaN),
/// text, boolean, error kind.
pub type Val = String;

pub fn val(v: &TV) -> Val {
    v.render(false)
}

/// Typed values of every non-empty cell: (sheet index, row, column) -> value.
pub fn values(m: &Model) -> BTreeMap<(u32, i32, i32), Val> {
    let mut out = BTreeMap::new();
    for (si, ws) in m.workbook.worksheets.iter().enumerate() {
        for (&r, rd) in &ws.sheet_data {
            for (&c, cell) in rd {
                let v = typed_value(Some(cell), &m.workbook.shared_strings);
                if v != TV::Empty {
                    out.insert((si as u32, r, c), val(&v));
                }
            }
        }
    }
    out
}

/// Stored (R1C1, English) text of every formula cell.
pub fn stored_formulas(m: &Model) -> BTreeMap<(u32, i32, i32), String> {
    let mut out = BTreeMap::new();
    for (si, ws) in m.workbook.worksheets.iter().enumerate() {
        for (&r, rd) in &ws.sheet_data {
            for (&c, cell) in rd {
                if let Some(f) = cell.get_formula() {
                    let t = ws.shared_formulas.get(f as usize).cloned().unwrap_or_else(|| format!("<dangling formula index {f}>"));
                    out.insert((si as u32, r, c), t);
                }
            }
        }
    }
    out
}

/// Stored defined names: (lower-case name, sheet id) -> stored formula without a leading `=`.
pub fn stored_names(m: &Model) -> BTreeMap<(String, Option<u32>), String> {
    m.workbook
        .defined_names
        .iter()
        .map(|d| ((d.name.to_lowercase(), d.sheet_id), d.formula.strip_prefix('=').unwrap_or(&d.formula).to_string()))
        .collect()
}

pub fn show_tv(v: Option<&Val>) -> String {
    match v {
        None => "<absent>".to_string(),
        Some(v) => v.clone(),
    }
}

/// First difference between two maps, rendered.
pub fn first_diff<K: Ord + std::fmt::Debug, V: PartialEq>(a: &BTreeMap<K, V>, b: &BTreeMap<K, V>, show: &dyn Fn(Option<&V>) -> String) -> Option<String> {
    for (k, va) in a {
        match b.get(k) {
            Some(vb) if vb == va => {}
            other => return Some(format!("{k:?}: {} -> {}", show(Some(va)), show(other))),
        }
    }
    for (k, vb) in b {
        if !a.contains_key(k) {
            return Some(format!("{k:?}: <absent> -> {}", show(Some(vb))));
        }
    }
    None
}

pub fn decimal_comma(locale: &str) -> bool {
    get_locale(locale).map(|l| l.numbers.symbols.decimal != ".").unwrap_or(false)
}

// ------------------------------------------------------------------------------------------------
// the workbook

pub const SHEET_A: &str = "Sheet1";
pub const SHEET_B: &str = "My Sheet";
pub const HOST_COL: i32 = 5;
pub const SLOTS: u8 = 6;

/// Formula slot -> (sheet, row, column). Slots are 4 rows apart so that spills (<= 3x3) do not
/// meet; nothing reads the slot area (references stay inside A1:C4).
pub fn slot_cell(slot: u8) -> (u32, i32, i32) {
    let slot = slot % SLOTS;
    ((slot % 2) as u32, 6 + 4 * (slot / 2) as i32, HOST_COL)
}

fn cell_ctx(m: &Model, sheet: u32, row: i32, column: i32) -> CellReferenceRC {
    CellReferenceRC { sheet: m.workbook.worksheets[sheet as usize].get_name(), row, column }
}

/// Data (typed through the locale-independent setters) in A1:C4 of both sheets.
fn fill_data(m: &mut Model) -> Result<(), String> {
    for s in 0..2u32 {
        let k = s as f64;
        let nums: [(i32, i32, f64); 9] =
            [(1, 1, 2.0 + k), (1, 2, 3.0), (1, 3, 0.5), (2, 1, 5.0), (2, 2, 7.0 - k), (3, 1, 11.0), (3, 2, -4.0), (4, 1, 1.25), (4, 2, 13.0)];
        for (r, c, v) in nums {
            m.update_cell_with_number(s, r, c, v)?;
        }
        m.update_cell_with_text(s, 2, 3, "abc")?;
        m.update_cell_with_bool(s, 3, 3, true)?;
    }
    Ok(())
}

fn red() -> Dxf {
    Dxf { font: None, fill: Some(Fill { color: Color::Rgb("#FF0000".to_string()) }), border: None, num_fmt: None, alignment: None }
}

pub fn new_workbook(language: &str, locale: &str) -> Result<Model<'static>, String> {
    let mut m = Model::new_empty("c10", leak(locale), "UTC", leak(language))?;
    // the first sheet is named after the language
    m.rename_sheet_by_index(0, SHEET_A)?;
    m.add_sheet(SHEET_B)?;
    fill_data(&mut m)?;
    m.new_defined_name("nm_cell", None, "Sheet1!$A$2")?;
    m.new_defined_name("nm_range", None, "'My Sheet'!$A$1:$B$3")?;
    m.new_defined_name("nm_loc", Some(1), "'My Sheet'!$B$2")?;
    Ok(m)
}

/// Conditional-format results of the data window of sheet 0 (resolved fill of each cell).
fn cf_results(m: &Model) -> BTreeMap<(i32, i32), String> {
    let mut out = BTreeMap::new();
    for r in 1..=4 {
        for c in 1..=3 {
            let s = match m.get_extended_style_for_cell(0, r, c) {
                Ok(x) => serde_json::to_string(&x.style.fill).unwrap_or_default(),
                Err(e) => format!("<error {e}>"),
            };
            out.insert((r, c), s);
        }
    }
    out
}

fn stored_cf(m: &Model) -> BTreeMap<(u32, usize), String> {
    let mut out = BTreeMap::new();
    for (si, ws) in m.workbook.worksheets.iter().enumerate() {
        for (i, cf) in ws.conditional_formatting.iter().enumerate() {
            let mut rule = serde_json::to_value(&cf.cf_rule).unwrap_or_default();
            if let Some(o) = rule.as_object_mut() {
                o.remove("dxf_id");
            }
            out.insert((si as u32, i), format!("{} {}", cf.range, rule));
        }
    }
    out
}

/// Everything the property speaks about.
#[derive(Clone, PartialEq)]
struct Obs {
    values: BTreeMap<(u32, i32, i32), Val>,
    formulas: BTreeMap<(u32, i32, i32), String>,
    names: BTreeMap<(String, Option<u32>), String>,
    cf: BTreeMap<(u32, usize), String>,
    cf_results: BTreeMap<(i32, i32), String>,
}

fn observe(m: &Model) -> Obs {
    Obs { values: values(m), formulas: stored_formulas(m), names: stored_names(m), cf: stored_cf(m), cf_results: cf_results(m) }
}

/// (aspect, detail) of the first difference.
fn obs_diff(a: &Obs, b: &Obs) -> Option<(&'static str, String)> {
    let s = |v: Option<&String>| v.cloned().unwrap_or_else(|| "<absent>".into());
    if let Some(d) = first_diff(&a.formulas, &b.formulas, &s) {
        return Some(("stored-cell-formula", d));
    }
    if let Some(d) = first_diff(&a.names, &b.names, &s) {
        return Some(("stored-defined-name", d));
    }
    if let Some(d) = first_diff(&a.cf, &b.cf, &s) {
        return Some(("stored-conditional-format", d));
    }
    if let Some(d) = first_diff(&a.values, &b.values, &show_tv) {
        return Some(("value", d));
    }
    if let Some(d) = first_diff(&a.cf_results, &b.cf_results, &s) {
        return Some(("conditional-format-result", d));
    }
    None
}

// ------------------------------------------------------------------------------------------------
// formula sources

/// Functions whose result does not depend on the locale (no TEXT / VALUE / FIXED / DOLLAR /
/// NUMBERVALUE / DATEVALUE), none that turns numbers into text, none with size-like arguments;
/// `nm_lam` is the LAMBDA name.
const FUNCTIONS: [(&str, usize, usize); 35] = [
    ("SUM", 1, 3),
    ("MIN", 1, 3),
    ("MAX", 1, 2),
    ("AVERAGE", 1, 2),
    ("COUNT", 1, 2),
    ("COUNTA", 1, 2),
    ("PRODUCT", 1, 2),
    ("ABS", 1, 1),
    ("INT", 1, 1),
    ("ROUND", 2, 2),
    ("MOD", 2, 2),
    ("POWER", 2, 2),
    ("SQRT", 1, 1),
    ("IF", 2, 3),
    ("IFERROR", 2, 2),
    ("IFNA", 2, 2),
    ("AND", 1, 3),
    ("OR", 1, 2),
    ("NOT", 1, 1),
    ("TRUE", 0, 0),
    ("FALSE", 0, 0),
    ("PI", 0, 0),
    ("NA", 0, 0),
    ("N", 1, 1),
    ("T", 1, 1),
    ("LEN", 1, 1),
    ("ISERROR", 1, 1),
    ("ISNUMBER", 1, 1),
    ("ISTEXT", 1, 1),
    ("INDEX", 2, 3),
    ("CHOOSE", 2, 3),
    ("ROWS", 1, 1),
    ("SORT", 1, 1),
    ("XLOOKUP", 3, 4),
    ("nm_lam", 1, 1),
];

pub fn profile() -> Profile {
    let mut p = Profile::all();
    p.functions = FUNCTIONS.to_vec();
    p.names = ["nm_cell", "nm_range", "nm_loc", "x", "y", "other_1"].iter().map(|s| s.to_string()).collect();
    // the range operator between arbitrary operands is C09's business (listed there); `&` (and
    // CONCATENATE / LEFT / UPPER) turn numbers into text, and reading such text back as a number
    // depends on the locale by definition ("1.5" + 1 is 2.5, #VALUE! or a date serial)
    p.binary = fg::BIN_OPS.iter().copied().filter(|o| *o != BinOp::Range && *o != BinOp::Concat).collect();
    p.sheets = [SHEET_A, SHEET_B, "Ghost"].iter().map(|s| s.to_string()).collect();
    p.sheet_pct = 20;
    p.max_col = 3;
    p.max_row = 4;
    p.edge_refs = false;
    p.spaces_pct = 5;
    p.extra_parens_pct = 8;
    p
}

fn strip_wrappers(t: &FTree) -> &FTree {
    match t {
        FTree::Paren(x) | FTree::Ws(x) | FTree::Un(UnOp::Pos, x) => strip_wrappers(x),
        o => o,
    }
}

fn is_sum(t: &FTree) -> bool {
    matches!(strip_wrappers(t), FTree::Bin(BinOp::Add, ..) | FTree::Bin(BinOp::Sub, ..))
}

/// `a+(b+c)` and `a+(b-c)` are stored as `a+b+c` / `a+b-c` (listed under C09: the stored form
/// drops these parentheses), so any re-parse re-associates the sum and the last bit of a
/// floating-point result may change. Such shapes are not generated. The tree is first given the
/// parentheses the grammar needs (so the text parses with the shape of the tree — otherwise
/// `x*y+z` under a `+` is a sum the tree does not show), then the operands of a `+` whose right
/// operand is a sum are swapped, or the `+` becomes `*` when both operands are sums.
pub fn no_right_nested_sums(t: &FTree) -> FTree {
    fg::parenthesize(&swap_right_sums(&fg::parenthesize(t)))
}

fn swap_right_sums(t: &FTree) -> FTree {
    fg::map_children(t, &swap_right_sums, &|n| match n {
        FTree::Bin(BinOp::Add, l, r) if is_sum(&r) => {
            if is_sum(&l) {
                FTree::Bin(BinOp::Mul, l, r)
            } else {
                FTree::Bin(BinOp::Add, r, l)
            }
        }
        o => o,
    })
}

/// Locale-independent variant of a generated tree: numbers with at most 15 significant digits
/// (longer ones are C09's listed finding), no text that a comma-decimal locale would coerce to
/// a different number than a point-decimal one.
fn sanitize(t: &FTree) -> FTree {
    fg::map_children(t, &sanitize, &|n| match n {
        FTree::Num(s) if s.len() > 15 => FTree::Num("123456789012345".into()),
        FTree::Str(s) if s == "1,5" => FTree::Str("1;5x".into()),
        o => o,
    })
}

/// Bodies of the LAMBDA name must not call the name itself: a recursion without a base case
/// overflows the stack of the process (no depth guard in the evaluator; reported, not part of C10).
fn lambda_body(depth: u32) -> BoxedStrategy<FTree> {
    let mut p = profile();
    p.functions.retain(|f| f.0 != "nm_lam");
    fg::source_strategy(&p, depth, 3, 80).prop_map(|t| no_right_nested_sums(&sanitize(&t))).boxed()
}

pub fn tree(depth: u32) -> BoxedStrategy<FTree> {
    fg::source_strategy(&profile(), depth, 3, 80).prop_map(|t| no_right_nested_sums(&sanitize(&t))).boxed()
}

/// Body of the LAMBDA name: `LAMBDA(x, x + <tree>)`.
fn lambda_source(body: &FTree) -> FTree {
    no_right_nested_sums(&lambda_source_raw(body))
}

fn lambda_source_raw(body: &FTree) -> FTree {
    FTree::Lambda {
        params: vec![("x".to_string(), false)],
        body: Box::new(FTree::Bin(BinOp::Add, Box::new(FTree::Name("x".into())), Box::new(fg::parenthesize(&FTree::Paren(Box::new(body.clone())))))),
        call: None,
    }
}

fn functions_of(t: &FTree) -> Vec<String> {
    let mut v = vec![];
    t.walk(&mut |n| {
        if let FTree::Func { name, .. } = n {
            v.push(name.clone());
        }
    });
    v
}

/// Does the tree use a function whose name differs between the two languages?
fn has_translated_function(t: &FTree, l1: &str, l2: &str) -> bool {
    let (Ok(a), Ok(b)) = (Style::new(l1, "en"), Style::new(l2, "en")) else { return false };
    functions_of(t).iter().any(|f| a.function_name(f) != b.function_name(f))
}

// ------------------------------------------------------------------------------------------------
// typing

enum Typed {
    /// accepted: the parsed node
    Ok(Node),
    /// the text does not parse in this configuration (outside the premise)
    Rejected(String),
    /// the text parses in this configuration, yet the cell holds a parse error
    Stale(String),
}

/// Type `tree` (printed for `language` / `locale`, which must be the model's configuration) into
/// a slot. A text the parser rejects is removed again.
fn type_tree(m: &mut Model, slot: u8, tree: &FTree, language: &str, locale: &str) -> Result<Typed, String> {
    let style = Style::new(language, locale)?;
    let text = format!("={}", fg::print(tree, &style));
    type_text(m, slot, &text)
}

fn type_text(m: &mut Model, slot: u8, text: &str) -> Result<Typed, String> {
    let (s, r, c) = slot_cell(slot);
    if let Err(e) = m.set_user_input(s, r, c, text.to_string()) {
        return Ok(Typed::Rejected(format!("set_user_input: {e}")));
    }
    let node = formula_node(m, s, r, c);
    match node {
        Some(n) if !has_parse_error(&n) => Ok(Typed::Ok(n)),
        Some(_) => {
            if accepted_at(m, text, s, r, c) {
                return Ok(Typed::Stale(format!("{text} parses in {}/{} but the cell ({s},{r},{c}) holds a parse error; stored formulas of the sheet: {:?}", m.get_language(), m.get_locale(), m.workbook.worksheets[s as usize].shared_formulas)));
            }
            m.set_user_input(s, r, c, String::new())?;
            Ok(Typed::Rejected("parse error".into()))
        }
        None => {
            m.set_user_input(s, r, c, String::new())?;
            Ok(Typed::Rejected("not a formula".into()))
        }
    }
}

/// Is `text` (without `=`) a formula in the model's *active* language and locale? Names and
/// conditional formats fall back to an English parse when it is not; such texts are outside the
/// premise ("a formula typed in one language / locale").
pub fn accepted_in_active_configuration(m: &Model, text: &str) -> bool {
    let (Ok(lang), Ok(loc)) = (get_language(&m.get_language()), get_locale(&m.get_locale())) else { return false };
    let mut parser = Parser::new(m.workbook.get_worksheet_names(), m.workbook.get_defined_names_with_scope(), m.workbook.tables.clone(), loc, lang);
    let ctx = CellReferenceRC { sheet: m.workbook.worksheets[0].get_name(), row: 1, column: 1 };
    !has_parse_error(&parser.parse(text.strip_prefix('=').unwrap_or(text), &ctx))
}

fn accepted_at(m: &Model, text: &str, sheet: u32, row: i32, column: i32) -> bool {
    let (Ok(lang), Ok(loc)) = (get_language(&m.get_language()), get_locale(&m.get_locale())) else { return false };
    let mut parser = Parser::new(m.workbook.get_worksheet_names(), m.workbook.get_defined_names_with_scope(), m.workbook.tables.clone(), loc, lang);
    !has_parse_error(&parser.parse(text.strip_prefix('=').unwrap_or(text), &cell_ctx(m, sheet, row, column)))
}

pub fn formula_node(m: &Model, sheet: u32, row: i32, column: i32) -> Option<Node> {
    let f = m.workbook.worksheets.get(sheet as usize)?.cell(row, column)?.get_formula()?;
    m.parsed_formulas.get(sheet as usize)?.get(f as usize).map(|x| x.0.clone())
}

fn english_display(m: &Model, node: &Node, sheet: u32, row: i32, column: i32) -> String {
    let en_loc = get_locale("en").expect("en locale");
    let en_lang = get_language("en").expect("en language");
    format!("={}", to_localized_string(node, &cell_ctx(m, sheet, row, column), en_loc, en_lang))
}

/// Re-enter what the model displays (cells, names, conditional formats) in its current
/// configuration; the stored texts and the values must not change. Err((aspect, detail)).
fn reenter_all(m: &mut Model) -> Result<(), (String, String)> {
    let before = observe(m);
    let cells: Vec<(u32, i32, i32)> = before.formulas.keys().cloned().collect();
    for (s, r, c) in cells {
        let shown = m.get_cell_formula(s, r, c).map_err(|e| ("get_cell_formula-fails".to_string(), e))?.unwrap_or_default();
        if let Err(e) = m.set_user_input(s, r, c, shown.clone()) {
            return Err(("cell:rejected".into(), format!("cell ({s},{r},{c}) stored {:?} is shown as {shown}; typing that back fails: {e}", before.formulas.get(&(s, r, c)))));
        }
        let now = stored_formulas(m);
        if now.get(&(s, r, c)) != before.formulas.get(&(s, r, c)) {
            return Err((
                "cell:stored-text".into(),
                format!("cell ({s},{r},{c}) stored {:?} is shown as {shown}; typing that back stores {:?}", before.formulas.get(&(s, r, c)), now.get(&(s, r, c))),
            ));
        }
    }
    for (name, scope, shown) in m.get_defined_name_list() {
        let sid = scope.and_then(|i| m.workbook.worksheets.get(i as usize).map(|w| w.sheet_id));
        let key = (name.to_lowercase(), sid);
        if let Err(e) = m.update_defined_name(&name, scope, &name, scope, &shown) {
            return Err(("name:rejected".into(), format!("name {name} stored {:?} is shown as {shown}; entering that fails: {e}", before.names.get(&key))));
        }
        let now = stored_names(m);
        if now.get(&key) != before.names.get(&key) {
            return Err(("name:stored-text".into(), format!("name {name} stored {:?} is shown as {shown}; entering that stores {:?}", before.names.get(&key), now.get(&key))));
        }
    }
    for s in 0..m.workbook.worksheets.len() as u32 {
        let list = m.get_conditional_formatting_list(s).map_err(|e| ("cf-list-fails".to_string(), e))?;
        for view in list {
            if let CfRule::Formula { formula, stop_if_true, .. } = &view.cf_rule {
                let input = CfRuleInput::Formula { formula: formula.clone(), format: red(), stop_if_true: *stop_if_true };
                if let Err(e) = m.update_conditional_formatting(s, view.index, &view.range, input) {
                    return Err(("cf:rejected".into(), format!("conditional format stored {:?} is shown as {formula}; entering that fails: {e}", before.cf.get(&(s, view.index)))));
                }
                let now = stored_cf(m);
                if now.get(&(s, view.index)) != before.cf.get(&(s, view.index)) {
                    return Err((
                        "cf:stored-text".into(),
                        format!("conditional format stored {:?} is shown as {formula}; entering that stores {:?}", before.cf.get(&(s, view.index)), now.get(&(s, view.index))),
                    ));
                }
            }
        }
    }
    m.evaluate();
    let after = observe(m);
    if let Some((aspect, d)) = obs_diff(&before, &after) {
        return Err((format!("all:{aspect}"), format!("after re-entering every displayed formula: {d}")));
    }
    Ok(())
}

fn cfg_class(language: &str, locale: &str) -> String {
    format!("{language}/{}", if decimal_comma(locale) { "comma" } else { "point" })
}

// ------------------------------------------------------------------------------------------------
// campaign "pairs"

#[derive(Clone, Debug, Serialize, Deserialize)]
pub struct PairCase {
    pub from: (String, String),
    pub to: (String, String),
    pub tree: FTree,
}

/// Hand-written formulas covering every localized token class.
fn fixed_trees() -> Vec<FTree> {
    use FTree as T;
    let n = |s: &str| T::Num(s.to_string());
    let f = |name: &str, args: Vec<FTree>| T::Func { name: name.to_string(), args };
    let cell = |col, row| T::cell(col, row);
    let rng = |sheet: Option<&str>, c1, r1, c2, r2| T::Range {
        sheet: sheet.map(|s| fg::SheetRef { name: s.to_string(), quoted: false }),
        a: fg::CellRef { col: c1, row: r1, abs_col: false, abs_row: true },
        b: fg::CellRef { col: c2, row: r2, abs_col: true, abs_row: false },
    };
    vec![
        // functions, decimals, argument separators
        f("SUM", vec![n("1.5"), n("2"), f("ROUND", vec![T::bin(BinOp::Div, cell(1, 1), n("3")), n("2")])]),
        // booleans and errors
        f("IF", vec![f("AND", vec![T::Bool(true), f("NOT", vec![T::Bool(false)])]), T::Err(fg::ErrLit::Na), T::Err(fg::ErrLit::Div)]),
        f("IFERROR", vec![T::bin(BinOp::Add, T::Err(fg::ErrLit::Value), n("1")), T::Str("a,b;c".into())]),
        // array literal with decimals, booleans, errors and text
        f("SUM", vec![T::Array(vec![vec![n("1.5"), n("2"), T::Bool(true)], vec![n(".25"), T::Str("x;y".into()), T::Err(fg::ErrLit::Num)]])]),
        T::bin(BinOp::Mul, T::Array(vec![vec![n("1.5"), n("2")], vec![n("3"), n("4.75")]]), n("2")),
        // names, cross-sheet ranges, ghost sheet
        T::bin(BinOp::Add, f("SUM", vec![rng(Some(SHEET_B), 1, 1, 2, 3), T::Name("nm_range".into())]), T::Name("nm_cell".into())),
        f("COUNT", vec![rng(Some("Ghost"), 1, 1, 2, 2), T::Ref { sheet: Some(fg::SheetRef { name: "Ghost".into(), quoted: true }), cell: fg::CellRef { col: 1, row: 1, abs_col: true, abs_row: true } }]),
        // LAMBDA, LET, lambda name
        T::Lambda { params: vec![("x".into(), false), ("y".into(), true)], body: Box::new(f("MAX", vec![T::Name("x".into()), n("2.5")])), call: Some(vec![n("7.25")]) },
        f("LET", vec![T::Name("y".into()), n("0.5"), T::bin(BinOp::Mul, T::Name("y".into()), f("nm_lam", vec![n("1.5")]))]),
        // percent, unary, comparison, concatenation
        T::bin(BinOp::Concat, T::un(UnOp::Percent, n("12.5")), T::bin(BinOp::Le, T::un(UnOp::Neg, cell(2, 3)), n("1E+3"))),
        // lookup with four arguments, empty argument
        f("XLOOKUP", vec![n("5"), rng(None, 1, 1, 1, 4), rng(None, 2, 1, 2, 4), T::Str("none".into())]),
        f("IF", vec![T::bin(BinOp::Gt, cell(1, 1), n("2.5")), T::Empty, n("0.125")]),
        // dynamic array + spill reference
        f("SORT", vec![rng(None, 1, 1, 2, 3)]),
    ]
}

/// A few generated trees, deterministic in the seed.
fn generated_trees(ctx: &Ctx, n: usize, depth: u32) -> Vec<FTree> {
    let seed = ctx.subseed("pairs-trees", 0);
    let mut bytes = [0u8; 32];
    for i in 0..4 {
        bytes[i * 8..(i + 1) * 8].copy_from_slice(&hash64(&(seed, i as u64)).to_le_bytes());
    }
    let mut runner = TestRunner::new_with_rng(Config { failure_persistence: None, ..Config::default() }, TestRng::from_seed(RngAlgorithm::ChaCha, &bytes));
    let s = tree(depth);
    let mut out = vec![];
    while out.len() < n {
        if let Ok(t) = s.new_tree(&mut runner) {
            out.push(t.current());
        }
    }
    out
}

fn fail(o: Outcome, sig: String, detail: String) -> Outcome {
    o.fail(sig, detail)
}

/// The engine's own debug assertion about arrays in scalar context fires while evaluating some
/// generated formulas (C05 / C31 territory); such a case ends without a verdict.
pub fn evaluation_assertion(p: &panics::Panic) -> bool {
    p.message.starts_with("Larger-than-1x1 array reached scalar-context cell")
}

pub fn check_pair(case: &PairCase) -> Outcome {
    let r = panics::catch(|| check_pair_inner(case));
    match r {
        Ok(o) => o,
        Err(p) if evaluation_assertion(&p) => Outcome::pass().label("evaluation-debug-assertion"),
        Err(p) => Outcome::pass().fail(format!("C10:pairs:{}", p.class()), p.describe()),
    }
}

fn check_pair_inner(case: &PairCase) -> Outcome {
    let mut o = Outcome::pass();
    let (l1, loc1) = (case.from.0.as_str(), case.from.1.as_str());
    let (l2, loc2) = (case.to.0.as_str(), case.to.1.as_str());
    let setup = |o: Outcome, e: String| o.fail("C10:pairs:setup", e);
    let mut m = match new_workbook(l1, loc1) {
        Ok(m) => m,
        Err(e) => return setup(o, e),
    };
    // the LAMBDA name, typed in c1
    let style1 = match Style::new(l1, loc1) {
        Ok(s) => s,
        Err(e) => return setup(o, e),
    };
    let lam = lambda_source(&FTree::bin(BinOp::Mul, FTree::Num("1.5".into()), FTree::func("SUM", vec![FTree::Name("nm_range".into()), FTree::Num("0.25".into())])));
    if let Err(e) = m.new_defined_name("nm_lam", None, &format!("={}", fg::print(&lam, &style1))) {
        return setup(o, format!("nm_lam in {l1}/{loc1}: {e}"));
    }
    let cf_tree = FTree::bin(BinOp::Gt, FTree::cell(1, 1), FTree::func("SUM", vec![FTree::Num("2.5".into()), FTree::Num("0.5".into())]));
    let cf = CfRuleInput::Formula { formula: format!("={}", fg::print(&cf_tree, &style1)), format: red(), stop_if_true: false };
    if let Err(e) = m.add_conditional_formatting(0, "A1:C4", cf) {
        return setup(o, format!("cf in {l1}/{loc1}: {e}"));
    }
    let node = match type_tree(&mut m, 0, &case.tree, l1, loc1) {
        Ok(Typed::Ok(n)) => n,
        Ok(Typed::Rejected(why)) => return o.label(format!("typed-text-rejected:{why}")),
        Ok(Typed::Stale(d)) => return o.fail("C10:typed:accepted-text-holds-parse-error", d),
        Err(e) => return setup(o, e),
    };
    m.evaluate();
    let (s, r, c) = slot_cell(0);
    let ctx_rc = cell_ctx(&m, s, r, c);
    let shown1 = m.get_cell_formula(s, r, c).ok().flatten().unwrap_or_default();
    let obs1 = observe(&m);
    let class = format!("{}>{}", cfg_class(l1, loc1), cfg_class(l2, loc2));

    // parser level: display in c2, parse in c2
    let (Ok(lang2), Ok(locale2)) = (get_language(l2), get_locale(loc2)) else { return setup(o, "bad configuration".into()) };
    let shown2 = to_localized_string(&node, &ctx_rc, locale2, lang2);
    let mut parser = Parser::new(m.workbook.get_worksheet_names(), m.workbook.get_defined_names_with_scope(), m.workbook.tables.clone(), locale2, lang2);
    let back = parser.parse(&shown2, &ctx_rc);
    if back != node {
        return fail(
            o,
            format!("C10:pairs:node:{class}"),
            format!("typed ={} in {l1}/{loc1}; shown in {l2}/{loc2} as ={shown2}; parsing that in {l2}/{loc2} gives a different formula:\n  typed : {node:?}\n  parsed: {back:?}", fg::print(&case.tree, &style1)),
        );
    }

    // model level: the two switches
    for (what, id) in [("set_language", l2), ("set_locale", loc2)] {
        let before = observe(&m);
        let res = if what == "set_language" { m.set_language(id) } else { m.set_locale(id) };
        if let Err(e) = res {
            return setup(o, format!("{what}({id}): {e}"));
        }
        let after = observe(&m);
        if let Some((aspect, d)) = obs_diff(&before, &after) {
            return fail(o, format!("C10:{what}:{aspect}"), format!("{what}({id}) on a workbook built in {l1}/{loc1} (formula {shown1}): {d}"));
        }
        m.evaluate();
        let after = observe(&m);
        if let Some((aspect, d)) = obs_diff(&before, &after) {
            return fail(o, format!("C10:{what}+evaluate:{aspect}"), format!("{what}({id}) + evaluate on a workbook built in {l1}/{loc1} (formula {shown1}): {d}"));
        }
    }
    let shown = m.get_cell_formula(s, r, c).ok().flatten().unwrap_or_default();
    if shown != format!("={shown2}") {
        return fail(o, format!("C10:pairs:display-differs-from-printer:{class}"), format!("get_cell_formula in {l2}/{loc2}: {shown}; to_localized_string: ={shown2}"));
    }
    if let Err((aspect, d)) = reenter_all(&mut m) {
        return fail(o, format!("C10:reenter:{aspect}:{class}"), format!("built in {l1}/{loc1} (formula {shown1}), now {l2}/{loc2}: {d}"));
    }
    // and back
    if m.set_language(l1).is_err() || m.set_locale(loc1).is_err() {
        return setup(o, "switch back".into());
    }
    m.evaluate();
    let back1 = m.get_cell_formula(s, r, c).ok().flatten().unwrap_or_default();
    if back1 != shown1 {
        return fail(o, format!("C10:pairs:display-after-return:{class}"), format!("shown {shown1} in {l1}/{loc1}; after {l2}/{loc2} and back: {back1}"));
    }
    if let Some((aspect, d)) = obs_diff(&obs1, &observe(&m)) {
        return fail(o, format!("C10:pairs:after-return:{aspect}:{class}"), format!("{l1}/{loc1} -> {l2}/{loc2} -> back (formula {shown1}): {d}"));
    }
    o = o.label(format!("pair-class:{class}"));
    if case.from != case.to {
        o = o.nontrivial(format!("{:?}>{:?}:{}", case.from, case.to, fg::print(&case.tree, &style1)));
    }
    o
}

// ------------------------------------------------------------------------------------------------
// campaign "histories"

#[derive(Clone, Debug, Serialize, Deserialize)]
pub enum Step {
    Language(String),
    Locale(String),
    /// a formula typed in the current configuration
    Edit { slot: u8, tree: FTree },
    /// raw text typed as is (replays of listed findings; never generated while they are listed)
    Type { slot: u8, text: String },
    Data { sheet: u8, row: i32, col: i32, value: i32 },
    Rename { sheet: u8, name: String },
}

#[derive(Clone, Debug, Serialize, Deserialize)]
pub struct Case {
    pub language: String,
    pub locale: String,
    pub formulas: Vec<FTree>,
    pub lambda: FTree,
    pub lambda_eq: bool,
    pub cf: Option<FTree>,
    pub steps: Vec<Step>,
    /// steer away from listed findings (switch names); empty in replays of findings
    #[serde(default)]
    pub avoid: Vec<String>,
}

pub const AVOID_RENAME: &str = "c10-rename-under-other-configuration";
pub const AVOID_ENGLISH: &str = "c10-english-names-under-other-language";

const RENAME_POOL: [&str; 8] = ["Renamed", "Hoja 2", "Año", "Data&Co", "x.y", "Ghost", SHEET_A, SHEET_B];

fn step_strategy(depth: u32, raw: bool) -> BoxedStrategy<Step> {
    let langs = config::LANGUAGES;
    let locales = config::locales();
    let nloc = locales.len();
    let mut v: Vec<(u32, BoxedStrategy<Step>)> = vec![
        (4, (0..langs.len()).prop_map(move |i| Step::Language(langs[i].to_string())).boxed()),
        (4, (0..nloc).prop_map(move |i| Step::Locale(locales[i].clone())).boxed()),
        (5, (0..SLOTS, tree(depth)).prop_map(|(slot, tree)| Step::Edit { slot, tree }).boxed()),
        (2, (0..2u8, 1..=4i32, 1..=2i32, -5..20i32).prop_map(|(sheet, row, col, value)| Step::Data { sheet, row, col, value }).boxed()),
        (2, (0..2u8, 0..RENAME_POOL.len()).prop_map(|(sheet, i)| Step::Rename { sheet, name: RENAME_POOL[i].to_string() }).boxed()),
    ];
    if raw {
        let texts = ["=SUM(1,2)", "=IF(TRUE,1,2)", "=SUM(A1:A3)", "=MAX(1.5,2)", "=#N/A", "=TRUE", "={1,2;3,4}"];
        v.push((1, (0..SLOTS, 0..texts.len()).prop_map(move |(slot, i)| Step::Type { slot, text: texts[i].to_string() }).boxed()));
    }
    proptest::strategy::Union::new_weighted(v).boxed()
}

fn case_strategy(depth: u32, max_steps: usize, avoid: Vec<String>) -> BoxedStrategy<Case> {
    let cfgs = config::configs();
    let n = cfgs.len();
    let raw = !avoid.iter().any(|a| a == AVOID_ENGLISH);
    (
        0..n,
        prop::collection::vec(tree(depth), 1..=4),
        lambda_body(depth.min(2)),
        any::<bool>(),
        prop::option::weighted(0.7, tree(depth.min(2))),
        prop::collection::vec(step_strategy(depth, raw), 1..=max_steps),
    )
        .prop_map(move |(i, formulas, lambda, lambda_eq, cf, steps)| Case {
            language: cfgs[i].0.clone(),
            locale: cfgs[i].1.clone(),
            formulas,
            lambda,
            lambda_eq,
            cf,
            steps,
            avoid: avoid.clone(),
        })
        .boxed()
}

pub fn check(case: &Case) -> Outcome {
    let r = panics::catch(|| check_inner(case));
    match r {
        Ok(o) => o,
        Err(p) if evaluation_assertion(&p) => Outcome::pass().label("evaluation-debug-assertion"),
        Err(p) => Outcome::pass().fail(format!("C10:histories:{}", p.class()), p.describe()),
    }
}

struct Twin {
    p: Model<'static>,
    t: Model<'static>,
    language: String,
    locale: String,
}

impl Twin {
    fn is_english(&self) -> bool {
        self.language == "en" && self.locale == "en"
    }

    /// Type into the primary in its configuration; the twin gets the English display.
    fn edit(&mut self, slot: u8, typed: Result<Typed, String>) -> Result<Option<String>, String> {
        let (s, r, c) = slot_cell(slot);
        match typed? {
            Typed::Ok(node) => {
                let en = english_display(&self.p, &node, s, r, c);
                match type_text(&mut self.t, slot, &en)? {
                    Typed::Ok(_) => Ok(None),
                    Typed::Rejected(why) => Ok(Some(format!("the English display {en} of the typed formula is rejected in en/en ({why})"))),
                    Typed::Stale(d) => Ok(Some(format!("STALE:{d}"))),
                }
            }
            Typed::Stale(d) => Ok(Some(format!("STALE:{d}"))),
            Typed::Rejected(_) => {
                // the slot is empty in both
                self.p.set_user_input(s, r, c, String::new())?;
                self.t.set_user_input(s, r, c, String::new())?;
                Ok(None)
            }
        }
    }

    fn evaluate(&mut self) {
        self.p.evaluate();
        self.t.evaluate();
    }

    fn twin_diff(&self) -> Option<(&'static str, String)> {
        obs_diff(&observe(&self.t), &observe(&self.p))
    }
}

fn check_inner(case: &Case) -> Outcome {
    let mut o = Outcome::pass();
    let avoid = |s: &str| case.avoid.iter().any(|a| a == s);
    let setup = |o: Outcome, e: String| o.fail("C10:histories:setup", e);
    let (p, t) = match (new_workbook(&case.language, &case.locale), new_workbook("en", "en")) {
        (Ok(p), Ok(t)) => (p, t),
        (Err(e), _) | (_, Err(e)) => return setup(o, e),
    };
    let mut w = Twin { p, t, language: case.language.clone(), locale: case.locale.clone() };
    let style0 = match Style::new(&case.language, &case.locale) {
        Ok(s) => s,
        Err(e) => return setup(o, e),
    };
    let en_style = Style::new("en", "en").expect("en style");
    // LAMBDA name: typed localized in the primary, in English in the twin
    let lam = lambda_source(&case.lambda);
    let eq = if case.lambda_eq { "=" } else { "" };
    let lam_text = fg::print(&lam, &style0);
    let lam_res = if accepted_in_active_configuration(&w.p, &lam_text) { w.p.new_defined_name("nm_lam", None, &format!("{eq}{lam_text}")) } else { Err("rejected in the active configuration".to_string()) };
    let lam_ok = match lam_res {
        Ok(()) => {
            // what the primary stored, shown in English, goes to the twin
            let shown = stored_names(&w.p).get(&("nm_lam".to_string(), None)).cloned().unwrap_or_default();
            if let Err(e) = w.t.new_defined_name("nm_lam", None, &format!("{eq}{shown}")) {
                return fail(
                    o,
                    format!("C10:twin:name-rejected:{}", cfg_class(&case.language, &case.locale)),
                    format!("LAMBDA name typed as {} in {}/{} is stored as {shown}, which en/en rejects: {e}", fg::print(&lam, &style0), case.language, case.locale),
                );
            }
            true
        }
        Err(_) => {
            o = o.label("lambda-name-rejected");
            // keep both workbooks alike
            let plain = lambda_source(&FTree::num(1));
            let a = w.p.new_defined_name("nm_lam", None, &fg::print(&plain, &style0));
            let b = w.t.new_defined_name("nm_lam", None, &fg::print(&plain, &en_style));
            if let (Err(e), _) | (_, Err(e)) = (a, b) {
                return setup(o, format!("plain lambda name: {e}"));
            }
            false
        }
    };
    if let Some(cf) = &case.cf {
        let input = |text: String| CfRuleInput::Formula { formula: text, format: red(), stop_if_true: false };
        let cf_text = fg::print(cf, &style0);
        let cf_res = if accepted_in_active_configuration(&w.p, &cf_text) { w.p.add_conditional_formatting(0, "A1:C4", input(format!("={cf_text}"))) } else { Err("rejected in the active configuration".to_string()) };
        match cf_res {
            Ok(_) => {
                let stored = match &w.p.workbook.worksheets[0].conditional_formatting[0].cf_rule {
                    CfRule::Formula { formula, .. } => formula.clone(),
                    _ => String::new(),
                };
                if let Err(e) = w.t.add_conditional_formatting(0, "A1:C4", input(stored.clone())) {
                    return fail(
                        o,
                        format!("C10:twin:cf-rejected:{}", cfg_class(&case.language, &case.locale)),
                        format!("conditional format typed as ={} in {}/{} is stored as {stored}, which en/en rejects: {e}", fg::print(cf, &style0), case.language, case.locale),
                    );
                }
                o = o.label("with-cf");
            }
            Err(_) => o = o.label("cf-rejected"),
        }
    }
    let mut used_translated = false;
    let mut typed_configs: Vec<(String, String)> = vec![];
    for (i, f) in case.formulas.iter().enumerate() {
        let typed = type_tree(&mut w.p, i as u8, f, &case.language, &case.locale);
        if matches!(typed, Ok(Typed::Ok(_))) {
            o = o.label("formula-accepted");
            typed_configs.push((case.language.clone(), case.locale.clone()));
            used_translated |= has_translated_function(f, &case.language, "en");
        } else {
            o = o.label("formula-rejected");
        }
        match w.edit(i as u8, typed) {
            Ok(None) => {}
            Ok(Some(d)) if d.starts_with("STALE:") => return fail(o, "C10:typed:accepted-text-holds-parse-error".into(), format!("slot {i}: {d}")),
            Ok(Some(d)) => return fail(o, format!("C10:twin:english-display-rejected:{}", cfg_class(&case.language, &case.locale)), format!("slot {i}: {d}")),
            Err(e) => return setup(o, e),
        }
    }
    w.evaluate();
    if let Some((aspect, d)) = w.twin_diff() {
        return fail(
            o,
            format!("C10:twin:build:{aspect}:{}", cfg_class(&case.language, &case.locale)),
            format!("workbook built in {}/{} vs. the same formulas entered in en/en as displayed there (twin -> primary): {d}", case.language, case.locale),
        );
    }
    let mut comma_switch = false;
    let mut switches = 0;
    for (k, step) in case.steps.iter().enumerate() {
        let here = format!("step {k} {step:?} [primary in {}/{}]", w.language, w.locale);
        match step {
            Step::Language(id) | Step::Locale(id) => {
                let is_lang = matches!(step, Step::Language(_));
                let what = if is_lang { "set_language" } else { "set_locale" };
                let before = observe(&w.p);
                let from = (w.language.clone(), w.locale.clone());
                let res = if is_lang { w.p.set_language(id) } else { w.p.set_locale(id) };
                if let Err(e) = res {
                    return setup(o, format!("{here}: {e}"));
                }
                if is_lang {
                    w.language = id.clone();
                } else {
                    w.locale = id.clone();
                    comma_switch |= decimal_comma(id);
                }
                switches += 1;
                if let Some((aspect, d)) = obs_diff(&before, &observe(&w.p)) {
                    return fail(o, format!("C10:{what}:{aspect}"), format!("{here}: {d}"));
                }
                w.p.evaluate();
                if let Some((aspect, d)) = obs_diff(&before, &observe(&w.p)) {
                    return fail(o, format!("C10:{what}+evaluate:{aspect}"), format!("{here}: {d}"));
                }
                if let Err((aspect, d)) = reenter_all(&mut w.p) {
                    return fail(o, format!("C10:reenter:{aspect}:{}>{}", cfg_class(&from.0, &from.1), cfg_class(&w.language, &w.locale)), format!("{here}: {d}"));
                }
                for (l, loc) in &typed_configs {
                    o = o.label(format!("typed-in>{}", if (l, loc) == (&w.language, &w.locale) { "shown-in-same" } else { "shown-in-other" }));
                }
                o = o.label(format!("config:{}/{}", w.language, w.locale));
            }
            Step::Edit { slot, tree } => {
                let typed = type_tree(&mut w.p, *slot, tree, &w.language, &w.locale);
                if matches!(typed, Ok(Typed::Ok(_))) {
                    o = o.label("formula-accepted");
                    typed_configs.push((w.language.clone(), w.locale.clone()));
                    used_translated |= has_translated_function(tree, &w.language, "en");
                } else {
                    o = o.label("formula-rejected");
                }
                match w.edit(*slot, typed) {
                    Ok(None) => {}
                    Ok(Some(d)) if d.starts_with("STALE:") => return fail(o, "C10:typed:accepted-text-holds-parse-error".into(), format!("{here}: {d}")),
                    Ok(Some(d)) => return fail(o, format!("C10:twin:english-display-rejected:{}", cfg_class(&w.language, &w.locale)), format!("{here}: {d}")),
                    Err(e) => return setup(o, format!("{here}: {e}")),
                }
            }
            Step::Type { slot, text } => {
                if avoid(AVOID_ENGLISH) && w.language != "en" {
                    o.excluded += 1;
                    continue;
                }
                let typed = type_text(&mut w.p, *slot, text);
                match w.edit(*slot, typed) {
                    Ok(None) => {}
                    Ok(Some(d)) if d.starts_with("STALE:") => return fail(o, "C10:typed:accepted-text-holds-parse-error".into(), format!("{here}: {d}")),
                    Ok(Some(d)) => return fail(o, format!("C10:twin:english-display-rejected:{}", cfg_class(&w.language, &w.locale)), format!("{here}: {d}")),
                    Err(e) => return setup(o, format!("{here}: {e}")),
                }
                o = o.label("raw-text");
            }
            Step::Data { sheet, row, col, value } => {
                let a = w.p.update_cell_with_number(*sheet as u32, *row, *col, *value as f64);
                let b = w.t.update_cell_with_number(*sheet as u32, *row, *col, *value as f64);
                if let (Err(e), _) | (_, Err(e)) = (a, b) {
                    return setup(o, format!("{here}: {e}"));
                }
            }
            Step::Rename { sheet, name } => {
                if avoid(AVOID_RENAME) && !w.is_english() {
                    o.excluded += 1;
                    continue;
                }
                let a = w.p.rename_sheet_by_index(*sheet as u32, name);
                let b = w.t.rename_sheet_by_index(*sheet as u32, name);
                match (a, b) {
                    (Ok(()), Ok(())) => o = o.label("renamed"),
                    (Err(_), Err(_)) => o = o.label("rename-refused"),
                    (a, b) => return fail(o, "C10:twin:rename-result".into(), format!("{here}: primary {a:?}, twin {b:?}")),
                }
            }
        }
        w.evaluate();
        if let Some((aspect, d)) = w.twin_diff() {
            let kind = match step {
                Step::Language(_) => "set_language",
                Step::Locale(_) => "set_locale",
                Step::Edit { .. } => "edit",
                Step::Type { .. } => "raw-text",
                Step::Data { .. } => "data",
                Step::Rename { .. } => "rename",
            };
            return fail(
                o,
                format!("C10:twin:{kind}:{aspect}:{}", cfg_class(&w.language, &w.locale)),
                format!("{here}: the en/en twin (same history, formulas entered as displayed in en/en) and the primary differ (twin -> primary): {d}"),
            );
        }
    }
    if lam_ok {
        o = o.label("lambda-name-accepted");
    }
    if comma_switch && used_translated && switches > 0 {
        o = o.nontrivial(serde_json::to_string(case).unwrap_or_default());
    }
    o
}

// ------------------------------------------------------------------------------------------------

pub fn run(ctx: &Ctx) {
    ctx.set_rule(
        "pairs: every ordered pair of (language, locale) configurations x formula trees (13 hand-written ones covering \
         functions, decimals, separators, booleans, errors, array literals, names, ghost sheets, LAMBDA/LET; plus generated \
         ones in the thorough tier); non-trivial = the two configurations differ and the typed text was accepted; distinct \
         by (pair, typed text). histories: workbook (2 sheets, data, 3 reference names, a LAMBDA name, a formula conditional \
         format, 1-4 formulas) built in a generated configuration + 1..8 (quick) / 1..20 (thorough) steps \
         (set_language, set_locale, formula edit typed in the current configuration, data edit, sheet rename) against a \
         twin kept in en/en; non-trivial = at least one switch to a comma-decimal locale and at least one accepted formula \
         using a function whose name differs from the English one; distinct by the case.",
    );
    ctx.assume("formulas are locale-independent by construction: no TEXT/VALUE/FIXED/DOLLAR/NUMBERVALUE/DATEVALUE, no text that reads as a number with a separator, no number -> text conversion (& CONCATENATE LEFT UPPER) in generated formulas");
    ctx.assume("values are compared typed (number bit-exact, text, boolean, error kind); the localized text of an error value is not compared");
    ctx.assume("a typed text the parser rejects in the configuration it is typed in is outside the premise (counted under formula-rejected / typed-text-rejected)");
    ctx.assume("the range operator between arbitrary operands and numbers with more than 15 significant digits are not generated (listed under C09)");
    ctx.assume("a leading '=' of a stored defined-name formula is not significant");
    let enc_pair = |c: &PairCase| serde_json::to_value(c).unwrap_or(Value::Null);
    let cfgs = config::configs();
    let mut trees = fixed_trees();
    if ctx.tier == Tier::Thorough {
        trees.extend(generated_trees(ctx, 150, 3));
    } else {
        trees.extend(generated_trees(ctx, 3, 2));
    }
    let mut items = vec![];
    for a in &cfgs {
        for b in &cfgs {
            for t in &trees {
                items.push(PairCase { from: a.clone(), to: b.clone(), tree: t.clone() });
            }
        }
    }
    ctx.note(format!("pairs: {} configurations, {} ordered pairs, {} trees", cfgs.len(), cfgs.len() * cfgs.len(), trees.len()));
    ctx.enumerate("pairs", &items, check_pair, enc_pair);

    let mut avoid = vec![];
    for s in [AVOID_RENAME, AVOID_ENGLISH] {
        if ctx.avoid(s) {
            avoid.push(s.to_string());
        }
    }
    let (cases, depth, steps) = match ctx.tier {
        Tier::Quick => (20000, 2, 8),
        Tier::Thorough => (300000, 3, 20),
    };
    let enc = |c: &Case| serde_json::to_value(c).unwrap_or(Value::Null);
    ctx.campaign("histories", cases, || case_strategy(depth, steps, avoid.clone()), check, enc);
}

pub fn replay(_ctx: &Ctx, campaign: &str, case: &Value) -> Result<Outcome, String> {
    match campaign {
        "pairs" => {
            let c: PairCase = serde_json::from_value(case.clone()).map_err(|e| e.to_string())?;
            Ok(check_pair(&c))
        }
        "histories" => {
            let c: Case = serde_json::from_value(case.clone()).map_err(|e| e.to_string())?;
            Ok(check(&c))
        }
        other => Err(format!("unknown campaign {other}")),
    }
}
