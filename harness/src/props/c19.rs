//! C19 — Typed numbers are recognised exactly.
//!
//! Oracle: R-num, a three-valued recogniser of typed numbers written for this check, independent
//! of the engine's recogniser (`formatter::format::parse_formatted_number`). For a string and a
//! locale it answers
//!   * MUST      — the string is one of the unambiguous forms named in the property statement:
//!                 `[sign] digits-with-correct-grouping [decimal digits] [exponent] [%|currency]`,
//!                 `[-] currency number`, or a supported date (`d/m/y` in the locale's order,
//!                 `yyyy-m-d`, separators `/` `-`, numeric or exact locale month names, 2- or
//!                 4-digit years, as documented above `parse_date`). The engine must store a
//!                 number equal to the reference reading (2 ulp: `%` is one division) and give it
//!                 a format of (at least one of) the kinds the input shows.
//!   * MUST NOT  — two signs, misplaced group separators (leading, trailing, adjacent, a group
//!                 that is not a multiple of three), two `%`, two currency symbols, stray
//!                 characters, sign inside a date component, impossible calendar date: the engine
//!                 must not store a number (text, formula, anything else is fine).
//!   * DON'T CARE— forms the statement does not settle (`1,234567`, spaces, `5.`, `.5`, `$-5`, `+$5`, `5-`,
//!                 `(5)`, `%5`, `$5%`, dates with `.`, dates before 1900, times, fractions, ...):
//!                 only "if a number is stored it equals the reference reading" (or nothing at
//!                 all where there is no defensible reading).
//! A stored non-finite number is a failure for every verdict.

use ironcalc_base::expressions::types::Area;
use ironcalc_base::locale::get_locale;
use ironcalc_base::types::Cell;
use ironcalc_base::Model;
use proptest::prelude::*;
use serde::{Deserialize, Serialize};
use serde_json::{json, Value};

use super::c21::days_from_civil;
use crate::engine::config;
use crate::engine::ctx::Stats;
use crate::engine::{panics, Ctx, Outcome};

// ---------------------------------------------------------------------------------------------
// Locale facts (configuration data, not recogniser logic)
// ---------------------------------------------------------------------------------------------

#[derive(Clone, Debug)]
pub struct Loc {
    pub id: String,
    pub decimal: char,
    pub group: char,
    /// `$`, `€` and the locale's own symbol (what `set_user_input` documents as recognised)
    pub currencies: Vec<String>,
    pub day_first: bool,
    pub months_short: Vec<String>,
    pub months: Vec<String>,
}

pub fn loc(id: &str) -> Result<Loc, String> {
    let l = get_locale(id)?;
    let mut currencies = vec!["$".to_string(), "€".to_string()];
    if !currencies.contains(&l.currency.symbol) && !l.currency.symbol.is_empty() {
        currencies.push(l.currency.symbol.clone());
    }
    // order of day and month in the locale's short date pattern
    let short = l.dates.date_formats.short.to_lowercase();
    let day_first = match (short.find('d'), short.find('m')) {
        (Some(d), Some(m)) => d < m,
        _ => true,
    };
    Ok(Loc {
        id: id.to_string(),
        decimal: l.numbers.symbols.decimal.chars().next().unwrap_or('.'),
        group: l.numbers.symbols.group.chars().next().unwrap_or(','),
        currencies,
        day_first,
        months_short: l.dates.months_short.clone(),
        months: l.dates.months.clone(),
    })
}

// ---------------------------------------------------------------------------------------------
// R-num
// ---------------------------------------------------------------------------------------------

#[derive(Clone, Debug, PartialEq)]
pub enum Kind {
    Percent,
    Currency(String),
    Exponent,
    Grouped,
    Date,
}

#[derive(Clone, Debug, PartialEq)]
pub enum Readings {
    /// no defensible single reading: nothing is asserted about the value
    Any,
    Set(Vec<f64>),
}

#[derive(Clone, Debug, PartialEq)]
pub enum Verdict {
    /// `branch`: the features that select a recogniser branch (sign position, currency
    /// position, percent, exponent, date layout) - the root-cause class of a wrong value
    Must { value: f64, kinds: Vec<Kind>, class: String, branch: String },
    MustNot { class: String },
    DontCare { readings: Readings, class: String, branch: String },
}

impl Verdict {
    /// generator-distribution label: verdict and recogniser branch / first reason (the full
    /// class would give thousands of labels)
    pub fn label(&self) -> String {
        match self {
            Verdict::Must { branch, .. } => format!("must:{branch}"),
            Verdict::MustNot { class } => format!("mustnot:{class}"),
            Verdict::DontCare { class, .. } => format!("dontcare:{}", class.split('+').next().unwrap_or("")),
        }
    }
}

struct Numeral {
    int_digits: String,
    has_group: bool,
    group_defect: Option<&'static str>,
    frac: Option<String>,
    exp: Option<String>,
    end: usize,
}

impl Numeral {
    fn value(&self) -> f64 {
        let mut s = String::new();
        s.push_str(if self.int_digits.is_empty() { "0" } else { &self.int_digits });
        if let Some(f) = &self.frac {
            s.push('.');
            s.push_str(if f.is_empty() { "0" } else { f });
        }
        if let Some(e) = &self.exp {
            s.push('e');
            s.push_str(e);
        }
        // std's decimal -> binary conversion is correctly rounded; overflow gives inf
        s.parse::<f64>().unwrap_or(f64::NAN)
    }
}

/// Classify the placement of group separators in an integer part given as the list of digit-run
/// lengths between separators (`1,234` -> [1,3]; `1,` -> [1,0]; `,1` -> [0,1]).
fn group_defect(runs: &[usize]) -> Option<&'static str> {
    if runs.len() < 2 {
        return None;
    }
    let ok = (1..=3).contains(&runs[0]) && runs[1..].iter().all(|&r| r == 3);
    if ok {
        return None;
    }
    if runs[0] == 0 {
        return Some("leading");
    }
    // digits after each separator up to the end of the integer part
    let mut after = 0usize;
    let mut not_multiple = false;
    for &r in runs[1..].iter().rev() {
        after += r;
        if after % 3 != 0 {
            not_multiple = true;
        }
    }
    if not_multiple {
        return Some("group-not-multiple-of-3");
    }
    if *runs.last().unwrap_or(&1) == 0 {
        return Some("trailing");
    }
    if runs[1..].iter().any(|&r| r == 0) {
        return Some("adjacent");
    }
    Some("long-group")
}

fn scan_numeral(chars: &[char], start: usize, l: &Loc) -> Option<Numeral> {
    let n = chars.len();
    let mut pos = start;
    let group_is_space = l.group.is_whitespace();
    let mut runs: Vec<usize> = vec![0];
    let mut int_digits = String::new();
    while pos < n {
        let c = chars[pos];
        if c.is_ascii_digit() {
            int_digits.push(c);
            *runs.last_mut().unwrap() += 1;
        } else if c == l.group {
            if group_is_space {
                // a space-like group separator (fr: U+202F) belongs to the numeral only if the
                // numeral goes on after it (digit, decimal separator, exponent); otherwise it is
                // a space
                let mut j = pos;
                while j < n && chars[j] == l.group {
                    j += 1;
                }
                let goes_on = j < n && (chars[j].is_ascii_digit() || chars[j] == l.decimal || chars[j] == 'e' || chars[j] == 'E');
                if !goes_on || int_digits.is_empty() {
                    break;
                }
            }
            runs.push(0);
        } else {
            break;
        }
        pos += 1;
    }
    let has_group = runs.len() > 1;
    let mut frac = None;
    if pos < n && chars[pos] == l.decimal {
        let mut f = String::new();
        let mut p = pos + 1;
        while p < n && chars[p].is_ascii_digit() {
            f.push(chars[p]);
            p += 1;
        }
        if !(int_digits.is_empty() && f.is_empty() && !has_group) {
            frac = Some(f);
            pos = p;
        }
    }
    if int_digits.is_empty() && frac.as_ref().map(|f| f.is_empty()).unwrap_or(true) {
        // no digit at all
        return None;
    }
    let mut exp = None;
    if pos < n && (chars[pos] == 'e' || chars[pos] == 'E') {
        let mut p = pos + 1;
        let mut e = String::new();
        if p < n && (chars[p] == '+' || chars[p] == '-') {
            e.push(chars[p]);
            p += 1;
        }
        let d0 = p;
        while p < n && chars[p].is_ascii_digit() {
            e.push(chars[p]);
            p += 1;
        }
        if p > d0 {
            exp = Some(e);
            pos = p;
        }
    }
    Some(Numeral {
        int_digits,
        has_group,
        group_defect: group_defect(&runs),
        frac,
        exp,
        end: pos,
    })
}

fn stray_class(c: char, l: &Loc) -> &'static str {
    if c.is_ascii_digit() {
        "digit"
    } else if c.is_alphabetic() {
        "letter"
    } else if c == '+' || c == '-' {
        "sign"
    } else if c == l.decimal || c == l.group || c == '.' || c == ',' {
        "separator"
    } else if c == '/' {
        "slash"
    } else if c == '(' || c == ')' {
        "paren"
    } else {
        "other"
    }
}

fn currency_at<'a>(rest: &str, l: &'a Loc) -> Option<&'a String> {
    // longest symbol first
    let mut best: Option<&String> = None;
    for c in &l.currencies {
        if rest.starts_with(c.as_str()) && best.map(|b| b.len() < c.len()).unwrap_or(true) {
            best = Some(c);
        }
    }
    best
}

/// Numeric (non-date) classification of a trimmed, non-empty string.
fn classify_numeric(t: &str, outer_ws: bool, l: &Loc) -> Verdict {
    let chars: Vec<char> = t.chars().collect();
    let n = chars.len();
    // byte offsets for currency matching
    let offsets: Vec<usize> = t.char_indices().map(|(i, _)| i).collect();
    let rest = |pos: usize| -> &str {
        if pos < n {
            &t[offsets[pos]..]
        } else {
            ""
        }
    };
    let mut pos = 0;
    let mut ws = false;
    // (sign, index among tokens: true if a currency symbol came before it)
    let mut prefix_signs: Vec<(char, bool, usize)> = vec![];
    let mut suffix_signs = 0usize;
    let mut prefix_cur: Vec<String> = vec![];
    let mut suffix_cur: Vec<String> = vec![];
    let mut prefix_pct = 0usize;
    let mut suffix_pct = 0usize;
    while pos < n {
        let c = chars[pos];
        if c.is_whitespace() {
            ws = true;
            pos += 1;
        } else if c == '+' || c == '-' {
            prefix_signs.push((c, !prefix_cur.is_empty(), pos));
            pos += 1;
        } else if c == '%' {
            prefix_pct += 1;
            pos += 1;
        } else if let Some(cur) = currency_at(rest(pos), l) {
            prefix_cur.push(cur.clone());
            pos += cur.chars().count();
        } else {
            break;
        }
    }
    let Some(num) = (if pos < n { scan_numeral(&chars, pos, l) } else { None }) else {
        let class = if pos < n {
            format!("stray:{}", stray_class(chars[pos], l))
        } else {
            "no-digits".to_string()
        };
        return Verdict::MustNot { class };
    };
    let core_start = pos;
    pos = num.end;
    let mut suffix_gap_before_pct_or_cur = false;
    while pos < n {
        let c = chars[pos];
        if c.is_whitespace() {
            ws = true;
            pos += 1;
        } else if c == '%' {
            suffix_pct += 1;
            pos += 1;
        } else if c == '+' || c == '-' {
            suffix_signs += 1;
            suffix_gap_before_pct_or_cur = true;
            pos += 1;
        } else if let Some(cur) = currency_at(rest(pos), l) {
            suffix_cur.push(cur.clone());
            pos += cur.chars().count();
        } else {
            break;
        }
    }
    if pos != n {
        return Verdict::MustNot { class: format!("stray:{}", stray_class(chars[pos], l)) };
    }
    let signs = prefix_signs.len() + suffix_signs;
    let pct = prefix_pct + suffix_pct;
    let cur = prefix_cur.len() + suffix_cur.len();
    if signs >= 2 {
        let sub = if prefix_signs.len() == 2 && prefix_signs[1].2 == prefix_signs[0].2 + 1 {
            "adjacent"
        } else if prefix_signs.len() == 2 && !prefix_signs[0].1 && prefix_signs[1].1 {
            "before-and-after-currency"
        } else if prefix_signs.len() == 1 && suffix_signs == 1 {
            "leading-and-trailing"
        } else {
            "other"
        };
        return Verdict::MustNot { class: format!("two-signs:{sub}") };
    }
    // `1,234567` / `1234,567`: every separator is followed by a multiple of three digits, which
    // is the rule the engine documents ("in multiples of three") and its own test suite pins
    // (`test_numbers`: `1,234567` is the number 1234567, as in Excel). Whether that is "correctly
    // placed" is not settled by the statement: DON'T CARE. The other misplacements (leading,
    // trailing, adjacent separators, groups that are not a multiple of three) are MUST NOT.
    let long_group = num.group_defect == Some("long-group");
    if let Some(d) = num.group_defect {
        if !long_group {
            return Verdict::MustNot { class: format!("group-separator-misplaced:{d}") };
        }
    }
    if pct >= 2 {
        return Verdict::MustNot { class: "two-percent-signs".into() };
    }
    if cur >= 2 {
        return Verdict::MustNot { class: "two-currency-symbols".into() };
    }
    let negative = prefix_signs.iter().any(|s| s.0 == '-') || (suffix_signs == 1 && {
        // a trailing sign: `5-` reads as -5, `5+` as 5
        let idx = chars.iter().rposition(|c| *c == '+' || *c == '-').unwrap_or(0);
        chars[idx] == '-'
    });
    let mut value = num.value();
    let overflow = value.is_infinite();
    if negative {
        value = -value;
    }
    for _ in 0..pct {
        value /= 100.0;
    }
    // features
    let mut feats: Vec<String> = vec![];
    if let Some(s) = prefix_signs.first() {
        feats.push(if s.0 == '-' { "neg".into() } else { "plus".into() });
    }
    if !prefix_cur.is_empty() {
        feats.push("currency-prefix".into());
    }
    if num.has_group {
        feats.push("grouped".into());
    }
    if num.frac.is_some() {
        feats.push("decimal".into());
    }
    if num.exp.is_some() {
        feats.push("exponent".into());
    }
    if suffix_pct > 0 {
        feats.push("percent".into());
    }
    if !suffix_cur.is_empty() {
        feats.push("currency-suffix".into());
    }
    if overflow {
        feats.push("exponent-overflow".into());
    }
    if feats.is_empty() {
        feats.push("plain".into());
    }
    // reasons that make the form unsettled by the statement
    let mut unsettled: Vec<&str> = vec![];
    if long_group {
        unsettled.push("group-longer-than-three");
    }
    if ws || outer_ws {
        unsettled.push("space");
    }
    if prefix_pct > 0 {
        unsettled.push("percent-prefix");
    }
    if pct > 0 && cur > 0 {
        unsettled.push("percent-and-currency");
    }
    if num.int_digits.is_empty() {
        unsettled.push("no-integer-digits");
    }
    if num.frac.as_ref().map(|f| f.is_empty()).unwrap_or(false) {
        unsettled.push("no-fraction-digits");
    }
    if suffix_signs > 0 || suffix_gap_before_pct_or_cur {
        unsettled.push("trailing-sign");
    }
    if let Some((c, after_cur, at)) = prefix_signs.first() {
        if *after_cur {
            unsettled.push("sign-after-currency");
        } else if *at != 0 {
            unsettled.push("sign-not-first");
        } else if *c == '+' && !prefix_cur.is_empty() {
            unsettled.push("plus-before-currency");
        }
        // the sign must be adjacent to what follows: covered by `space`
    }
    let _ = core_start;
    let mut br: Vec<&str> = vec![];
    if let Some((c, after_cur, _)) = prefix_signs.first() {
        br.push(match (*c, *after_cur) {
            ('-', false) => "neg",
            ('-', true) => "neg-after-currency",
            (_, false) => "plus",
            (_, true) => "plus-after-currency",
        });
    }
    if suffix_signs > 0 {
        br.push("trailing-sign");
    }
    if !prefix_cur.is_empty() {
        br.push("currency-prefix");
    }
    if num.exp.is_some() {
        br.push("exponent");
    }
    if prefix_pct > 0 {
        br.push("percent-prefix");
    }
    if suffix_pct > 0 {
        br.push("percent");
    }
    if !suffix_cur.is_empty() {
        br.push("currency-suffix");
    }
    if br.is_empty() {
        br.push("plain");
    }
    let branch = br.join("+");
    if !unsettled.is_empty() {
        return Verdict::DontCare {
            readings: Readings::Set(vec![value]),
            class: unsettled.join("+"),
            branch,
        };
    }
    let mut kinds = vec![];
    if pct > 0 {
        kinds.push(Kind::Percent);
    }
    if let Some(c) = prefix_cur.first().or(suffix_cur.first()) {
        kinds.push(Kind::Currency(c.clone()));
    }
    if num.exp.is_some() {
        kinds.push(Kind::Exponent);
    }
    if num.has_group {
        kinds.push(Kind::Grouped);
    }
    Verdict::Must { value, kinds, class: feats.join("+"), branch }
}

fn days_in_month(y: i64, m: u32) -> u32 {
    match m {
        1 | 3 | 5 | 7 | 8 | 10 | 12 => 31,
        4 | 6 | 9 | 11 => 30,
        2 => {
            if (y % 4 == 0 && y % 100 != 0) || y % 400 == 0 {
                29
            } else {
                28
            }
        }
        _ => 0,
    }
}

fn serial(y: i64, m: u32, d: u32) -> Option<f64> {
    if !(1..=12).contains(&m) || d == 0 || d > days_in_month(y, m) {
        return None;
    }
    Some((days_from_civil(y, m, d) - days_from_civil(1899, 12, 30)) as f64)
}

fn all_digits(s: &str) -> bool {
    !s.is_empty() && s.bytes().all(|b| b.is_ascii_digit())
}

enum MonthPart {
    Num(u32, usize),
    Name(u32),
    /// a locale month name in another letter case
    NameLoose(u32),
}

fn month_part(p: &str, l: &Loc) -> Option<MonthPart> {
    if all_digits(p) {
        return p.parse::<u32>().ok().map(|v| MonthPart::Num(v, p.len()));
    }
    if let Some(i) = l.months_short.iter().position(|m| m == p) {
        return Some(MonthPart::Name(i as u32 + 1));
    }
    if let Some(i) = l.months.iter().position(|m| m == p) {
        return Some(MonthPart::Name(i as u32 + 1));
    }
    let lp = p.to_lowercase();
    if let Some(i) = l
        .months_short
        .iter()
        .chain(l.months.iter())
        .position(|m| m.to_lowercase() == lp)
    {
        return Some(MonthPart::NameLoose((i % 12) as u32 + 1));
    }
    None
}

/// Date classification of a trimmed string; `None` = not of a supported date shape.
fn classify_date(t: &str, outer_ws: bool, l: &Loc) -> Option<Verdict> {
    for sep in ['/', '-', '.'] {
        if !t.contains(sep) {
            continue;
        }
        let parts: Vec<&str> = t.split(sep).collect();
        if parts.len() != 3 {
            continue;
        }
        let iso = parts[0].len() == 4 && all_digits(parts[0]);
        let (ds, ms, ys) = if iso {
            (parts[2], parts[1], parts[0])
        } else if l.day_first {
            (parts[0], parts[1], parts[2])
        } else {
            (parts[1], parts[0], parts[2])
        };
        if !all_digits(ds) || ds.len() > 2 || !all_digits(ys) || !(ys.len() == 2 || ys.len() == 4) {
            continue;
        }
        let Some(mp) = month_part(ms, l) else { continue };
        let (m, m_named, loose) = match mp {
            MonthPart::Num(v, len) => {
                if len > 2 {
                    continue;
                }
                (v, false, false)
            }
            MonthPart::Name(v) => (v, true, false),
            MonthPart::NameLoose(v) => (v, true, true),
        };
        let d: u32 = ds.parse().ok()?;
        let yv: i64 = ys.parse().ok()?;
        let y = if ys.len() == 2 {
            // documented above `parse_year`: 00..29 -> 20xx, 30..99 -> 19xx
            if yv < 30 {
                2000 + yv
            } else {
                1900 + yv
            }
        } else {
            yv
        };
        let base = if iso { "date-iso" } else { "date-local" };
        let named = if m_named { "+month-name" } else { "" };
        let Some(v) = serial(y, m, d) else {
            // impossible in the locale's order; the other order may be a real date
            if !iso && !m_named {
                if let Some(v2) = serial(y, d, m) {
                    return Some(Verdict::DontCare {
                        readings: Readings::Set(vec![v2]),
                        class: "date-in-other-order".into(),
                        branch: "date".into(),
                    });
                }
            }
            return Some(Verdict::MustNot { class: "invalid-calendar-date".into() });
        };
        if loose || (iso && m_named) || (m_named && !l.day_first) {
            // month names are documented for the day-first layout only
            return Some(Verdict::DontCare { readings: Readings::Any, class: "date-month-name-variant".into(), branch: "date".into() });
        }
        if ys.len() == 4 && !(1900..=9999).contains(&y) {
            return Some(Verdict::DontCare { readings: Readings::Any, class: "date-before-1900".into(), branch: "date".into() });
        }
        if outer_ws {
            return Some(Verdict::DontCare { readings: Readings::Set(vec![v]), class: "date+space".into(), branch: "date".into() });
        }
        if sep == '.' {
            return Some(Verdict::DontCare { readings: Readings::Set(vec![v]), class: "date-dot-separator".into(), branch: "date".into() });
        }
        return Some(Verdict::Must {
            value: v,
            kinds: vec![Kind::Date],
            class: format!("{base}{named}"),
            branch: format!("{base}{named}"),
        });
    }
    None
}

/// `[+-]?digits` (sep `[+-]?digits`){2} with at least one sign that is not a single leading `+`/`-`
/// of the whole string: a sign inside a date component.
fn signed_date_component(t: &str) -> bool {
    for sep in ['/', '.', '-'] {
        let parts: Vec<&str> = t.split(sep).collect();
        if parts.len() != 3 {
            continue;
        }
        let mut inner_sign = false;
        let mut ok = true;
        for (i, p) in parts.iter().enumerate() {
            let (signed, body) = match p.strip_prefix(['+', '-']) {
                Some(b) => (true, b),
                None => (false, *p),
            };
            let word = !signed && !body.is_empty() && body.chars().all(|c| c.is_alphabetic() || c == '.');
            if !all_digits(body) && !word {
                ok = false;
                break;
            }
            if signed && i > 0 {
                inner_sign = true;
            }
        }
        if ok && inner_sign {
            return true;
        }
    }
    false
}

/// three digit groups with one separator from `/ - .` (any lengths), or `d/d`, or `d d/d`
fn date_or_fraction_like(t: &str) -> bool {
    for sep in ['/', '-', '.'] {
        let parts: Vec<&str> = t.split(sep).collect();
        if parts.len() == 3 && parts.iter().all(|p| all_digits(p.trim())) {
            return true;
        }
    }
    let parts: Vec<&str> = t.split('/').collect();
    if parts.len() == 2 && all_digits(parts[1].trim()) {
        let left: Vec<&str> = parts[0].split_whitespace().collect();
        if (left.len() == 1 || left.len() == 2) && left.iter().all(|p| all_digits(p)) {
            return true;
        }
    }
    false
}

pub fn classify(s: &str, l: &Loc) -> Verdict {
    let has_digit = s.chars().any(|c| c.is_ascii_digit());
    if s.chars().any(|c| c.is_numeric() && !c.is_ascii_digit()) {
        return Verdict::DontCare { readings: Readings::Any, class: "non-ascii-digit".into(), branch: String::new() };
    }
    if has_digit && s.contains(':') {
        return Verdict::DontCare { readings: Readings::Any, class: "time-like".into(), branch: String::new() };
    }
    let t = s.trim();
    let outer_ws = t.len() != s.len();
    if t.is_empty() {
        return Verdict::MustNot { class: "blank".into() };
    }
    if let Some(v) = classify_date(t, outer_ws, l) {
        return v;
    }
    // a leading `+` in front of a date
    if let Some(rest) = t.strip_prefix('+') {
        match classify_date(rest, outer_ws, l) {
            Some(Verdict::Must { value, .. }) => {
                return Verdict::DontCare { readings: Readings::Set(vec![value]), class: "plus-before-date".into(), branch: "date".into() };
            }
            Some(Verdict::DontCare { readings, .. }) => {
                return Verdict::DontCare { readings, class: "plus-before-date".into(), branch: "date".into() };
            }
            _ => {}
        }
    }
    // accounting parentheses
    if let Some(inner) = t.strip_prefix('(').and_then(|r| r.strip_suffix(')')) {
        let it = inner.trim();
        if !it.is_empty() {
            match classify_numeric(it, true, l) {
                Verdict::Must { value, branch, .. } => {
                    return Verdict::DontCare { readings: Readings::Set(vec![value, -value]), class: "parentheses".into(), branch: format!("parentheses+{branch}") }
                }
                Verdict::DontCare { readings: Readings::Set(r), branch, .. } => {
                    let mut all = r.clone();
                    all.extend(r.iter().map(|v| -v));
                    return Verdict::DontCare { readings: Readings::Set(all), class: "parentheses".into(), branch: format!("parentheses+{branch}") };
                }
                _ => {}
            }
        }
    }
    let v = classify_numeric(t, outer_ws, l);
    if let Verdict::MustNot { class } = &v {
        if class.starts_with("stray") || class.starts_with("two-signs") {
            if signed_date_component(t) {
                return Verdict::MustNot { class: "date-with-signed-component".into() };
            }
            if class.starts_with("stray") && date_or_fraction_like(t) {
                return Verdict::DontCare { readings: Readings::Any, class: "date-or-fraction-like".into(), branch: String::new() };
            }
        }
    }
    v
}

// ---------------------------------------------------------------------------------------------
// Engine observation and comparison
// ---------------------------------------------------------------------------------------------

#[derive(Clone, Debug, PartialEq)]
pub enum Stored {
    Number(f64, String),
    Other(&'static str),
    Rejected(String),
}

fn intern(s: &str) -> &'static str {
    for k in ["en", "en-GB", "es", "fr", "de", "it"] {
        if k == s {
            return k;
        }
    }
    Box::leak(s.to_string().into_boxed_str())
}

pub fn new_model(locale: &str, language: &str) -> Result<Model<'static>, String> {
    Model::new_empty("m", intern(locale), "UTC", intern(language))
}

fn observe(model: &mut Model, row: i32, col: i32, input: &str) -> Stored {
    if let Err(e) = model.set_user_input(0, row, col, input.to_string()) {
        return Stored::Rejected(e);
    }
    let cell = model.workbook.worksheets[0].cell(row, col);
    match cell {
        Some(Cell::NumberCell { v, .. }) => {
            let v = *v;
            let fmt = model
                .get_style_for_cell(0, row, col)
                .map(|s| s.num_fmt)
                .unwrap_or_else(|e| format!("<style error {e}>"));
            Stored::Number(v, fmt)
        }
        Some(Cell::SharedString { .. }) => Stored::Other("text"),
        Some(Cell::CellFormula { .. }) => Stored::Other("formula"),
        Some(Cell::BooleanCell { .. }) => Stored::Other("boolean"),
        Some(Cell::ErrorCell { .. }) => Stored::Other("error"),
        Some(Cell::EmptyCell { .. }) | None => Stored::Other("empty"),
        Some(_) => Stored::Other("other"),
    }
}

fn close(a: f64, b: f64) -> bool {
    if a == b {
        return true;
    }
    let diff = (a - b).abs();
    diff <= 4.5e-16 * a.abs().max(b.abs()) || diff <= 1.0e-322
}

fn kind_ok(fmt: &str, k: &Kind) -> bool {
    match k {
        Kind::Percent => fmt.contains('%'),
        Kind::Currency(c) => fmt.contains(c.as_str()),
        Kind::Exponent => fmt.contains("E+") || fmt.contains("E-") || fmt.contains("e+") || fmt.contains("e-"),
        Kind::Grouped => fmt.contains(','),
        Kind::Date => {
            let f = fmt.to_lowercase();
            f.contains('y') && f.contains('m') && f.contains('d') && !f.contains('0') && !f.contains('#')
        }
    }
}

#[derive(Clone, Debug, Serialize, Deserialize, PartialEq)]
pub struct Case {
    pub locale: String,
    pub input: String,
}

fn nt_rule(input: &str) -> bool {
    input.chars().any(|c| c.is_ascii_digit()) && input.chars().any(|c| !c.is_ascii_digit())
}

/// Compare what the engine stored with the reference verdict.
fn judge(case: &Case, verdict: &Verdict, stored: &Stored, nt_key: Option<String>) -> Outcome {
    let mut o = Outcome::pass().label(verdict.label());
    if let Verdict::Must { class, .. } = verdict {
        for f in ["grouped", "decimal", "exponent-overflow"] {
            if class.split('+').any(|c| c == f) {
                o = o.label(format!("must-feature:{f}"));
            }
        }
    }
    if let Some(k) = nt_key {
        o = o.nontrivial(k);
    }
    let show = |st: &Stored| match st {
        Stored::Number(v, f) => format!("number {v:?} with format {f:?}"),
        Stored::Other(k) => (*k).to_string(),
        Stored::Rejected(e) => format!("Err({e})"),
    };
    let detail = |what: &str| {
        format!(
            "locale {}: typed {:?}: {what}; engine stored {}",
            case.locale,
            case.input,
            show(stored)
        )
    };
    if let Stored::Number(v, _) = stored {
        if !v.is_finite() {
            let class = if case.input.contains(['e', 'E']) { "exponent-overflow" } else { "no-exponent" };
            return o.fail(
                format!("C19:non-finite-stored:{class}"),
                detail("a non-finite value is not a number a user can type"),
            );
        }
    }
    let value_sig = |v: f64, want: f64, branch: &str| {
        let sym = if want != 0.0 && close(v, -want) { "sign-lost" } else { "wrong-value" };
        format!("C19:{sym}:{branch}")
    };
    match verdict {
        Verdict::Must { value, kinds, class, branch } => {
            if !value.is_finite() {
                // out of f64 range: only "nothing non-finite is stored" (checked above)
                return o.label("must:out-of-range");
            }
            match stored {
                Stored::Number(v, fmt) => {
                    if !close(*v, *value) {
                        return o.fail(value_sig(*v, *value, branch), detail(&format!("denotes the number {value:?}")));
                    }
                    if !kinds.is_empty() && !kinds.iter().any(|k| kind_ok(fmt, k)) {
                        let shown: Vec<&str> = kinds
                            .iter()
                            .map(|k| match k {
                                Kind::Percent => "percent",
                                Kind::Currency(_) => "currency",
                                Kind::Exponent => "exponent",
                                Kind::Grouped => "grouped",
                                Kind::Date => "date",
                            })
                            .collect();
                        return o.fail(
                            format!("C19:format-kind-missing:{}", shown.join("+")),
                            detail(&format!("the input shows {kinds:?}, the format shows none of them")),
                        );
                    }
                    if !kinds.iter().all(|k| kind_ok(fmt, k)) {
                        o = o.label("format-shows-only-some-kinds");
                    }
                    o
                }
                _ => o.fail(
                    format!("C19:rejected:{class}"),
                    detail(&format!("denotes the number {value:?} but no number was stored")),
                ),
            }
        }
        Verdict::MustNot { class } => match stored {
            Stored::Number(..) => o.fail(
                format!("C19:accepted:{class}"),
                detail("is not a number of the stated grammar"),
            ),
            Stored::Other(k) => o.label(format!("not-number:{k}")),
            Stored::Rejected(_) => o.label("not-number:input-rejected"),
        },
        Verdict::DontCare { readings, class, branch } => match (stored, readings) {
            (Stored::Number(v, _), Readings::Set(r)) => {
                if r.iter().any(|x| close(*v, *x) || (!x.is_finite())) {
                    o.label("dontcare-stored-as-number")
                } else {
                    let want = r.first().copied().unwrap_or(0.0);
                    let _ = class;
                    o.fail(
                        value_sig(*v, want, branch),
                        detail(&format!("whether this form is a number is not settled by the statement, but if it is, it reads {r:?}")),
                    )
                }
            }
            (Stored::Number(..), Readings::Any) => o.label("dontcare-stored-as-number"),
            _ => o,
        },
    }
}

/// One case on a fresh model: the definition of the check (used by campaigns and replay).
pub fn check(case: &Case) -> Outcome {
    let l = match loc(&case.locale) {
        Ok(l) => l,
        Err(e) => return Outcome::pass().fail("C19:setup", e),
    };
    check_with(case, &l, None)
}

fn check_with(case: &Case, l: &Loc, model: Option<&mut Model<'static>>) -> Outcome {
    let verdict = classify(&case.input, l);
    let nt = if nt_rule(&case.input) { Some(format!("{}|{}", case.locale, case.input)) } else { None };
    let r = panics::catch(|| match model {
        Some(m) => {
            let st = observe(m, 1, 1, &case.input);
            let _ = m.range_clear_all(&Area { sheet: 0, row: 1, column: 1, width: 1, height: 1 });
            Ok(st)
        }
        None => {
            let mut m = new_model(&case.locale, "en")?;
            Ok::<Stored, String>(observe(&mut m, 1, 1, &case.input))
        }
    });
    match r {
        Ok(Ok(st)) => judge(case, &verdict, &st, nt),
        Ok(Err(e)) => Outcome::pass().fail("C19:setup", e),
        Err(p) => Outcome::pass()
            .label(verdict.label())
            .fail(format!("C19:{}", p.class()), format!("typed {:?} in locale {}: {}", case.input, case.locale, p.describe())),
    }
}

// ---------------------------------------------------------------------------------------------
// Bounded-exhaustive enumeration
// ---------------------------------------------------------------------------------------------

pub fn alphabet(l: &Loc) -> Vec<String> {
    let mut a: Vec<String> = vec![];
    let mut push = |s: String| {
        if !a.contains(&s) {
            a.push(s);
        }
    };
    for s in ["0", "1", "9", ".", ","] {
        push(s.to_string());
    }
    push(l.decimal.to_string());
    push(l.group.to_string());
    for s in ["-", "+", "e", "E", "%", "$", "€"] {
        push(s.to_string());
    }
    for c in &l.currencies {
        push(c.clone());
    }
    for s in ["/", " ", "(", ")"] {
        push(s.to_string());
    }
    a
}

/// the `index`-th string of `len` symbols (mixed radix, first symbol most significant)
fn nth_string(alpha: &[String], len: usize, mut index: u64) -> String {
    let a = alpha.len() as u64;
    let mut syms = vec![0usize; len];
    for i in (0..len).rev() {
        syms[i] = (index % a) as usize;
        index /= a;
    }
    let mut s = String::new();
    for i in syms {
        s.push_str(&alpha[i]);
    }
    s
}

const BLOCK: u64 = 4096;
const FRESH_MODEL_EVERY: u64 = 4096;
const CROSS_CHECK_EVERY: u64 = 509;

/// All strings of exactly `len` symbols over the locale's alphabet, in blocks dealt round-robin
/// to the workers. One model per worker is reused (cell cleared after every input, new model
/// every 4096 inputs); every failure and every 509th case is re-decided on a fresh model.
fn enumerate_len(ctx: &Ctx, l: &Loc, len: usize, coarse_keys: bool) -> u64 {
    let alpha = alphabet(l);
    let total = (alpha.len() as u64).pow(len as u32);
    let blocks = total.div_ceil(BLOCK);
    let threads = (ctx.threads as u64).min(blocks).max(1);
    let name = format!("exhaustive-len{len}");
    let nt_count = std::sync::atomic::AtomicU64::new(0);
    std::thread::scope(|scope| {
        for w in 0..threads {
            let alpha = &alpha;
            let name = &name;
            let nt_count = &nt_count;
            std::thread::Builder::new()
                .stack_size(64 << 20)
                .spawn_scoped(scope, move || {
                    let mut local = Stats::default();
                    let mut model = new_model(&l.id, "en").ok();
                    let mut since_fresh = 0u64;
                    let mut nt_local = 0u64;
                    let mut b = w;
                    'outer: while b < blocks {
                        let lo = b * BLOCK;
                        let hi = (lo + BLOCK).min(total);
                        for idx in lo..hi {
                            if ctx.stopped() {
                                break 'outer;
                            }
                            let case = Case { locale: l.id.clone(), input: nth_string(alpha, len, idx) };
                            since_fresh += 1;
                            if since_fresh >= FRESH_MODEL_EVERY || model.is_none() {
                                model = new_model(&l.id, "en").ok();
                                since_fresh = 0;
                            }
                            let mut o = check_with(&case, l, model.as_mut());
                            if o.failed() || idx % CROSS_CHECK_EVERY == 0 {
                                let fresh = check_with(&case, l, None);
                                let same = fresh.failure.as_ref().map(|f| &f.signature)
                                    == o.failure.as_ref().map(|f| &f.signature)
                                    && fresh.labels == o.labels;
                                if !same {
                                    local.notes.push(format!(
                                        "reused-model result differed from fresh-model result for {:?} ({}); fresh result used",
                                        case.input, l.id
                                    ));
                                    model = None;
                                }
                                o = fresh;
                            }
                            if o.nontrivial.is_some() {
                                nt_local += 1;
                                if coarse_keys {
                                    let k = format!("{}|len{len}|{}", l.id, o.labels.first().cloned().unwrap_or_default());
                                    o.nontrivial = Some(k);
                                }
                            }
                            let enc = || json!({"locale": case.locale, "input": case.input});
                            if local.record(ctx, name, &o, &enc) {
                                let f = o.failure.as_ref().unwrap();
                                if ctx.collect && !ctx.seen.lock().unwrap().insert(f.signature.clone()) {
                                    continue;
                                }
                                ctx.violation(name, f, enc());
                                if !ctx.collect {
                                    break 'outer;
                                }
                            }
                        }
                        b += threads;
                    }
                    nt_count.fetch_add(nt_local, std::sync::atomic::Ordering::SeqCst);
                    ctx.merge(local);
                })
                .expect("spawn worker");
        }
    });
    nt_count.load(std::sync::atomic::Ordering::SeqCst)
}

// ---------------------------------------------------------------------------------------------
// Random and structured campaigns
// ---------------------------------------------------------------------------------------------

fn locale_strategy() -> impl Strategy<Value = String> {
    let ls = config::locales();
    (0..ls.len()).prop_map(move |i| ls[i].clone())
}

/// long random strings over the same alphabet (digits weighted up so that numerals are common)
fn random_long() -> impl Strategy<Value = Case> {
    (locale_strategy(), prop::collection::vec((0..100u32, 0..64usize), 6..=14)).prop_map(|(locale, picks)| {
        let l = loc(&locale).expect("locale");
        let alpha = alphabet(&l);
        let mut s = String::new();
        for (w, i) in picks {
            if w < 55 {
                s.push_str(&alpha[i % 3]); // a digit
            } else {
                s.push_str(&alpha[3 + i % (alpha.len() - 3)]);
            }
        }
        Case { locale, input: s }
    })
}

#[derive(Clone, Debug)]
struct Parts {
    locale: String,
    lead_ws: u8,
    sign: u8,
    cur_prefix: u8,
    sign2: u8,
    int_len: usize,
    int_seed: u64,
    grouping: u8,
    frac: u8,
    frac_seed: u64,
    exp: u8,
    exp_val: u16,
    suffix: u8,
    trail_ws: u8,
    mutate: u8,
    mut_pos: u16,
    mut_sym: u16,
}

fn digits_from(seed: u64, n: usize, first_nonzero: bool) -> String {
    let mut s = String::new();
    let mut x = seed | 1;
    for i in 0..n {
        x = x.wrapping_mul(6364136223846793005).wrapping_add(1442695040888963407);
        let mut d = ((x >> 33) % 10) as u8;
        if i == 0 && first_nonzero && d == 0 {
            d = 1;
        }
        s.push((b'0' + d) as char);
    }
    s
}

fn render_parts(p: &Parts) -> Case {
    let l = loc(&p.locale).expect("locale");
    let mut s = String::new();
    if p.lead_ws == 1 {
        s.push(' ');
    }
    match p.sign {
        1 => s.push('-'),
        2 => s.push('+'),
        _ => {}
    }
    let cur = |k: u8| -> String { l.currencies[(k as usize - 1) % l.currencies.len()].clone() };
    if p.cur_prefix > 0 {
        s.push_str(&cur(p.cur_prefix));
        if p.cur_prefix > 3 {
            s.push(' ');
        }
    }
    match p.sign2 {
        1 => s.push('-'),
        2 => s.push('+'),
        _ => {}
    }
    // integer part
    let digits = digits_from(p.int_seed, p.int_len, p.int_len > 1 && p.grouping != 5);
    let g = l.group;
    match p.grouping {
        // correct grouping
        1 | 2 if p.int_len > 3 => {
            let first = (p.int_len - 1) % 3 + 1;
            s.push_str(&digits[..first]);
            let mut i = first;
            while i < p.int_len {
                s.push(g);
                s.push_str(&digits[i..i + 3]);
                i += 3;
            }
        }
        // one separator at a wrong place
        3 if p.int_len > 1 => {
            let at = 1 + (p.int_seed as usize % (p.int_len - 1));
            s.push_str(&digits[..at]);
            s.push(g);
            s.push_str(&digits[at..]);
        }
        // trailing / doubled / leading separator
        4 => {
            match p.int_seed % 3 {
                0 => {
                    s.push_str(&digits);
                    s.push(g);
                }
                1 => {
                    s.push(g);
                    s.push_str(&digits);
                }
                _ => {
                    let at = p.int_len.min(1);
                    s.push_str(&digits[..at]);
                    s.push(g);
                    s.push(g);
                    s.push_str(&digits[at..]);
                    s.push_str("000");
                }
            }
        }
        _ => s.push_str(&digits),
    }
    if p.frac > 0 {
        s.push(l.decimal);
        s.push_str(&digits_from(p.frac_seed, (p.frac as usize - 1).min(17), false));
    }
    match p.exp {
        1 => s.push_str(&format!("e{}", p.exp_val % 40)),
        2 => s.push_str(&format!("E+{}", p.exp_val % 310)),
        3 => s.push_str(&format!("e-{}", p.exp_val % 330)),
        4 => s.push_str(&format!("E{}", 300 + p.exp_val % 700)),
        5 => s.push('e'),
        _ => {}
    }
    match p.suffix {
        1 => s.push('%'),
        2 => s.push_str(" %"),
        3 | 4 | 5 => s.push_str(&cur(p.suffix - 2)),
        6 => {
            s.push(' ');
            s.push_str(&cur(3));
        }
        7 => s.push_str("%%"),
        _ => {}
    }
    if p.trail_ws == 1 {
        s.push(' ');
    }
    if p.mutate > 0 {
        let alpha = alphabet(&l);
        let mut cs: Vec<char> = s.chars().collect();
        let sym: Vec<char> = alpha[p.mut_sym as usize % alpha.len()].chars().collect();
        let at = p.mut_pos as usize % (cs.len() + 1);
        match p.mutate {
            1 => {
                for (k, c) in sym.iter().enumerate() {
                    cs.insert(at + k, *c);
                }
            }
            2 if at < cs.len() => {
                cs.remove(at);
            }
            3 if at < cs.len() => {
                cs[at] = sym[0];
            }
            _ => {}
        }
        s = cs.into_iter().collect();
    }
    Case { locale: p.locale.clone(), input: s }
}

fn structured_numeral() -> impl Strategy<Value = Case> {
    let w = |a: Vec<(u32, u8)>| prop::sample::select(a.into_iter().flat_map(|(n, v)| std::iter::repeat(v).take(n as usize)).collect::<Vec<u8>>());
    (
        (
            locale_strategy(),
            w(vec![(9, 0), (1, 1)]),
            w(vec![(5, 0), (3, 1), (1, 2)]),
            w(vec![(12, 0), (2, 1), (2, 2), (2, 3), (1, 4), (1, 6)]),
            w(vec![(12, 0), (1, 1), (1, 2)]),
            prop_oneof![4 => 1..=4usize, 3 => 4..=10usize, 1 => 10..=22usize],
            any::<u64>(),
            w(vec![(3, 0), (3, 1), (2, 2), (2, 3), (1, 4), (1, 5)]),
        ),
        (
            w(vec![(5, 0), (1, 1), (2, 2), (2, 3), (1, 8), (1, 18)]),
            any::<u64>(),
            w(vec![(8, 0), (2, 1), (1, 2), (1, 3), (1, 4), (1, 5)]),
            any::<u16>(),
            w(vec![(8, 0), (3, 1), (1, 2), (1, 3), (1, 4), (1, 5), (1, 6), (1, 7)]),
            w(vec![(9, 0), (1, 1)]),
            w(vec![(6, 0), (1, 1), (1, 2), (1, 3)]),
            any::<u16>(),
            any::<u16>(),
        ),
    )
        .prop_map(|((locale, lead_ws, sign, cur_prefix, sign2, int_len, int_seed, grouping), (frac, frac_seed, exp, exp_val, suffix, trail_ws, mutate, mut_pos, mut_sym))| {
            render_parts(&Parts {
                locale,
                lead_ws,
                sign,
                cur_prefix,
                sign2,
                int_len,
                int_seed,
                grouping,
                frac,
                frac_seed,
                exp,
                exp_val,
                suffix,
                trail_ws,
                mutate,
                mut_pos,
                mut_sym,
            })
        })
}

/// dates: valid and invalid, every separator, numeric and named months, 2/4-digit years,
/// signs and spaces sprinkled in
fn structured_date() -> impl Strategy<Value = Case> {
    (
        locale_strategy(),
        0..=32u32,
        0..=14u32,
        prop_oneof![4 => 1990..2035i32, 2 => 0..100i32, 1 => 1890..1905i32, 1 => 9990..10000i32, 1 => 0..2000i32],
        0..6u8,  // layout
        0..4u8,  // separator
        0..8u8,  // month rendering
        0..12u8, // decoration
        any::<bool>(),
    )
        .prop_map(|(locale, d, m, y, layout, sep, mr, deco, pad)| {
            let l = loc(&locale).expect("locale");
            let sep = ['/', '-', '.', '/'][sep as usize];
            let mi = (m.max(1) as usize - 1) % 12;
            let ms = match mr {
                0 => l.months_short[mi].clone(),
                1 => l.months[mi].clone(),
                2 => l.months_short[mi].to_uppercase(),
                _ => {
                    if pad {
                        format!("{m:02}")
                    } else {
                        m.to_string()
                    }
                }
            };
            let ds = if pad { format!("{d:02}") } else { d.to_string() };
            let ys = match layout {
                0 | 1 => format!("{:02}", y.rem_euclid(100)),
                _ => format!("{y:04}"),
            };
            let mut s = match layout {
                // iso
                4 | 5 => format!("{ys}{sep}{ms}{sep}{ds}"),
                // the locale's order
                0 | 2 => {
                    if l.day_first {
                        format!("{ds}{sep}{ms}{sep}{ys}")
                    } else {
                        format!("{ms}{sep}{ds}{sep}{ys}")
                    }
                }
                // the other order
                _ => {
                    if l.day_first {
                        format!("{ms}{sep}{ds}{sep}{ys}")
                    } else {
                        format!("{ds}{sep}{ms}{sep}{ys}")
                    }
                }
            };
            match deco {
                0 => s = format!(" {s}"),
                1 => s = format!("{s} "),
                2 => s = format!("+{s}"),
                3 => s = format!("-{s}"),
                4 => {
                    // sign inside the last component
                    if let Some(i) = s.rfind(sep) {
                        s.insert(i + 1, if pad { '+' } else { '-' });
                    }
                }
                5 => {
                    if let Some(i) = s.find(sep) {
                        s.insert(i + 1, '+');
                    }
                }
                6 => s.push('%'),
                _ => {}
            }
            Case { locale, input: s }
        })
}

/// look-alikes that must stay text
fn lookalike() -> impl Strategy<Value = Case> {
    let words = vec![
        "inf", "-inf", "+inf", "infinity", "nan", "NaN", "-nan", "1_000", "0x10", "1d5", "1f", "1e", "e5", "1e+", "1e-", "1E", "1 e5",
        "1e5e5", "1e5.5", "1.5.5e3", "--5", "+-5", "-+5", "5--", "$", "%", "-", "+", "$-", "-$", "€%", "1e5%%", "$$5", "$5$", "5$$",
        "1.2.3", "1/2", "1 1/2", "12:30", "1:2:3", "2024-01-01 12:30", "1e5 $", "$1e5", "-$1e5", "-$1E+2", "-€1e3", "1e999", "-1e999", "1E400%",
        "$1e999", "1,", "1,,000", "1234,567", "1,234567", ",123", "1,23", "12,34", "-$-5", "-$+5", "$-5", "+$5", "$+5", "5-", "5+", "(5)",
        "($5)", "(5", "5)", "%5", "$5%", "5%$", "5.", ".5", "-.5", ".", "5 %", "$ 5", "5 €", "- 5", "１２３", "٣", "0.1e-320", "4e-324%",
        "1/1/+1", "1/1/-1", "1/+1/11", "+1/1/11", "+1-1-11", "1-+1-11", "1.1.+1", "1/1/0000", "1/1/0029", "31/2/2024", "2/31/2024", "13/13/2013",
        "1900-02-29", "2024-02-30", "2024-2-3", "2024/02/03", "2024.02.03", "24-02-03", "1-1-1", "01-01-001", "1/1/111",
    ];
    (locale_strategy(), prop::sample::select(words)).prop_map(|(locale, w)| Case { locale, input: w.to_string() })
}

fn enc(c: &Case) -> Value {
    json!({"locale": c.locale, "input": c.input})
}

pub fn run(ctx: &Ctx) {
    let locales = config::locales();
    let max_len = ctx.tier.pick(5usize, 6usize);
    ctx.set_rule(&format!(
        "Bounded-exhaustive: every string of 0..={max_len} symbols over the per-locale alphabet \
         {{0 1 9 . , <decimal> <group> - + e E % $ € <locale currency> / space ( )}} in every supported locale \
         ({} locales), typed into an empty cell with Model::set_user_input and judged by the independent three-valued \
         recogniser R-num; plus random strings of 6..14 symbols from the same alphabet, structured numerals \
         (sign/currency/grouping right and wrong/decimal/exponent/suffix/spaces with one random mutation), structured \
         dates and a list of look-alikes. Non-trivial: the string contains a digit and at least one non-digit symbol; \
         distinct by (locale, string) (strings of length 6 in the thorough tier are counted per (locale, reference \
         class) to bound memory; their number is in the notes).",
        locales.len()
    ));
    ctx.assume("value comparison: 2 ulp relative (percent input costs one extra division); numerals beyond the f64 range are only required not to be stored as a non-finite number");
    ctx.assume("format of the stated kind: at least one of the kinds the input shows (percent, the typed currency symbol, exponent, grouping, date) must be visible in num_fmt; `$1e3` getting only an exponent format is not reported");
    ctx.assume("forms the statement does not settle are DON'T CARE (value only): groups of 6, 9.. digits (`1,234567`, `1234,567`: accepted on purpose, pinned by the engine's test_numbers), spaces anywhere, `5.`, `.5`, `$-5`, `+$5`, `5-`, `(5)`, `%5`, `$5%`, dates with `.` separators, 4-digit years before 1900, month names in another letter case, `+` before a date, a date valid only in the other day/month order; times, fractions, short dates and non-ASCII digits carry no value claim at all");
    ctx.assume("strings starting with + or - that the engine treats as formulas are 'not stored as a number' (formula cells are not evaluated here)");
    ctx.assume("month-name dates are MUST only for the locale's exact short/long names (documented grammar above parse_date)");

    let mut exhaustive_complete = true;
    for id in &locales {
        let l = match loc(id) {
            Ok(l) => l,
            Err(e) => {
                ctx.note(format!("locale {id} not loadable: {e}"));
                exhaustive_complete = false;
                continue;
            }
        };
        let mut nt = 0u64;
        for len in 0..=max_len {
            if ctx.stopped() {
                break;
            }
            nt += enumerate_len(ctx, &l, len, len >= 6);
        }
        ctx.note(format!(
            "locale {id}: alphabet {:?} ({} symbols), exhaustive to length {max_len}, {nt} non-trivial strings",
            alphabet(&l).join(""),
            alphabet(&l).len()
        ));
    }
    if ctx.stopped() {
        exhaustive_complete = false;
    }
    // the claim "exhaustive" is about the bounded space only, which is a strict subset of the
    // property's quantifier ("randomly beyond"): not set as exhaustive for the property.
    let _ = exhaustive_complete;

    let n = ctx.tier.pick(1u64, 20u64);
    ctx.campaign("random-long", 150_000 * n, random_long, check, enc);
    ctx.campaign("structured-numerals", 400_000 * n, structured_numeral, check, enc);
    ctx.campaign("structured-dates", 150_000 * n, structured_date, check, enc);
    ctx.campaign("look-alikes", 4_000 * n.min(3), lookalike, check, enc);
}

pub fn replay(_ctx: &Ctx, _campaign: &str, case: &Value) -> Result<Outcome, String> {
    let c: Case = serde_json::from_value(case.clone()).map_err(|e| e.to_string())?;
    Ok(check(&c))
}
