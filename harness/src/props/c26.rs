//! C26 — Saving to and loading from the internal binary format is lossless.
//!
//! States reached by generated UserModel histories (full operation language, every locale/language)
//! are serialised with `to_bytes` and loaded with `from_bytes`: the decoded `Workbook` value must
//! equal the original (`PartialEq`), and after `evaluate` the observable snapshot (contents,
//! formula texts, typed values, styles, structure) must be the same. Error origin/message strings
//! are not compared.

use proptest::prelude::*;
use serde::{Deserialize, Serialize};
use serde_json::Value;

use crate::engine::ops::{self, Applied, Op, Profile};
use crate::engine::snapshot::{self, SnapOpts};
use crate::engine::{panics, Ctx, Outcome, Tier};

#[derive(Clone, Debug, Serialize, Deserialize)]
pub struct Case {
    pub locale: String,
    pub language: String,
    pub profile: Profile,
    pub ops: Vec<Op>,
}

fn strategy_en(len: usize) -> BoxedStrategy<Case> {
    strategy(len, Profile::Full)
        .prop_map(|mut c| {
            c.locale = "en".into();
            c.language = "en".into();
            // listed findings: CSE array formulas that read their own range have history-dependent
            // values, and cut/paste of part of a CSE array leaves cells unevaluated
            c.ops.retain(|o| !matches!(o, Op::ArrayFormula { .. }));
            // stays en/en: a locale switch in mid-history leads to the listed re-parse findings
            c.ops.retain(|o| !matches!(o, Op::SetLocale(_)));
            c
        })
        .boxed()
}

/// Plain inputs in the hot window plus CSE array formulas entered *below* it (rows 20..), so that
/// no array reads its own range (listed finding), with undo / redo; no cut, paste or structural
/// operation (listed findings on CSE arrays under those).
fn strategy_arrays(len: usize) -> BoxedStrategy<Case> {
    use crate::engine::inputs::{cell_input, history_formula_with, InputClass, HOT_COLS, HOT_ROWS};
    let input = (0..2u8, 1..=HOT_ROWS, 1..=HOT_COLS, cell_input(InputClass::Plain))
        .prop_map(|(s, row, col, text)| Op::Input { s, row, col, text });
    let array = (0..2u8, 20..26i32, 1..=HOT_COLS, 1..4i32, 1..4i32, history_formula_with(false))
        .prop_map(|(s, row, col, w, h, text)| Op::ArrayFormula { s, row, col, w, h, text });
    let ops = prop::collection::vec(
        prop_oneof![6 => input, 4 => array, 1 => Just(Op::Undo), 1 => Just(Op::Redo), 1 => Just(Op::NewSheet)],
        2..=len,
    );
    ops.prop_map(|mut ops| {
        ops.insert(0, Op::NewSheet);
        Case { locale: "en".into(), language: "en".into(), profile: Profile::Edit, ops }
    })
    .boxed()
}

fn strategy(len: usize, profile: Profile) -> BoxedStrategy<Case> {
    let ops = prop::collection::vec(
        prop_oneof![
            12 => ops::recording_op(profile),
            1 => ops::context_op().prop_filter("language fixed per case; evaluation not paused", |o| {
                !matches!(o, Op::SetLanguage(_) | Op::Pause | Op::Resume)
            }),
            1 => Just(Op::Undo),
            1 => Just(Op::Redo),
        ],
        1..=len,
    );
    if profile == Profile::Full {
        (super::c01::config_strategy(), ops)
            .prop_map(move |((locale, language), ops)| Case { locale, language, profile, ops })
            .boxed()
    } else {
        ops.prop_map(move |ops| Case { locale: "en".into(), language: "en".into(), profile, ops }).boxed()
    }
}

/// Classifies which stored formula shapes changed meaning on reload (shared root causes with C09).
fn formula_shape(content: &str) -> String {
    let mut s = String::new();
    for c in content.chars() {
        if "()&%=<>+-*/^{};,#!:".contains(c) {
            s.push(c);
        }
    }
    s.chars().take(24).collect()
}

pub fn check(case: &Case) -> Outcome {
    let mut o = Outcome::pass();
    let mut um = ops::new_user_model(&case.locale, &case.language);
    for op in &case.ops {
        if ops::guard(&um, op, case.profile).is_some() {
            o.excluded += 1;
            continue;
        }
        match ops::apply(&mut um, op) {
            Applied::Panic(p) => return o.label(format!("op-panicked:{}:{}", op.kind(), p.class())),
            Applied::Ok if !matches!(op, Op::Undo | Op::Redo) => {
                o = o.label(format!("ok:{}", op.kind()));
            }
            _ => {}
        }
    }
    let model = um.get_model();
    let before = snapshot::snapshot(model, SnapOpts::default());
    let bytes = model.to_bytes();
    let lang = ops::leak(&case.language);
    let loaded = match panics::catch(|| ironcalc_base::Model::from_bytes(&bytes, lang)) {
        Err(p) => return o.fail(format!("C26:{}", p.class()), format!("from_bytes panicked: {}", p.describe())),
        Ok(Err(e)) => return o.fail("C26:from_bytes-returns-error", format!("from_bytes(to_bytes()) returned Err({e})")),
        Ok(Ok(m)) => m,
    };
    // error message / origin strings are diagnostics produced by the parser mode in use (A1 when
    // typed, R1C1 when loaded); they are not part of "an identical workbook"
    let strip = |wb: &ironcalc_base::types::Workbook| {
        use ironcalc_base::types::{Cell, FormulaValue};
        let mut wb = wb.clone();
        for ws in wb.worksheets.iter_mut() {
            for rd in ws.sheet_data.values_mut() {
                for cell in rd.values_mut() {
                    if let Cell::CellFormula { v, .. } | Cell::ArrayFormula { v, .. } = cell {
                        if let FormulaValue::Error { o, m, .. } = v {
                            o.clear();
                            m.clear();
                        }
                    }
                }
            }
        }
        wb
    };
    let (lw, mw) = (strip(&loaded.workbook), strip(&model.workbook));
    if lw != mw {
        // find the differing component for the signature
        let a = &lw;
        let b = &mw;
        let part = if a.worksheets != b.worksheets {
            "worksheets"
        } else if a.styles != b.styles {
            "styles"
        } else if a.defined_names != b.defined_names {
            "defined_names"
        } else if a.shared_strings != b.shared_strings {
            "shared_strings"
        } else {
            "other"
        };
        let mut detail = String::from("decode(encode(W)) != W");
        let mut field = String::new();
        for (x, y) in a.worksheets.iter().zip(b.worksheets.iter()) {
            if x.sheet_data != y.sheet_data {
                field = "sheet_data".into();
                for (r, rd) in &y.sheet_data {
                    for (c, cell) in rd {
                        let other = x.sheet_data.get(r).and_then(|m| m.get(c));
                        if other != Some(cell) {
                            detail = format!("cell ({r},{c}): original {cell:?} vs loaded {other:?}");
                        }
                    }
                }
            } else if x.shared_formulas != y.shared_formulas {
                field = "shared_formulas".into();
                detail = format!("shared_formulas: loaded {:?} vs original {:?}", x.shared_formulas, y.shared_formulas);
            } else if x.conditional_formatting != y.conditional_formatting {
                field = "conditional_formatting".into();
                detail = format!("conditional_formatting: loaded {:?} vs original {:?}", x.conditional_formatting, y.conditional_formatting);
            } else if x.cols != y.cols || x.rows != y.rows {
                field = "rows-cols".into();
            } else if x != y {
                field = "other".into();
            }
            if !field.is_empty() {
                break;
            }
        }
        return o.fail(format!("C26:decoded-workbook-differs:{part}:{field}"), detail);
    }
    let mut loaded = loaded;
    if let Err(p) = panics::catch(|| loaded.evaluate()) {
        return o.fail(format!("C26:evaluate:{}", p.class()), p.describe());
    }
    let after = snapshot::snapshot(&loaded, SnapOpts::default());
    if before != after {
        let d = snapshot::diff(&before, &after);
        // attribute to the formula whose displayed text or value changed
        let mut shape = String::new();
        for e in &d {
            if let Some(pos) = e.key.find(").") {
                let cell = &e.key[..pos + 1];
                if let Some(c) = before.get(&format!("{cell}.content")) {
                    if c.starts_with('=') {
                        shape = formula_shape(c);
                        break;
                    }
                }
            }
        }
        return o.fail(
            format!("C26:reload:{}:shape={}", snapshot::aspects(&d).join(","), shape),
            format!("state after from_bytes(to_bytes()) + evaluate differs:\n{}", snapshot::describe(&d, "original", "reloaded", 12)),
        );
    }
    let has_formula = before.iter().any(|(k, v)| k.ends_with(".content") && v.starts_with('='));
    let has_extra = before.keys().any(|k| k.starts_with("defined_name") || k.contains(".cf[") || k.contains(".link(") || k.ends_with(".array"));
    if has_formula && has_extra {
        o = o.nontrivial(serde_json::to_string(case).unwrap_or_default());
    }
    o
}

pub fn run(ctx: &Ctx) {
    ctx.set_rule(
        "States reached by generated UserModel histories (1..14 ops quick, 1..40 thorough; operations, \
         undo, redo; generated locale/language); oracle: decode(encode(W)) == W as a Workbook value \
         and snapshot(evaluate(from_bytes(to_bytes(M)))) == snapshot(M). Non-trivial: the state has \
         >=1 formula and >=1 of {defined name, conditional format, link, array/spill}; distinct by case.",
    );
    ctx.assume("error origin / message strings are not compared after re-evaluation (only error kinds)");
    let restricted = ctx.avoid("restricted-profiles");
    let (cases, len) = match ctx.tier {
        Tier::Quick => (200000, 14),
        Tier::Thorough => (1000000, 40),
    };
    let enc = |c: &Case| serde_json::to_value(c).unwrap_or(Value::Null);
    if restricted {
        ctx.campaign("states-edit", cases / 2, || strategy(len, Profile::Edit), check, enc);
        ctx.campaign("states-structural", cases / 2, || strategy(len, Profile::Structural), check, enc);
        // the full operation language in en/en (the listed re-parse findings need another language)
        ctx.campaign("states-full-en", cases / 2, || strategy_en(len), check, enc);
        ctx.campaign("states-arrays", cases / 4, || strategy_arrays(len), check, enc);
    } else {
        ctx.campaign("states", cases, || strategy(len, Profile::Full), check, enc);
    }
}

pub fn replay(_ctx: &Ctx, _campaign: &str, case: &Value) -> Result<Outcome, String> {
    let c: Case = serde_json::from_value(case.clone()).map_err(|e| e.to_string())?;
    Ok(check(&c))
}
