//! C25 — xlsx import never crashes.
//!
//! Structure-aware mutation of xlsx packages: a seed package (small committed files under
//! `replays/C25/seeds/` + packages written by the engine's own exporter from generated models) is
//! unpacked to (part name -> bytes), mutated at package / XML-element / attribute / text / byte /
//! zip level (`c25_mutate.rs`), re-zipped and imported:
//! `load_from_xlsx_bytes` followed by `Model::from_workbook` must return Ok or Err — no panic.
//! Each import runs on its own thread under a watchdog; a watchdog hit is inconclusive, never a
//! violation.

use std::io::Cursor;
use std::path::{Path, PathBuf};
use std::sync::atomic::{AtomicU64, Ordering};
use std::sync::{mpsc, Arc};
use std::time::Duration;

use ironcalc::error::XlsxError;
use ironcalc::export::save_xlsx_to_writer;
use ironcalc::import::load_from_xlsx_bytes;
use ironcalc_base::Model;
use proptest::prelude::*;
use serde::{Deserialize, Serialize};
use serde_json::Value;

use super::c25_mutate::{self as mutate, concretize, weighted_parts, Mut, PartInfo, Parts, Raw};
use super::crashsig;
use crate::engine::panics::{self, Panic};
use crate::engine::{Ctx, Outcome, Tier};

const WATCHDOG: Duration = Duration::from_secs(60);

#[derive(Clone, Debug, Serialize, Deserialize)]
pub struct Case {
    /// name of a seed package (a file under replays/C25/seeds, or `export:<n>`), or
    /// `file:<path relative to the verif root>` for raw bytes (then `muts` is empty)
    pub seed: String,
    #[serde(default)]
    pub muts: Vec<Mut>,
}

pub struct Seed {
    pub name: String,
    pub parts: Parts,
    pub cat: Arc<Vec<PartInfo>>,
}

pub struct Seeds {
    pub root: PathBuf,
    pub list: Vec<Seed>,
}

impl Seeds {
    fn get(&self, name: &str) -> Option<&Seed> {
        self.list.iter().find(|s| s.name == name)
    }
}

/// Packages written by the engine's exporter from small generated models.
fn export_seed(n: usize) -> Option<Vec<u8>> {
    let r = panics::catch(|| {
        let mut m = Model::new_empty("exported", "en", "UTC", "en").ok()?;
        let inputs: &[(i32, i32, &str)] = match n {
            0 => &[
                (1, 1, "1"), (1, 2, "2.5"), (1, 3, "text"), (2, 1, "=A1+B1"), (2, 2, "=SUM(A1:B1)"), (2, 3, "TRUE"),
                (3, 1, "=1/0"), (3, 2, "10%"), (3, 3, "$5.50"), (4, 1, "2024-03-01"), (4, 2, "'quoted"), (4, 3, "=A1&C1"),
            ],
            _ => &[
                (1, 1, "=SEQUENCE(2,2)"), (5, 1, "={1,2;3,4}"), (8, 1, "=nm1*2"), (9, 1, "=Sheet2!A1"), (10, 2, "é😀 <&>\""),
                (11, 1, "=IF(A1>0,\"y\",\"n\")"), (12, 1, "1e300"), (13, 1, "=UNKNOWNFN(1)"), (14, 1, "=1+"),
            ],
        };
        if n != 0 {
            m.new_sheet();
            let _ = m.set_user_input(1, 1, 1, "7".to_string());
            let _ = m.new_defined_name("nm1", None, "Sheet1!$A$1");
            let _ = m.set_frozen_rows(0, 2);
            let _ = m.set_column_width(0, 2, 150.0);
            let _ = m.set_row_height(0, 3, 40.0);
        }
        for (r, c, v) in inputs {
            let _ = m.set_user_input(0, *r, *c, v.to_string());
        }
        m.evaluate();
        let w = save_xlsx_to_writer(&m, Cursor::new(Vec::new())).ok()?;
        Some(w.into_inner())
    });
    r.ok().flatten()
}

pub fn load_seeds(root: &Path) -> Seeds {
    let mut list = vec![];
    let dir = root.join("replays").join("C25").join("seeds");
    let mut files: Vec<PathBuf> = std::fs::read_dir(&dir)
        .map(|rd| rd.filter_map(|e| e.ok().map(|e| e.path())).collect())
        .unwrap_or_default();
    files.retain(|p| p.extension().map(|e| e == "xlsx").unwrap_or(false));
    files.sort();
    for f in files {
        let Ok(bytes) = std::fs::read(&f) else { continue };
        let Some(parts) = mutate::unpack(&bytes) else { continue };
        let name = f.file_name().map(|n| n.to_string_lossy().to_string()).unwrap_or_default();
        let cat = Arc::new(mutate::catalogue(&parts));
        list.push(Seed { name, parts, cat });
    }
    for n in 0..2 {
        if let Some(bytes) = export_seed(n) {
            if let Some(parts) = mutate::unpack(&bytes) {
                let cat = Arc::new(mutate::catalogue(&parts));
                list.push(Seed { name: format!("export:{n}"), parts, cat });
            }
        }
    }
    Seeds { root: root.to_path_buf(), list }
}

#[derive(Debug)]
pub enum Imported {
    Ok,
    Err(String, String),
    /// the panic and its root-cause signature (computed on the importing thread)
    Panic(Panic, String),
    Timeout,
}

fn error_kind(e: &XlsxError) -> &'static str {
    match e {
        XlsxError::IO(_) => "IO",
        XlsxError::Zip(_) => "Zip",
        XlsxError::Xml(_) => "Xml",
        XlsxError::Workbook(_) => "Workbook",
        XlsxError::Evaluation(_) => "Evaluation",
        XlsxError::Comparison(_) => "Comparison",
        XlsxError::NotImplemented(_) => "NotImplemented",
    }
}

static TIMEOUTS: AtomicU64 = AtomicU64::new(0);

fn import_here(bytes: &[u8]) -> Imported {
    let r = panics::catch(|| {
        let wb = load_from_xlsx_bytes(bytes, "fuzzed", "en", "UTC")?;
        let model = Model::from_workbook(wb, "en").map_err(XlsxError::Workbook)?;
        Ok::<usize, XlsxError>(model.workbook.worksheets.len())
    });
    match r {
        Ok(Ok(_)) => Imported::Ok,
        Ok(Err(e)) => Imported::Err(error_kind(&e).to_string(), e.to_string()),
        Err(p) => {
            let sig = crashsig::signature_here("C25", &p.file, p.line, &p.message);
            Imported::Panic(p, sig)
        }
    }
}

/// One long-lived importing thread per calling thread (spawning a thread per case is slow);
/// abandoned and replaced when an import does not come back within the watchdog time.
struct Worker {
    jobs: mpsc::Sender<Vec<u8>>,
    results: mpsc::Receiver<Imported>,
}

fn spawn_worker() -> Option<Worker> {
    let (jobs, job_rx) = mpsc::channel::<Vec<u8>>();
    let (res_tx, results) = mpsc::channel();
    std::thread::Builder::new()
        .stack_size(64 << 20)
        .spawn(move || {
            for bytes in job_rx {
                if res_tx.send(import_here(&bytes)).is_err() {
                    break;
                }
            }
        })
        .ok()?;
    Some(Worker { jobs, results })
}

thread_local! {
    static WORKER: std::cell::RefCell<Option<Worker>> = const { std::cell::RefCell::new(None) };
}

pub fn import(bytes: Vec<u8>) -> Imported {
    WORKER.with(|w| {
        let mut w = w.borrow_mut();
        if w.is_none() {
            *w = spawn_worker();
        }
        let Some(worker) = w.as_ref() else { return Imported::Timeout };
        if worker.jobs.send(bytes).is_err() {
            *w = None;
            return Imported::Timeout;
        }
        match worker.results.recv_timeout(WATCHDOG) {
            Ok(r) => r,
            Err(_) => {
                // the import is still running (or its thread died): leave it behind
                *w = None;
                Imported::Timeout
            }
        }
    })
}

pub fn bytes_of(seeds: &Seeds, case: &Case) -> Result<(Vec<u8>, Vec<bool>), String> {
    if let Some(rel) = case.seed.strip_prefix("file:") {
        let p = seeds.root.join(rel);
        let b = std::fs::read(&p).map_err(|e| format!("{}: {e}", p.display()))?;
        return Ok((b, vec![]));
    }
    let seed = seeds.get(&case.seed).ok_or_else(|| format!("unknown seed package {:?}", case.seed))?;
    Ok(mutate::build(&seed.parts, &case.muts))
}

pub fn check(seeds: &Seeds, case: &Case) -> Outcome {
    let mut o = Outcome::pass();
    let (bytes, applied) = match bytes_of(seeds, case) {
        Ok(x) => x,
        Err(e) => return o.label(format!("bad-case:{e}")),
    };
    for (m, a) in case.muts.iter().zip(applied.iter()) {
        o = o.label(format!("mut:{}{}", m.kind(), if *a { "" } else { ":no-op" }));
    }
    let any_applied = applied.iter().any(|a| *a) || case.muts.is_empty();
    let size = bytes.len();
    match import(bytes) {
        Imported::Ok => {
            o = o.label("import:ok");
            if any_applied {
                o = o.nontrivial(serde_json::to_string(case).unwrap_or_default());
            }
            o
        }
        Imported::Err(kind, _msg) => {
            o = o.label(format!("import:err:{kind}"));
            if any_applied && kind != "Zip" && kind != "IO" {
                o = o.nontrivial(serde_json::to_string(case).unwrap_or_default());
            }
            o
        }
        Imported::Timeout => {
            TIMEOUTS.fetch_add(1, Ordering::SeqCst);
            o.excluded += 1;
            let dir = seeds.root.join("out").join("watchdog");
            let _ = std::fs::create_dir_all(&dir);
            let text = serde_json::to_string_pretty(&serde_json::json!({"property": "C25", "campaign": "mutants", "case": case})).unwrap_or_default();
            let _ = std::fs::write(dir.join(format!("C25-{:016x}.json", crate::engine::hash64(&text))), text);
            o.label("import:watchdog")
        }
        Imported::Panic(p, sig) => {
            let targets: Vec<String> = case.muts.iter().map(|m| format!("{}({})", m.kind(), m.target())).collect();
            o.label("import:panic").fail(
                sig,
                format!(
                    "importing the package ({size} bytes; seed {} with {}) panicked: {}",
                    case.seed,
                    if targets.is_empty() { "no mutation".to_string() } else { targets.join(" + ") },
                    p.describe()
                ),
            )
        }
    }
}

// ------------------------------------------------------------------------------------------
// generator

fn raw_strategy() -> impl Strategy<Value = Raw> {
    (
        (any::<u8>(), any::<u32>(), any::<u32>(), any::<u32>(), any::<u32>(), any::<u8>()),
        (any::<u32>(), any::<u32>(), any::<u32>(), any::<u32>()),
        (0..=1_000_000u32, 0..8u8, prop::collection::vec(any::<u8>(), 0..6), prop_oneof![Just(40u16), Just(300), Just(5000)]),
    )
        .prop_map(|((kind, part, other_part, tag, nth, nth_mode), (tag2, nth2, attr, value), (ppm, bit, bytes, long))| Raw {
            kind, part, other_part, tag, nth, nth_mode, tag2, nth2, attr, value, ppm, bit, bytes, long,
        })
}

pub fn case_strategy(seeds: Arc<Seeds>) -> BoxedStrategy<Case> {
    let n = seeds.list.len();
    (0..n, prop::collection::vec(raw_strategy(), 1..=3))
        .prop_map(move |(si, raws)| {
            let seed = &seeds.list[si];
            let weighted = weighted_parts(&seed.cat);
            let muts = raws.iter().map(|r| concretize(&seed.cat, &weighted, r)).collect();
            Case { seed: seed.name.clone(), muts }
        })
        .boxed()
}

// The importer reports oddities with println!/eprintln!/dbg! (tens of thousands of lines in a
// campaign). While the campaign runs, file descriptors 1 and 2 point to a log file; violations
// found meanwhile are printed again once the descriptors are restored.
extern "C" {
    fn dup(fd: i32) -> i32;
    fn dup2(from: i32, to: i32) -> i32;
    fn close(fd: i32) -> i32;
}

struct Quiet {
    saved: (i32, i32),
    violations_before: usize,
}

fn quiet_begin(ctx: &Ctx) -> Option<Quiet> {
    use std::io::Write;
    use std::os::fd::AsRawFd;
    if std::env::var("VERIF_ENGINE_OUTPUT").is_ok() {
        return None;
    }
    let dir = ctx.root.join("out");
    std::fs::create_dir_all(&dir).ok()?;
    let log = std::fs::File::create(dir.join("C25-engine-output.log")).ok()?;
    let _ = std::io::stdout().flush();
    let _ = std::io::stderr().flush();
    // SAFETY: plain descriptor duplication; the descriptors are restored by quiet_end
    unsafe {
        let saved = (dup(1), dup(2));
        if saved.0 < 0 || saved.1 < 0 {
            return None;
        }
        dup2(log.as_raw_fd(), 1);
        dup2(log.as_raw_fd(), 2);
        let violations_before = ctx.stats.lock().map(|s| s.violations.len()).unwrap_or(0);
        Some(Quiet { saved, violations_before })
    }
}

fn quiet_end(ctx: &Ctx, q: Option<Quiet>) {
    use std::io::Write;
    let Some(q) = q else { return };
    let _ = std::io::stdout().flush();
    let _ = std::io::stderr().flush();
    // SAFETY: see quiet_begin
    unsafe {
        dup2(q.saved.0, 1);
        dup2(q.saved.1, 2);
        close(q.saved.0);
        close(q.saved.1);
    }
    let st = ctx.stats.lock().unwrap();
    for (sig, detail, path) in st.violations.iter().skip(q.violations_before) {
        println!("VIOLATION property={} replay={}", ctx.id, path.display());
        println!("  campaign=mutants signature={sig}");
        let d: String = detail.chars().take(1500).collect();
        println!("  detail: {}", d.replace('\n', "\n          "));
    }
}

pub fn run(ctx: &Ctx) {
    crashsig::install_backtrace_hook();
    ctx.set_rule(
        "A seed package (committed small .xlsx files + two packages written by the engine's exporter) is unpacked, \
         1..3 mutations are applied (drop/empty/rename/duplicate/swap/truncate a part; drop/duplicate/move/unwrap/\
         empty/rename an XML element; drop/set an attribute or text content with boundary numbers, empty, huge, \
         non-numeric and malformed-reference values; bit flips, broken UTF-8; zip truncation / bit flips) and the \
         package is re-zipped and imported (load_from_xlsx_bytes + Model::from_workbook). Non-trivial: at least one \
         mutation applied and the import got past the zip layer (Ok, or an error other than Zip/IO); distinct by \
         seed + mutation list.",
    );
    ctx.assume("termination is only watched (60 s per import on its own thread); a watchdog hit is reported as inconclusive, not as a violation");
    ctx.assume("whole-sheet ranges (A1:XFD1048576) are not among the generated attribute values: conditional-formatting sqref and array-formula ref of that size make the importer walk 1.7e10 cells (observed as watchdog hits, i.e. inconclusive by the rules of this check)");
    ctx.assume("the imported model is not evaluated (the statement is about import); locale en, timezone UTC, language en");
    let seeds = Arc::new(load_seeds(&ctx.root));
    if seeds.list.is_empty() {
        println!("INCONCLUSIVE: no seed packages under {}/replays/C25/seeds", ctx.root.display());
        std::process::exit(2);
    }
    // generator health: every seed imports cleanly un-mutated
    let mut healthy = vec![];
    for s in &seeds.list {
        let r = check(&seeds, &Case { seed: s.name.clone(), muts: vec![] });
        let ok = r.labels.iter().any(|l| l == "import:ok");
        ctx.record("seeds-unmutated", &r, &|| serde_json::json!({"seed": s.name, "muts": []}));
        if ok {
            healthy.push(s.name.clone());
        } else {
            ctx.note(format!("seed {} does not import cleanly un-mutated: {:?} {:?}", s.name, r.labels, r.failure));
        }
    }
    ctx.note(format!("{} seed packages ({} import cleanly un-mutated)", seeds.list.len(), healthy.len()));
    let cases = match ctx.tier {
        Tier::Quick => 40_000,
        Tier::Thorough => 1_000_000,
    };
    let enc = |c: &Case| serde_json::to_value(c).unwrap_or(Value::Null);
    let s2 = seeds.clone();
    let s3 = seeds.clone();
    let quiet = quiet_begin(ctx);
    ctx.campaign("mutants", cases, move || case_strategy(s2.clone()), move |c| check(&s3, c), enc);
    quiet_end(ctx, quiet);
    ctx.note("engine chatter (println!/eprintln!/dbg! in the importer) during the campaign is in out/C25-engine-output.log; set VERIF_ENGINE_OUTPUT=1 to see it inline");
    let t = TIMEOUTS.load(Ordering::SeqCst);
    if t > 0 {
        ctx.note(format!("{t} imports hit the {} s watchdog (inconclusive)", WATCHDOG.as_secs()));
        let code = ctx.finish();
        if code == 0 {
            println!("INCONCLUSIVE: {t} imports hit the {} s watchdog", WATCHDOG.as_secs());
            std::process::exit(2);
        }
        std::process::exit(code);
    }
}

pub fn replay(ctx: &Ctx, _campaign: &str, case: &Value) -> Result<Outcome, String> {
    crashsig::install_backtrace_hook();
    let c: Case = serde_json::from_value(case.clone()).map_err(|e| e.to_string())?;
    static SEEDS: std::sync::OnceLock<Seeds> = std::sync::OnceLock::new();
    let seeds = SEEDS.get_or_init(|| load_seeds(&ctx.root));
    bytes_of(seeds, &c)?;
    Ok(check(seeds, &c))
}
