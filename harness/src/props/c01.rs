//! C01 — Undo restores the exact state before the undone operation.
//!
//! Histories of recording operations (plus selection / evaluation-cadence context ops) are run on
//! a `UserModel`; the observable snapshot is recorded after every operation that returned Ok and
//! grew the undo stack (hook H2). Then the whole history is undone step by step and every
//! intermediate snapshot must equal the recorded one.

use proptest::prelude::*;
use serde::{Deserialize, Serialize};
use serde_json::Value;

use crate::engine::ops::{self, Applied, Op, Profile};
use crate::engine::snapshot::{self, SnapOpts, Snapshot};
use crate::engine::{Ctx, Outcome, Tier};

#[derive(Clone, Debug, Serialize, Deserialize)]
pub struct Case {
    pub locale: String,
    pub language: String,
    pub profile: Profile,
    pub ops: Vec<Op>,
}

pub fn config_strategy() -> impl Strategy<Value = (String, String)> {
    (
        prop_oneof![4 => Just("en"), 1 => Just("en-GB"), 1 => Just("es"), 1 => Just("fr"), 1 => Just("de"), 1 => Just("it")],
        prop_oneof![5 => Just("en"), 1 => Just("es"), 1 => Just("fr"), 1 => Just("de"), 1 => Just("it")],
    )
        .prop_map(|(a, b)| (a.to_string(), b.to_string()))
}

pub fn history_strategy(max_len: usize, profile: Profile) -> impl Strategy<Value = Vec<Op>> {
    prop::collection::vec(
        prop_oneof![
            9 => ops::recording_op(profile),
            1 => ops::context_op().prop_filter("language fixed per case", |o| !matches!(o, Op::SetLanguage(_))),
        ],
        1..=max_len,
    )
}

fn snap(um: &mut ironcalc_base::UserModel<'static>, paused: bool) -> Snapshot {
    if paused {
        um.evaluate();
    }
    snapshot::snapshot(um.get_model(), SnapOpts::default())
}

pub fn check(case: &Case) -> Outcome {
    let mut o = Outcome::pass();
    let mut um = ops::new_user_model(&case.locale, &case.language);
    let mut paused = false;
    let mut snaps: Vec<Snapshot> = vec![snap(&mut um, paused)];
    let mut recorded: Vec<&Op> = vec![];
    let mut touched_by: Vec<Vec<(u32, i32, i32, i32, i32)>> = vec![];
    let mut changed_any = false;
    for op in &case.ops {
        if let Some(reason) = ops::guard(&um, op, case.profile) {
            o.excluded += 1;
            o = o.label(format!("guard-skipped:{reason}"));
            continue;
        }
        let before = um.verif_history_len();
        let op_touches = touched(&um, op);
        let res = ops::apply(&mut um, op);
        match op {
            Op::Pause => paused = true,
            Op::Resume => paused = false,
            _ => {}
        }
        match &res {
            Applied::Panic(p) => {
                o = o.label(format!("op-panicked:{}:{}", op.kind(), p.class()));
                return o;
            }
            Applied::Err(_) => {
                let after = um.verif_history_len();
                let s = snap(&mut um, paused);
                if after != before || &s != snaps.last().unwrap() {
                    // a failed op that left traces is C04's business; the premise "history of
                    // successful operations" no longer holds
                    return o.label(format!("tainted-by-failed-op:{}", op.kind()));
                }
            }
            _ => {
                let after = um.verif_history_len();
                if after.0 == before.0 + 1 {
                    let s = snap(&mut um, paused);
                    if &s != snaps.last().unwrap() {
                        changed_any = true;
                    }
                    snaps.push(s);
                    recorded.push(op);
                    touched_by.push(op_touches);
                    o = o.label(format!("recorded:{}", op.kind()));
                } else if after.0 == before.0 {
                    // Ok without history entry: must be a no-op on the observable workbook
                    let s = snap(&mut um, paused);
                    if &s != snaps.last().unwrap() {
                        o = o.label(format!("unrecorded-change:{}", op.kind()));
                        // cannot attribute later undo results; end the case here
                        break;
                    }
                } else {
                    o = o.label(format!("history-jump:{}", op.kind()));
                    break;
                }
            }
        }
    }
    let n = recorded.len();
    if n == 0 {
        return o;
    }
    // the labels above can end the forward phase early; the recorded prefix is still a valid
    // history *only if* the model is in the state of the last snapshot
    let now = snap(&mut um, paused);
    if &now != snaps.last().unwrap() {
        return o.label("walk-skipped");
    }
    for k in 1..=n {
        let undone = recorded[n - k];
        let res = ops::apply(&mut um, &Op::Undo);
        match res {
            Applied::Panic(p) => {
                return o.fail(
                    format!("C01:undo({}):{}", undone.kind(), p.class()),
                    format!("undo of {:?} panicked: {}", undone, p.describe()),
                );
            }
            Applied::Err(e) => {
                return o.fail(
                    format!("C01:undo({}):returns-error", undone.kind()),
                    format!("undo of {:?} returned Err({e})", undone),
                );
            }
            _ => {}
        }
        let (u, r_) = um.verif_history_len();
        if (u, r_) != (n - k, k) {
            return o.fail(
                format!("C01:undo({}):stack-lengths", undone.kind()),
                format!("after {k} undos of {n}: stacks ({u},{r_}), expected ({},{k})", n - k),
            );
        }
        let s = snap(&mut um, paused);
        let expect = &snaps[n - k];
        if &s != expect {
            let d = snapshot::diff(expect, &s);
            // cells written by the undone operation or by one undone before it in this walk (a
            // residual empty cell shows only when the band style it inherited is undone later)
            let acc: Vec<(u32, i32, i32, i32, i32)> = touched_by[n - k..].iter().flatten().cloned().collect();
            if residual_styled_empty_cells(&d, expect, &s, &acc) {
                return o.fail(
                    "C01:undo:cell-keeps-style-implied-by-undone-edit",
                    format!(
                        "undoing {:?} leaves an empty cell behind that keeps a style it did not have before:\n{}",
                        undone,
                        snapshot::describe(&d, "before-op", "after-undo", 12)
                    ),
                );
            }
            let aspects = snapshot::aspects(&d).join(",");
            return o.fail(
                format!("C01:undo({}):{}", undone.kind(), aspects),
                format!(
                    "undoing {:?} (recorded op #{} of {n}) does not restore the state before it:\n{}",
                    undone,
                    n - k + 1,
                    snapshot::describe(&d, "before-op", "after-undo", 12)
                ),
            );
        }
    }
    if changed_any {
        let key = serde_json::to_string(&case).unwrap_or_default();
        o = o.nontrivial(key);
    }
    o
}

/// Cells an operation writes content into, resolved against the model state *before* the
/// operation: (sheet, r1, c1, r2, c2). Used to keep the residual-style classifier narrow.
fn touched(um: &ironcalc_base::UserModel, op: &Op) -> Vec<(u32, i32, i32, i32, i32)> {
    let sh = |s: u8| ops::res_sheet(um, s);
    match op {
        Op::Input { s, row, col, .. } | Op::LinkSet { s, row, col, .. } => vec![(sh(*s), *row, *col, *row, *col)],
        // clearing a cell that does not exist yet creates an empty cell with the inherited style
        Op::ClearContents(a) | Op::ClearAll(a) | Op::ClearFormatting(a) => {
            vec![(sh(a.s), a.row, a.col, a.row + a.h - 1, a.col + a.w - 1)]
        }
        // style operations on cells that do not exist yet create them; a border also adjusts
        // the neighbouring cells
        Op::UpdateStyle { a, .. } if (a.w as i64) * (a.h as i64) <= 64 => {
            vec![(sh(a.s), a.row, a.col, a.row + a.h - 1, a.col + a.w - 1)]
        }
        Op::Border { a, .. } if (a.w as i64) * (a.h as i64) <= 64 => {
            vec![(sh(a.s), a.row - 1, a.col - 1, a.row + a.h, a.col + a.w)]
        }
        Op::PasteStyles { .. } | Op::NamedStyleApply { .. } => {
            let v = um.get_selected_view();
            let [r1, c1, r2, c2] = v.range;
            vec![(v.sheet, r1.min(r2), c1.min(c2), r1.max(r2) + 2, c1.max(c2) + 2)]
        }
        Op::ArrayFormula { s, row, col, w, h, .. } => vec![(sh(*s), *row, *col, row + h - 1, col + w - 1)],
        Op::PasteCsv { a, csv } => {
            let rows = csv.lines().count().max(1) as i32;
            let cols = csv.lines().map(|l| l.split('\t').count()).max().unwrap_or(1) as i32;
            vec![(sh(a.s), a.row, a.col, a.row + rows - 1, a.col + cols - 1)]
        }
        Op::CopyPaste { src, ts, trow, tcol, cut } => {
            let mut v = vec![(sh(*ts), *trow, *tcol, trow + src.h - 1, tcol + src.w - 1)];
            if *cut {
                v.push((sh(src.s), src.row, src.col, src.row + src.h - 1, src.col + src.w - 1));
            }
            v
        }
        Op::AutofillRows { a, to_row } => {
            vec![(sh(a.s), a.row.min(*to_row), a.col, (a.row + a.h - 1).max(*to_row), a.col + a.w - 1)]
        }
        Op::AutofillCols { a, to_col } => {
            vec![(sh(a.s), a.row, a.col.min(*to_col), a.row + a.h - 1, (a.col + a.w - 1).max(*to_col))]
        }
        _ => vec![],
    }
}

/// Root-cause classifier: every difference is a `style*` / `formatted` aspect of a cell that
/// had the default style before the undone edit (absent, or present without any `.style.` key):
/// the undo removed the content but kept the style the edit implied.
fn residual_styled_empty_cells(
    d: &[snapshot::DiffEntry],
    expect: &Snapshot,
    _got: &Snapshot,
    touched: &[(u32, i32, i32, i32, i32)],
) -> bool {
    if d.is_empty() {
        return false;
    }
    for e in d {
        let Some(pos) = e.key.find(").") else { return false };
        let cell = &e.key[..pos + 1];
        let aspect = &e.key[pos + 2..];
        if !cell.contains(".cell(") || !(aspect.starts_with("style.") || aspect == "formatted") {
            // (the bare aspect `style` is an explicit *default* style that overrides an inherited
            // row/column style: the cell does not "keep a style", it is a different failure)
            return false;
        }
        // only cells the undone operation itself wrote into: "sheet[i].cell(r,c)"
        let parsed = (|| {
            let i: u32 = cell.strip_prefix("sheet[")?.split(']').next()?.parse().ok()?;
            let rc = cell.split(".cell(").nth(1)?.trim_end_matches(')');
            let (r, c) = rc.split_once(',')?;
            Some((i, r.parse::<i32>().ok()?, c.parse::<i32>().ok()?))
        })();
        let Some((si, r, c)) = parsed else { return false };
        if !touched.iter().any(|t| t.0 == si && r >= t.1 && r <= t.3 && c >= t.2 && c <= t.4) {
            return false;
        }
        let prefix = format!("{cell}.style.");
        if expect.range(prefix.clone()..).next().map(|(k, _)| k.starts_with(&prefix)).unwrap_or(false) {
            return false;
        }
    }
    true
}

pub fn case_strategy(max_len: usize, profile: Profile) -> BoxedStrategy<Case> {
    if profile == Profile::Full {
        return (config_strategy(), history_strategy(max_len, profile))
            .prop_map(move |((locale, language), ops)| Case { locale, language, profile, ops })
            .boxed();
    }
    // restricted profiles run in en/en (see DESIGN.md: listed findings on re-parsing of formulas
    // typed with English names/separators under another language or locale)
    (any::<bool>(), history_strategy(max_len, profile))
        .prop_map(move |(rich, ops)| {
            let mut all = if rich { ops::rich_setup(profile) } else { vec![] };
            all.extend(ops);
            Case { locale: "en".into(), language: "en".into(), profile, ops: all }
        })
        .boxed()
}

/// Fills under band styles: values are typed first, then whole rows / columns get a style, then
/// only fill operations follow. The walk back undoes the fills before the band styles and the
/// band styles before the typed values, so the listed residual-style finding (a *typed* cell
/// whose band style is undone later) cannot arise, while a fill target that did not exist before
/// the fill must go back to inheriting its row / column style.
pub fn fill_bands_strategy() -> BoxedStrategy<Case> {
    use crate::engine::inputs::{cell_input, InputClass, HOT_COLS, HOT_ROWS};
    use crate::engine::ops::{style_edit, A, LAST_COLUMN, LAST_ROW};
    let input = (1..=HOT_ROWS, 1..=HOT_COLS, cell_input(InputClass::Plain))
        .prop_map(|(row, col, text)| Op::Input { s: 0, row, col, text });
    let band = (any::<bool>(), 1..=HOT_ROWS.min(HOT_COLS), 1..3i32, style_edit()).prop_map(|(rows, at, n, (path, value))| {
        let a = if rows {
            A { s: 0, row: at, col: 1, w: LAST_COLUMN, h: n }
        } else {
            A { s: 0, row: 1, col: at, w: n, h: LAST_ROW }
        };
        Op::UpdateStyle { a, path, value }
    });
    let small = || {
        (1..=HOT_ROWS, 1..=HOT_COLS, 1..3i32, 1..3i32).prop_map(|(row, col, w, h)| A { s: 0, row, col, w, h })
    };
    let fill = prop_oneof![
        (small(), -3..6i32).prop_map(|(a, d)| {
            let to_row = if d >= 0 { a.row + a.h - 1 + d } else { a.row + d };
            Op::AutofillRows { a, to_row }
        }),
        (small(), -3..6i32).prop_map(|(a, d)| {
            let to_col = if d >= 0 { a.col + a.w - 1 + d } else { a.col + d };
            Op::AutofillCols { a, to_col }
        }),
    ];
    (
        prop::collection::vec(input, 1..6),
        prop::collection::vec(band, 1..4),
        prop::collection::vec(fill, 1..5),
    )
        .prop_map(|(a, b, c)| {
            let mut ops = a;
            ops.extend(b);
            ops.extend(c);
            Case { locale: "en".into(), language: "en".into(), profile: Profile::EditBands, ops }
        })
        .boxed()
}

pub fn run(ctx: &Ctx) {
    ctx.set_rule(
        "Histories of 1..12 (quick) / 1..40 (thorough) generated UserModel operations from small \
         interacting domains (<=4 sheets, 10x8 hot window); snapshot after every recorded op; \
         then undo everything step by step, comparing each intermediate observable snapshot and \
         the undo/redo stack lengths. Non-trivial: at least one recorded op changed the snapshot \
         and the full walk back was checked; distinct by the op list. While findings are listed \
         in known_findings.json the campaigns run the Edit and Structural profiles (restrictions \
         and run-time guards counted under excluded_by_construction / guard-skipped labels).",
    );
    ctx.assume("view state (selection, scroll) is not part of the compared state (documented as not part of history)");
    ctx.assume("a forward operation that panics ends the case (label op-panicked); it is not counted as an undo failure");
    let restricted = ctx.avoid("restricted-profiles");
    let (cases, len) = match ctx.tier {
        Tier::Quick => (100000, 12),
        Tier::Thorough => (2000000, 40),
    };
    let enc = |c: &Case| serde_json::to_value(c).unwrap_or(Value::Null);
    if restricted {
        ctx.campaign("histories-edit", cases / 2, || case_strategy(len, Profile::Edit), check, enc);
        ctx.campaign("histories-structural", cases / 2, || case_strategy(len, Profile::Structural), check, enc);
        ctx.campaign("fills-under-band-styles", cases / 10, fill_bands_strategy, check, enc);

    } else {
        ctx.campaign("histories", cases, || case_strategy(len, Profile::Full), check, enc);
    }
}

pub fn replay(_ctx: &Ctx, _campaign: &str, case: &Value) -> Result<Outcome, String> {
    let c: Case = serde_json::from_value(case.clone()).map_err(|e| e.to_string())?;
    Ok(check(&c))
}
