//! C28 — The selection always points at an existing sheet and cell.

use proptest::prelude::*;
use serde::{Deserialize, Serialize};
use serde_json::Value;

use crate::engine::ops::{self, Applied, Op, Profile, LAST_COLUMN, LAST_ROW};
use crate::engine::{Ctx, Outcome, Tier};

#[derive(Clone, Debug, Serialize, Deserialize)]
pub struct Case {
    pub ops: Vec<Op>,
}

fn sheet_heavy_op() -> BoxedStrategy<Op> {
    prop_oneof![
        4 => Just(Op::NewSheet),
        4 => ops::sheet_sel().prop_map(Op::DeleteSheet),
        2 => ops::sheet_sel().prop_map(Op::DuplicateSheet),
        2 => ops::sheet_sel().prop_map(Op::HideSheet),
        1 => ops::sheet_sel().prop_map(Op::UnhideSheet),
        3 => (ops::sheet_sel(), ops::sheet_sel()).prop_map(|(a, b)| Op::MoveSheet(a, b)),
        4 => ops::sheet_sel().prop_map(Op::SelectSheet),
        2 => (ops::sheet_sel(), 1..6i32, 0..3i32, any::<bool>()).prop_map(|(s, c1, d, hidden)| Op::ColsHidden { s, c1, c2: c1 + d, hidden }),
        2 => (ops::sheet_sel(), 1..6i32, 0..3i32, any::<bool>()).prop_map(|(s, r1, d, hidden)| Op::RowsHidden { s, r1, r2: r1 + d, hidden }),
        1 => (ops::sheet_sel(), prop_oneof![Just(LAST_COLUMN - 2), Just(LAST_COLUMN)], any::<bool>())
            .prop_map(|(s, c, hidden)| Op::ColsHidden { s, c1: c - 1, c2: c, hidden }),
        1 => (ops::sheet_sel(), prop_oneof![Just(LAST_ROW - 2), Just(LAST_ROW)], any::<bool>())
            .prop_map(|(s, r, hidden)| Op::RowsHidden { s, r1: r - 1, r2: r, hidden }),
    ]
    .boxed()
}

fn strategy(len: usize) -> BoxedStrategy<Case> {
    prop::collection::vec(
        prop_oneof![
            6 => sheet_heavy_op(),
            6 => ops::nav_op(),
            3 => ops::context_op().prop_filter("no language switch", |o| !matches!(o, Op::SetLanguage(_))),
            4 => ops::recording_op(Profile::Full),
            3 => Just(Op::Undo),
            2 => Just(Op::Redo),
        ],
        1..=len,
    )
    .prop_map(|ops| Case { ops })
    .boxed()
}

pub fn check(case: &Case) -> Outcome {
    let mut o = Outcome::pass();
    let mut um = ops::new_user_model("en", "en");
    let mut nontrivial = false;
    for (i, op) in case.ops.iter().enumerate() {
        let selected_before = um.get_selected_sheet();
        let v0 = um.get_selected_view();
        let res = ops::apply(&mut um, op);
        if let Applied::Panic(p) = &res {
            if matches!(op, Op::Key(_) | Op::ExpandSelection(_) | Op::AreaSelecting { .. } | Op::NavigateEdge(_) | Op::SelectSheet(_) | Op::SelectCell { .. } | Op::SelectRange { .. }) {
                return o.fail(format!("C28:{}:{}", op.kind(), p.class()), format!("step {i} {op:?}: {}", p.describe()));
            }
            return o.label(format!("op-panicked:{}:{}", op.kind(), p.class()));
        }
        let count = um.get_model().workbook.worksheets.len() as u32;
        let sheet = um.get_selected_sheet();
        let how = if res.is_ok() { "" } else { "failed-" };
        if sheet >= count {
            return o.fail(
                format!("C28:selected-sheet-missing:after-{how}{}", op.kind()),
                format!("step {i} {op:?}: selected sheet index {sheet} but the workbook has {count} sheets"),
            );
        }
        let v = um.get_selected_view();
        if v.sheet != sheet {
            return o.fail(
                format!("C28:view-sheet-mismatch:after-{how}{}", op.kind()),
                format!("step {i} {op:?}: get_selected_view().sheet = {} but get_selected_sheet() = {sheet}", v.sheet),
            );
        }
        let [r1, c1, r2, c2] = v.range;
        let (rl, rh) = (r1.min(r2), r1.max(r2));
        let (cl, ch) = (c1.min(c2), c1.max(c2));
        let in_grid = |r: i32, c: i32| (1..=LAST_ROW).contains(&r) && (1..=LAST_COLUMN).contains(&c);
        if !in_grid(v.row, v.column) || !in_grid(r1, c1) || !in_grid(r2, c2) {
            return o.fail(
                format!("C28:selection-outside-grid:after-{how}{}", op.kind()),
                format!("step {i} {op:?}: cell ({},{}) range {:?}", v.row, v.column, v.range),
            );
        }
        if !(rl <= v.row && v.row <= rh && cl <= v.column && v.column <= ch) {
            return o.fail(
                format!("C28:selected-cell-outside-range:after-{how}{}", op.kind()),
                format!("step {i} {op:?}: cell ({},{}) range {:?}", v.row, v.column, v.range),
            );
        }
        if res.is_ok() {
            match op {
                Op::DeleteSheet(s) | Op::HideSheet(s) => {
                    if ops::res_sheet(&um, *s) != selected_before || count > 1 {
                        nontrivial = true;
                    }
                }
                Op::MoveSheet(..) => nontrivial = true,
                Op::Key(_) | Op::ExpandSelection(_) | Op::NavigateEdge(_) => {
                    if v0.row == 1 || v0.column == 1 || v0.row == LAST_ROW || v0.column == LAST_COLUMN {
                        nontrivial = true;
                    }
                }
                _ => {}
            }
        }
        o = o.label(format!("{}{}", how, op.kind()));
    }
    if nontrivial {
        o = o.nontrivial(serde_json::to_string(case).unwrap_or_default());
    }
    o
}

pub fn run(ctx: &Ctx) {
    ctx.set_rule(
        "Generated histories mixing sheet add/delete (any index relative to the selected one)/hide/\
         unhide/move/duplicate, hidden rows/columns (also at the grid edges), set_selected_*, arrow \
         keys, page up/down, expand selection, area selecting, navigate-to-edge, every recording \
         operation, undo and redo; after every step: selected sheet index < sheet count, view sheet \
         == selected sheet, selected cell inside the normalised selected range, all inside the grid. \
         Non-trivial: a sheet deletion/hide/move succeeded, or a navigation step was issued at a grid \
         edge; distinct by case.",
    );
    ctx.assume("navigation arguments are valid cells (callers pass cells of the grid)");
    let (cases, len) = match ctx.tier {
        Tier::Quick => (200000, 16),
        Tier::Thorough => (4000000, 40),
    };
    ctx.campaign("histories", cases, || strategy(len), check, |c| serde_json::to_value(c).unwrap_or(Value::Null));
}

pub fn replay(_ctx: &Ctx, _campaign: &str, case: &Value) -> Result<Outcome, String> {
    let c: Case = serde_json::from_value(case.clone()).map_err(|e| e.to_string())?;
    Ok(check(&c))
}
