//! C12 — Inserting rows or columns preserves every value.
//!
//! A generated workbook (values of every type, styles, links, formulas with relative / absolute /
//! mixed, cross-sheet, range, whole-row/column references, defined names, dynamic arrays, row and
//! column descriptors) is built twice; one copy receives `insert_rows` / `insert_columns` through
//! `Model` or `UserModel`. Oracle R-geom (`props/geom.rs`): for every old cell p, content kind,
//! content text (non-formulas), typed value, resolved style and link at π(p) equal the old ones;
//! the parsed tree of every formula equals the old tree with each reference leaf re-targeted at
//! π(target) (ranges receiving the band in their interior grow, a single-cell leaf pushed off
//! the grid is `#REF!`); formulas in scope of the value clause compute the same value; cells of
//! the new band are empty; defined names name π(their area).

use serde_json::Value;

use super::geom::{self, EditCase, GenCfg, Kind};
use crate::engine::{Ctx, Outcome, Tier};

pub fn check(case: &EditCase) -> Outcome {
    let run = geom::check_single_edit("C12", Kind::Insert, case);
    let mut o = run.outcome;
    let e = run.edit;
    o = o.label(format!("api:{}", if case.user_api { "UserModel" } else { "Model" }));
    o = o.label(format!("axis:{}", e.axis.name()));
    o = o.label(format!("sheets:{}", case.book.sheets.len().min(3)));
    if case.book.language != "en" || case.book.locale != "en" {
        o = o.label("config:non-default");
    }
    for sh in &case.book.sheets {
        for c in &sh.cells {
            o = o.label(format!("input:{}", geom::input_class(c)));
        }
    }
    let Some(st) = run.stats else { return o };
    let mut crosses = false;
    for f in &st.fates {
        o = o.label(format!("leaf:{}:{}", if f.is_range { "range" } else { "cell" }, f.relation));
        if f.on_edit_sheet && f.moved {
            crosses = true;
        }
        if f.resized {
            o = o.label("leaf:range-grew");
        }
    }
    if st.values_checked > 0 {
        o = o.label("value-clause-checked");
    }
    if st.values_skipped > 0 {
        o = o.label("value-clause-skipped-some");
    }
    if st.spill_blocked {
        o = o.label("spill-blocked");
    }
    // non-trivial: a formula references across the insertion point and a non-numeric value lies
    // at/after it
    if crosses && st.moved_nonnumeric > 0 && !o.failed() {
        let key = serde_json::to_string(case).unwrap_or_default();
        o = o.nontrivial(key);
    }
    o
}

pub fn run(ctx: &Ctx) {
    ctx.set_rule(
        "Generated workbooks (1-3 sheets, <=22 cells each in a 10x7 window plus occasional cells/references at the grid \
         edge; inputs of every shape, styles, links, defined names, row/column descriptors) and one insertion (rows or \
         columns, position 1..window+2 / far away, count 1-3, any sheet) through Model or UserModel. Non-trivial: at \
         least one formula leaf targets a cell the insertion moves and at least one moved cell is non-numeric; \
         distinct by the whole case.",
    );
    ctx.assume("value clause: asserted for formulas that are not on/behind a reference cycle, read no spill cell of a dynamic array (arrays re-spill from their anchor and readers can be evaluated before the spill: listed under C01/C31), have no leaf pushed off the grid, and either read no range that grew or are aggregates (SUM/COUNT/COUNTA/MAX/MIN/AVERAGE/PRODUCT/SUMIF); skipped for the whole case when a dynamic array is blocked (#SPILL!) before or after");
    ctx.assume("a range that loses a corner beyond the grid edge must stop being a valid reference; what exactly it becomes is not asserted");
    ctx.assume("whole-column ranges are invariant under row insertion, whole-row ranges under column insertion");
    ctx.assume("style of the cells of the new band is not asserted; row heights / column widths are C14's and C29's business");
    ctx.assume("spill cells of dynamic arrays are derived from their anchor and are not cells with content of their own");
    ctx.assume("numbers are compared bit-exactly (no decimal text round trip is part of the statement)");
    let avoid = geom::active_switches(&|s| ctx.avoid(s));
    let cases = match ctx.tier {
        Tier::Quick => 30000,
        Tier::Thorough => 600000,
    };
    let enc = |c: &EditCase| serde_json::to_value(c).unwrap_or(Value::Null);
    let cfg = GenCfg::default();
    let av = avoid.clone();
    ctx.campaign("insert", cases, move || geom::edit_case_strategy(cfg, 22, av.clone()), check, enc);
    // denser references at the grid edge: pushed-off leaves
    let cfg_edge = GenCfg { edge_refs: 25, edge_cells: 0, ..GenCfg::default() };
    let av = avoid.clone();
    ctx.campaign("insert-edge-references", cases / 6, move || geom::edit_case_strategy(cfg_edge, 10, av.clone()), check, enc);
}

pub fn replay(_ctx: &Ctx, _campaign: &str, case: &Value) -> Result<Outcome, String> {
    let c: EditCase = serde_json::from_value(case.clone()).map_err(|e| e.to_string())?;
    Ok(check(&c))
}
