//! C06 — Computed values match reference spreadsheet semantics.
//!
//! Programs over exactly the core language of the statement are generated as an own AST (`E`),
//! printed to formula text (fully parenthesised, or with the minimal parentheses Excel's
//! precedence table requires), typed into a workbook whose data cells A1:C4 hold every value
//! type (numbers, numeric-looking / boolean-looking / other text, booleans, errors, empty cells,
//! scalar formulas over earlier cells), evaluated by the real engine and compared with R-eval: an
//! independent evaluator over {number, text, boolean, error, empty, range, array} implementing
//! only documented spreadsheet rules. Whatever R-eval cannot state with certainty evaluates to
//! `Unspecified(reason)`: the formula is then not compared (counted under `unspecified:<reason>`).
//!
//! Tolerance: numbers agree when equal or |a-b| <= 1e-14*max(|a|,|b|) (15 significant digits);
//! text and booleans exactly; errors by kind.

use std::cell::{Cell as StdCell, RefCell};
use std::collections::BTreeSet;

use ironcalc_base::Model;
use proptest::prelude::*;
use serde::{Deserialize, Serialize};
use serde_json::{json, Value};

use crate::engine::snapshot::{cell_value, TV};
use crate::engine::{panics, Ctx, Outcome, Tier};

// ───────────────────────────── AST ─────────────────────────────

#[derive(Clone, Copy, Debug, PartialEq, Eq, Serialize, Deserialize)]
pub enum Op {
    Add,
    Sub,
    Mul,
    Div,
    Pow,
    Cat,
    Eq,
    Ne,
    Lt,
    Le,
    Gt,
    Ge,
}

impl Op {
    fn text(self) -> &'static str {
        match self {
            Op::Add => "+",
            Op::Sub => "-",
            Op::Mul => "*",
            Op::Div => "/",
            Op::Pow => "^",
            Op::Cat => "&",
            Op::Eq => "=",
            Op::Ne => "<>",
            Op::Lt => "<",
            Op::Le => "<=",
            Op::Gt => ">",
            Op::Ge => ">=",
        }
    }
    fn prec(self) -> u8 {
        match self {
            Op::Eq | Op::Ne | Op::Lt | Op::Le | Op::Gt | Op::Ge => 1,
            Op::Cat => 2,
            Op::Add | Op::Sub => 3,
            Op::Mul | Op::Div => 4,
            Op::Pow => 5,
        }
    }
    fn is_cmp(self) -> bool {
        self.prec() == 1
    }
    fn is_arith(self) -> bool {
        matches!(self, Op::Add | Op::Sub | Op::Mul | Op::Div | Op::Pow)
    }
}

#[derive(Clone, Copy, Debug, PartialEq, Eq, Serialize, Deserialize)]
pub enum F {
    If,
    And,
    Or,
    Not,
    Sum,
    Min,
    Max,
    Count,
    Counta,
    Average,
    Abs,
    Round,
    Len,
    Concat,
    Isnumber,
    Istext,
    Isblank,
    Iferror,
}

impl F {
    fn name(self) -> &'static str {
        match self {
            F::If => "IF",
            F::And => "AND",
            F::Or => "OR",
            F::Not => "NOT",
            F::Sum => "SUM",
            F::Min => "MIN",
            F::Max => "MAX",
            F::Count => "COUNT",
            F::Counta => "COUNTA",
            F::Average => "AVERAGE",
            F::Abs => "ABS",
            F::Round => "ROUND",
            F::Len => "LEN",
            F::Concat => "CONCAT",
            F::Isnumber => "ISNUMBER",
            F::Istext => "ISTEXT",
            F::Isblank => "ISBLANK",
            F::Iferror => "IFERROR",
        }
    }
}

/// Formula tree. Number literals are kept as their source text (non-negative decimal or
/// `dE+n`), so that replay files reproduce the exact literal.
#[derive(Clone, Debug, PartialEq, Serialize, Deserialize)]
pub enum E {
    Num(String),
    Str(String),
    Bool(bool),
    Err(String),
    /// (column 1..=3, row 1..=4)
    Ref(u8, u8),
    /// (column1, row1, column2, row2), column1<=column2, row1<=row2
    Range(u8, u8, u8, u8),
    Neg(Box<E>),
    Pct(Box<E>),
    Bin(Op, Box<E>, Box<E>),
    Call(F, Vec<E>),
}

pub const COLS: u8 = 3;
pub const ROWS: u8 = 4;

fn col_letter(c: u8) -> char {
    (b'A' + c - 1) as char
}

fn prec(e: &E) -> u8 {
    match e {
        E::Bin(op, _, _) => op.prec(),
        E::Pct(_) => 6,
        E::Neg(_) => 7,
        _ => 9,
    }
}

/// Print a tree. `minimal`: only the parentheses Excel's precedence table requires (all binary
/// operators left-associative; negation > percent > ^ > */ > +- > & > comparisons); otherwise
/// every compound operand is parenthesised.
pub fn print(e: &E, minimal: bool) -> String {
    let wrap = |child: &E, need: bool| -> String {
        let s = print(child, minimal);
        let compound = prec(child) < 9;
        if (minimal && need) || (!minimal && compound) {
            format!("({s})")
        } else {
            s
        }
    };
    match e {
        E::Num(s) => s.clone(),
        E::Str(s) => format!("\"{}\"", s.replace('"', "\"\"")),
        E::Bool(b) => if *b { "TRUE" } else { "FALSE" }.to_string(),
        E::Err(s) => s.clone(),
        E::Ref(c, r) => format!("{}{}", col_letter(*c), r),
        E::Range(c1, r1, c2, r2) => format!("{}{}:{}{}", col_letter(*c1), r1, col_letter(*c2), r2),
        E::Neg(x) => format!("-{}", wrap(x, prec(x) < 7)),
        E::Pct(x) => format!("{}%", wrap(x, prec(x) < 6)),
        E::Bin(op, l, r) => format!(
            "{}{}{}",
            wrap(l, prec(l) < op.prec()),
            op.text(),
            wrap(r, prec(r) <= op.prec())
        ),
        E::Call(f, args) => format!(
            "{}({})",
            f.name(),
            args.iter().map(|a| print(a, minimal)).collect::<Vec<_>>().join(",")
        ),
    }
}

fn node_name(e: &E) -> String {
    match e {
        E::Num(_) => "number".into(),
        E::Str(_) => "string".into(),
        E::Bool(_) => "boolean".into(),
        E::Err(_) => "error-literal".into(),
        E::Ref(..) => "reference".into(),
        E::Range(..) => "range".into(),
        E::Neg(_) => "neg".into(),
        E::Pct(_) => "percent".into(),
        E::Bin(op, ..) => format!("op{}", op.text()),
        E::Call(f, _) => f.name().into(),
    }
}

fn children(e: &E) -> Vec<&E> {
    match e {
        E::Neg(x) | E::Pct(x) => vec![x],
        E::Bin(_, l, r) => vec![l, r],
        E::Call(_, a) => a.iter().collect(),
        _ => vec![],
    }
}

fn count_ops(e: &E) -> usize {
    let own = usize::from(!children(e).is_empty());
    own + children(e).iter().map(|c| count_ops(c)).sum::<usize>()
}

fn collect_names(e: &E, out: &mut BTreeSet<String>) {
    if !children(e).is_empty() || matches!(e, E::Range(..) | E::Ref(..)) {
        out.insert(node_name(e));
    }
    for c in children(e) {
        collect_names(c, out);
    }
}

/// Sub-expressions in post-order (children before parents), the tree itself last.
fn post_order<'a>(e: &'a E, out: &mut Vec<&'a E>) {
    for c in children(e) {
        post_order(c, out);
    }
    out.push(e);
}

// ───────────────────────────── workbook ─────────────────────────────

#[derive(Clone, Debug, PartialEq, Serialize, Deserialize)]
pub enum CellIn {
    /// typed number (source text)
    Num(String),
    /// text, typed with a quote prefix so that it is text whatever it looks like
    Text(String),
    Bool(bool),
    /// typed error literal
    Err(String),
    Empty,
    /// scalar formula over cells with a smaller row-major index
    Formula(E),
}

#[derive(Clone, Debug, PartialEq, Serialize, Deserialize)]
pub struct Case {
    /// row-major contents of A1:C4 (12 cells)
    pub cells: Vec<CellIn>,
    /// formulas placed at E1, E7, E13, ... (each has a free block to spill into)
    pub formulas: Vec<E>,
    /// print with minimal parentheses (precedence is then part of what is checked)
    pub minimal: bool,
    /// ignore the avoid switches of listed findings
    pub unrestricted: bool,
}

fn cell_index(c: u8, r: u8) -> usize {
    (r as usize - 1) * COLS as usize + (c as usize - 1)
}

// ───────────────────────────── R-eval ─────────────────────────────

#[derive(Clone, Debug, PartialEq)]
pub enum S {
    Num(f64),
    Text(String),
    Bool(bool),
    Err(String),
    Empty,
}

/// Where a scalar came from: a computed value, a direct single-cell reference (behaves like a
/// one-cell range in aggregate functions), or a reference handed through IF/IFERROR.
#[derive(Clone, Copy, Debug, PartialEq)]
enum Src {
    Plain,
    Ref,
    RefVia,
}

#[derive(Clone, Debug, PartialEq)]
enum V {
    S(S, Src),
    Range(u8, u8, u8, u8),
    Arr(Vec<Vec<S>>),
}

type R<T> = Result<T, String>; // Err = unspecified (reason)

fn unspec<T>(why: &str) -> R<T> {
    Err(why.to_string())
}

const E_VALUE: &str = "#VALUE!";
const E_DIV: &str = "#DIV/0!";
const E_NUM: &str = "#NUM!";

fn class_of(s: &S) -> &'static str {
    match s {
        S::Num(_) => "num",
        S::Text(t) => match text_number(t) {
            Ok(Some(_)) => "text:numeric",
            _ => {
                if t.is_empty() {
                    "text:empty"
                } else if t.eq_ignore_ascii_case("true") || t.eq_ignore_ascii_case("false") {
                    "text:boolean"
                } else if is_inf_nan(t) {
                    "text:inf-nan"
                } else {
                    "text:other"
                }
            }
        },
        S::Bool(_) => "bool",
        S::Err(_) => "err",
        S::Empty => "empty",
    }
}

fn is_inf_nan(t: &str) -> bool {
    let l = t.trim().to_ascii_lowercase();
    let l = l.trim_start_matches(['+', '-']);
    matches!(l, "inf" | "infinity" | "nan")
}

/// Text -> number in arithmetic context. Ok(Some(n)): certainly a number (plain decimal);
/// Ok(None): certainly not a number (letters and spaces only, or empty); Err: not stated.
fn text_number(t: &str) -> R<Option<f64>> {
    if is_inf_nan(t) {
        return Ok(None);
    }
    let b = t.as_bytes();
    let mut i = 0;
    if i < b.len() && (b[i] == b'-' || b[i] == b'+') {
        i += 1;
    }
    let d0 = i;
    while i < b.len() && b[i].is_ascii_digit() {
        i += 1;
    }
    let int_digits = i - d0;
    let mut frac_digits = 0;
    if i < b.len() && b[i] == b'.' {
        let f0 = i + 1;
        let mut j = f0;
        while j < b.len() && b[j].is_ascii_digit() {
            j += 1;
        }
        frac_digits = j - f0;
        if frac_digits > 0 {
            i = j;
        }
    }
    if i == b.len() && int_digits > 0 {
        let sig = t.chars().filter(|c| c.is_ascii_digit()).collect::<String>();
        let sig = sig.trim_start_matches('0');
        if sig.len() > 15 {
            return unspec("text-coercion:more-than-15-digits");
        }
        let _ = frac_digits;
        return match t.parse::<f64>() {
            Ok(f) => Ok(Some(f)),
            Err(_) => unspec("text-coercion"),
        };
    }
    if t.chars().all(|c| c.is_ascii_alphabetic() || c == ' ') {
        return Ok(None);
    }
    // letters that occur in no number, exponent, month name or AM/PM marker
    if t.is_ascii() && t.chars().any(|c| "hikqwxz".contains(c.to_ascii_lowercase())) {
        return Ok(None);
    }
    unspec("text-coercion:exotic")
}

/// Number -> text as the General format does (15 significant digits). Stated only for
/// 0, 1e-3 <= |x| < 1e15 (plain decimal) and |x| >= 1e20 (d.dddE+nn).
pub fn general(x: f64) -> R<String> {
    if x == 0.0 {
        return Ok("0".to_string());
    }
    if !x.is_finite() {
        return unspec("general-format:non-finite");
    }
    let s = format!("{:.14e}", x.abs());
    let (mant, exp) = s.split_once('e').ok_or("general-format")?;
    let exp: i32 = exp.parse().map_err(|_| "general-format".to_string())?;
    let digits: String = mant.chars().filter(|c| c.is_ascii_digit()).collect();
    let digits = digits.trim_end_matches('0').to_string();
    let digits = if digits.is_empty() { "0".to_string() } else { digits };
    let sign = if x < 0.0 { "-" } else { "" };
    if (-3..15).contains(&exp) {
        let body = if exp >= 0 {
            let e = exp as usize;
            if digits.len() <= e + 1 {
                format!("{}{}", digits, "0".repeat(e + 1 - digits.len()))
            } else {
                format!("{}.{}", &digits[..e + 1], &digits[e + 1..])
            }
        } else {
            format!("0.{}{}", "0".repeat((-exp - 1) as usize), digits)
        };
        Ok(format!("{sign}{body}"))
    } else if exp >= 20 {
        let m = if digits.len() == 1 {
            digits.clone()
        } else {
            format!("{}.{}", &digits[..1], &digits[1..])
        };
        Ok(format!("{sign}{m}E+{exp:02}"))
    } else {
        unspec("general-format:exponent-range")
    }
}

fn close(a: f64, b: f64) -> bool {
    a == b || (a.is_finite() && b.is_finite() && (a - b).abs() <= 1e-14 * a.abs().max(b.abs()))
}

/// ROUND half away from zero on the decimal value. Certain when x is (the double nearest to) a
/// decimal of at most 15 significant digits, or when the 15-digit and the 17-digit decimal
/// expansions round to the same result.
fn round_decimal(x: f64, digits: i32) -> R<f64> {
    if x == 0.0 {
        return Ok(0.0);
    }
    fn round_str(sci: &str, digits: i32) -> Option<f64> {
        // sci = d.ddddde[-]N of |x|
        let (mant, exp) = sci.split_once('e')?;
        let exp: i32 = exp.parse().ok()?;
        let ds: Vec<u8> = mant.bytes().filter(|c| c.is_ascii_digit()).map(|c| c - b'0').collect();
        // value = 0.d1d2d3... * 10^(exp+1); keep k = exp+1+digits leading digits
        let k = exp + 1 + digits;
        if k < 0 {
            return Some(0.0);
        }
        let k = k as usize;
        let mut kept: Vec<u8> = ds.iter().cloned().take(k).collect();
        while kept.len() < k {
            kept.push(0);
        }
        let next = ds.get(k).cloned().unwrap_or(0);
        if next >= 5 {
            let mut i = kept.len();
            let mut carry = true;
            while carry && i > 0 {
                i -= 1;
                if kept[i] == 9 {
                    kept[i] = 0;
                } else {
                    kept[i] += 1;
                    carry = false;
                }
            }
            if carry {
                kept.insert(0, 1);
                // one more leading digit: exponent grows by one
                let text = format!(
                    "0.{}e{}",
                    kept.iter().map(|d| (b'0' + d) as char).collect::<String>(),
                    exp + 2
                );
                return text.parse().ok();
            }
        }
        if kept.is_empty() {
            return Some(0.0);
        }
        let text = format!(
            "0.{}e{}",
            kept.iter().map(|d| (b'0' + d) as char).collect::<String>(),
            exp + 1
        );
        text.parse().ok()
    }
    let a = x.abs();
    let s15 = format!("{:.14e}", a);
    let r15 = round_str(&s15, digits).ok_or("round")?;
    let typed = s15.parse::<f64>().map(|v| v == a).unwrap_or(false);
    let r = if typed {
        r15
    } else {
        let s17 = format!("{:.16e}", a);
        let r17 = round_str(&s17, digits).ok_or("round")?;
        if r15 != r17 {
            return unspec("round:decided-beyond-15-digits");
        }
        r15
    };
    Ok(if x < 0.0 { -r } else { r })
}

/// The 15-digit decimal of x continues, right after the digit ROUND keeps, with 5 or 49...: the
/// engine's binary scaling (after its own 15-digit reduction) may land on the other side.
fn near_tie(x: f64, digits: i32) -> bool {
    let s = format!("{:.14e}", x.abs());
    let Some((mant, exp)) = s.split_once('e') else { return false };
    let Ok(exp) = exp.parse::<i32>() else { return false };
    let ds: Vec<u8> = mant.bytes().filter(|c| c.is_ascii_digit()).map(|c| c - b'0').collect();
    let k = exp + 1 + digits;
    if k < 0 || k as usize >= ds.len() {
        return false;
    }
    let tail = &ds[k as usize..];
    tail[0] == 5 || (tail.len() >= 2 && tail[0] == 4 && tail[1] == 9)
}

pub type Trigs = BTreeSet<&'static str>;

pub struct Ev<'a> {
    cells: &'a [R<S>],
    /// triggers met while computing each data cell (a formula reading the cell inherits them)
    cell_trigs: &'a [Trigs],
    /// implicit coercions / type-directed skips / error operands seen
    coercions: StdCell<u32>,
    /// array-valued (not reference) arguments / boolean elements seen by the last `agg_items`
    arr_args: StdCell<u32>,
    arr_bools: StdCell<u32>,
    kinds: RefCell<BTreeSet<String>>,
    /// triggers of listed findings met while evaluating
    triggers: RefCell<BTreeSet<&'static str>>,
    trig_counts: RefCell<std::collections::BTreeMap<&'static str, u32>>,
}

impl<'a> Ev<'a> {
    fn new(cells: &'a [R<S>], cell_trigs: &'a [Trigs]) -> Ev<'a> {
        Ev {
            cells,
            cell_trigs,
            coercions: StdCell::new(0),
            arr_args: StdCell::new(0),
            arr_bools: StdCell::new(0),
            kinds: RefCell::new(BTreeSet::new()),
            triggers: RefCell::new(BTreeSet::new()),
            trig_counts: RefCell::new(std::collections::BTreeMap::new()),
        }
    }
    fn co(&self, kind: &str) {
        self.coercions.set(self.coercions.get() + 1);
        self.kinds.borrow_mut().insert(kind.to_string());
    }
    fn trig(&self, t: &'static str) {
        self.triggers.borrow_mut().insert(t);
        *self.trig_counts.borrow_mut().entry(t).or_insert(0) += 1;
    }
    fn cell(&self, c: u8, r: u8) -> R<S> {
        let i = cell_index(c, r);
        // a cell whose formula met a non-finite intermediate stores an error but can hand the
        // raw number to a formula that is evaluated before it
        if let Some(t) = self.cell_trigs.get(i) {
            if t.contains("c06-non-finite-intermediate")
                || t.contains("c06-zero-pow-negative")
                || t.contains("c06-raw-non-finite-cell")
            {
                self.trig("c06-raw-non-finite-cell");
            }
            if t.contains("c06-raw-empty-cell") {
                self.trig("c06-raw-empty-cell");
            }
        }
        self.cells[i].clone()
    }
    fn range(&self, c1: u8, r1: u8, c2: u8, r2: u8) -> R<Vec<Vec<S>>> {
        let mut rows = vec![];
        for r in r1..=r2 {
            let mut row = vec![];
            for c in c1..=c2 {
                row.push(self.cell(c, r)?);
            }
            rows.push(row);
        }
        Ok(rows)
    }

    // ---- scalar coercions (Ok(Err(kind)) is a spreadsheet error value) ----

    fn to_number(&self, s: &S) -> R<Result<f64, String>> {
        Ok(match s {
            S::Num(n) => Ok(*n),
            S::Bool(b) => {
                self.co("bool->num");
                Ok(if *b { 1.0 } else { 0.0 })
            }
            S::Empty => {
                self.co("empty->num");
                Ok(0.0)
            }
            S::Text(t) => {
                self.co("text->num");
                match text_number(t)? {
                    Some(n) => Ok(n),
                    None => Err(E_VALUE.to_string()),
                }
            }
            S::Err(e) => {
                self.co("error-operand");
                Err(e.clone())
            }
        })
    }

    fn to_text(&self, s: &S) -> R<Result<String, String>> {
        Ok(match s {
            S::Num(n) => {
                self.co("num->text");
                let g = general(*n)?;
                if g != format!("{n}") {
                    self.trig("c06-number-to-text");
                }
                Ok(g)
            }
            S::Bool(b) => {
                self.co("bool->text");
                Ok(if *b { "TRUE" } else { "FALSE" }.to_string())
            }
            S::Empty => {
                self.co("empty->text");
                Ok(String::new())
            }
            S::Text(t) => Ok(t.clone()),
            S::Err(e) => {
                self.co("error-operand");
                Err(e.clone())
            }
        })
    }

    fn to_bool(&self, s: &S) -> R<Result<bool, String>> {
        Ok(match s {
            S::Bool(b) => Ok(*b),
            S::Num(n) => {
                self.co("num->bool");
                Ok(*n != 0.0)
            }
            S::Empty => {
                self.co("empty->bool");
                Ok(false)
            }
            S::Text(t) => {
                self.co("text->bool");
                if t.eq_ignore_ascii_case("true") {
                    Ok(true)
                } else if t.eq_ignore_ascii_case("false") {
                    Ok(false)
                } else if t.is_ascii() {
                    Err(E_VALUE.to_string())
                } else {
                    return unspec("text->bool:non-ascii");
                }
            }
            S::Err(e) => {
                self.co("error-operand");
                Err(e.clone())
            }
        })
    }

    fn finite(&self, x: f64, op: &str) -> R<S> {
        if x.is_nan() {
            return unspec("nan-result");
        }
        if x.is_infinite() {
            self.trig("c06-non-finite-intermediate");
            let _ = op;
            return Ok(S::Err(E_NUM.to_string()));
        }
        if x != 0.0 && x.abs() < f64::MIN_POSITIVE {
            return unspec("subnormal-result");
        }
        Ok(S::Num(x))
    }

    fn arith(&self, op: Op, a: &S, b: &S) -> R<S> {
        // left-most error wins; a failed text coercion against an error value is not stated
        let na = self.to_number(a)?;
        let nb = self.to_number(b)?;
        let a_is_err = matches!(a, S::Err(_));
        let b_is_err = matches!(b, S::Err(_));
        let (x, y) = match (na, nb) {
            (Err(e), _) if a_is_err => return Ok(S::Err(e)),
            (Err(_), Err(_)) if b_is_err => return unspec("coercion-failure-vs-error-operand"),
            (Err(e), _) => return Ok(S::Err(e)),
            (Ok(_), Err(e)) => return Ok(S::Err(e)),
            (Ok(x), Ok(y)) => (x, y),
        };
        match op {
            Op::Add | Op::Sub => {
                let r = if op == Op::Add { x + y } else { x - y };
                if r != 0.0 && r.is_finite() && r.abs() < 1e-13 * x.abs().max(y.abs()) {
                    return unspec("cancellation");
                }
                self.finite(r, "add")
            }
            Op::Mul => self.finite(x * y, "mul"),
            Op::Div => {
                if y == 0.0 {
                    Ok(S::Err(E_DIV.to_string()))
                } else {
                    self.finite(x / y, "div")
                }
            }
            Op::Pow => {
                if x == 0.0 && y == 0.0 {
                    return unspec("0^0");
                }
                if x == 0.0 && y < 0.0 {
                    self.trig("c06-zero-pow-negative");
                    return Ok(S::Err(E_DIV.to_string()));
                }
                if x < 0.0 && y.fract() != 0.0 {
                    return unspec("negative-base-fractional-exponent");
                }
                self.finite(x.powf(y), "pow")
            }
            _ => unspec("not-arithmetic"),
        }
    }

    fn concat2(&self, a: &S, b: &S) -> R<S> {
        if let S::Err(e) = a {
            self.co("error-operand");
            return Ok(S::Err(e.clone()));
        }
        if let S::Err(e) = b {
            self.co("error-operand");
            return Ok(S::Err(e.clone()));
        }
        let x = self.to_text(a)?;
        let y = self.to_text(b)?;
        match (x, y) {
            (Ok(x), Ok(y)) => Ok(S::Text(format!("{x}{y}"))),
            (Err(e), _) | (_, Err(e)) => Ok(S::Err(e)),
        }
    }

    fn compare(&self, op: Op, a: &S, b: &S) -> R<S> {
        if let S::Err(e) = a {
            self.co("error-operand");
            return Ok(S::Err(e.clone()));
        }
        if let S::Err(e) = b {
            self.co("error-operand");
            return Ok(S::Err(e.clone()));
        }
        // empty takes the type of the other side (0 / "" / FALSE)
        let norm = |s: &S, other: &S| -> S {
            if *s != S::Empty {
                return s.clone();
            }
            self.co("empty-in-comparison");
            match other {
                S::Text(_) => S::Text(String::new()),
                S::Bool(_) => S::Bool(false),
                _ => S::Num(0.0),
            }
        };
        let (x, y) = (norm(a, b), norm(b, a));
        let rank = |s: &S| match s {
            S::Num(_) => 0,
            S::Text(_) => 1,
            _ => 2,
        };
        use std::cmp::Ordering::*;
        let ord = match (&x, &y) {
            (S::Num(p), S::Num(q)) => {
                if p == q {
                    Equal
                } else if close(*p, *q) || (p - q).abs() <= 1e-13 * p.abs().max(q.abs()) {
                    return unspec("compare:numbers-equal-to-15-digits");
                } else if p < q {
                    if (p - q).abs() < f64::EPSILON {
                        self.trig("c06-compare-abs-epsilon");
                    }
                    Less
                } else {
                    if (p - q).abs() < f64::EPSILON {
                        self.trig("c06-compare-abs-epsilon");
                    }
                    Greater
                }
            }
            (S::Text(p), S::Text(q)) => {
                if !p.is_ascii() || !q.is_ascii() {
                    return unspec("compare:non-ascii-text");
                }
                let (pl, ql) = (p.to_ascii_lowercase(), q.to_ascii_lowercase());
                if pl != *p || ql != *q {
                    self.co("case-insensitive-compare");
                }
                if pl == ql {
                    Equal
                } else if matches!(op, Op::Eq | Op::Ne) {
                    Less // any non-equal answer
                } else {
                    let alnum = |s: &str| s.chars().all(|c| c.is_ascii_alphanumeric());
                    if !alnum(&pl) || !alnum(&ql) {
                        return unspec("compare:text-order-with-punctuation");
                    }
                    pl.cmp(&ql)
                }
            }
            (S::Bool(p), S::Bool(q)) => p.cmp(q),
            _ => {
                self.co("cross-type-compare");
                rank(&x).cmp(&rank(&y))
            }
        };
        Ok(S::Bool(match op {
            Op::Eq => ord == Equal,
            Op::Ne => ord != Equal,
            Op::Lt => ord == Less,
            Op::Le => ord != Greater,
            Op::Gt => ord == Greater,
            Op::Ge => ord != Less,
            _ => return unspec("not-comparison"),
        }))
    }

    fn scalar_bin(&self, op: Op, a: &S, b: &S) -> R<S> {
        if op.is_arith() {
            self.arith(op, a, b)
        } else if op == Op::Cat {
            self.concat2(a, b)
        } else {
            self.compare(op, a, b)
        }
    }

    fn to_array(&self, v: &V) -> R<Option<Vec<Vec<S>>>> {
        Ok(match v {
            V::S(..) => None,
            V::Range(c1, r1, c2, r2) => Some(self.range(*c1, *r1, *c2, *r2)?),
            V::Arr(a) => Some(a.clone()),
        })
    }

    fn scalar_of(&self, e: &E) -> R<S> {
        match self.eval(e)? {
            V::S(s, _) => Ok(s),
            _ => unspec("range-in-scalar-position"),
        }
    }

    pub fn eval_top(&self, e: &E) -> R<Vec<Vec<S>>> {
        let v = self.eval(e)?;
        let arr = match self.to_array(&v)? {
            Some(a) => a,
            None => match v {
                V::S(s, _) => vec![vec![s]],
                _ => return unspec("internal"),
            },
        };
        // a formula cell / spill cell never holds "empty": it shows 0
        Ok(arr
            .into_iter()
            .map(|row| row.into_iter().map(|s| if s == S::Empty { S::Num(0.0) } else { s }).collect())
            .collect())
    }

    fn eval(&self, e: &E) -> R<V> {
        let plain = |s: S| Ok(V::S(s, Src::Plain));
        match e {
            E::Num(t) => match t.parse::<f64>() {
                Ok(f) if f.is_finite() => plain(S::Num(f)),
                _ => unspec("number-literal"),
            },
            E::Str(s) => plain(S::Text(s.clone())),
            E::Bool(b) => plain(S::Bool(*b)),
            E::Err(k) => plain(S::Err(k.clone())),
            E::Ref(c, r) => Ok(V::S(self.cell(*c, *r)?, Src::Ref)),
            E::Range(c1, r1, c2, r2) => Ok(V::Range(*c1, *r1, *c2, *r2)),
            E::Neg(x) | E::Pct(x) => {
                let s = self.scalar_of(x)?;
                match self.to_number(&s)? {
                    Err(k) => plain(S::Err(k)),
                    Ok(n) => {
                        let r = if matches!(e, E::Neg(_)) { -n } else { n / 100.0 };
                        plain(self.finite(r, "unary")?)
                    }
                }
            }
            E::Bin(op, l, r) => {
                let lv = self.eval(l)?;
                let rv = self.eval(r)?;
                match (self.to_array(&lv)?, self.to_array(&rv)?) {
                    (None, None) => {
                        let (V::S(a, _), V::S(b, _)) = (&lv, &rv) else { return unspec("internal") };
                        plain(self.scalar_bin(*op, a, b)?)
                    }
                    (Some(a), None) => {
                        let V::S(b, _) = &rv else { return unspec("internal") };
                        if matches!(b, S::Err(_)) {
                            return unspec("scalar-error-against-array");
                        }
                        if op.is_arith() && matches!(self.to_number(b)?, Err(_)) {
                            return unspec("scalar-coercion-failure-against-array");
                        }
                        self.co("scalar-broadcast");
                        if op.is_cmp() && a.iter().flatten().any(|x| matches!(x, S::Err(_))) {
                            self.trig("c06-lifted-compare-error");
                        }
                        let mut out = vec![];
                        for row in &a {
                            let mut o = vec![];
                            for x in row {
                                o.push(self.scalar_bin(*op, x, b)?);
                            }
                            out.push(o);
                        }
                        Ok(V::Arr(out))
                    }
                    (None, Some(b)) => {
                        let V::S(a, _) = &lv else { return unspec("internal") };
                        if matches!(a, S::Err(_)) {
                            return unspec("scalar-error-against-array");
                        }
                        if op.is_arith() && matches!(self.to_number(a)?, Err(_)) {
                            return unspec("scalar-coercion-failure-against-array");
                        }
                        self.co("scalar-broadcast");
                        if op.is_cmp() && b.iter().flatten().any(|x| matches!(x, S::Err(_))) {
                            self.trig("c06-lifted-compare-error");
                        }
                        let mut out = vec![];
                        for row in &b {
                            let mut o = vec![];
                            for y in row {
                                o.push(self.scalar_bin(*op, a, y)?);
                            }
                            out.push(o);
                        }
                        Ok(V::Arr(out))
                    }
                    (Some(a), Some(b)) => {
                        if a.len() != b.len() || a[0].len() != b[0].len() {
                            return unspec("array-shapes-differ");
                        }
                        if op.is_cmp() && a.iter().chain(b.iter()).flatten().any(|x| matches!(x, S::Err(_))) {
                            self.trig("c06-lifted-compare-error");
                        }
                        let mut out = vec![];
                        for (ra, rb) in a.iter().zip(b.iter()) {
                            let mut o = vec![];
                            for (x, y) in ra.iter().zip(rb.iter()) {
                                o.push(self.scalar_bin(*op, x, y)?);
                            }
                            out.push(o);
                        }
                        Ok(V::Arr(out))
                    }
                }
            }
            E::Call(f, args) => self.call(*f, args),
        }
    }

    /// Values an aggregate sees: (value, counts-as-reference-content)
    fn agg_items(&self, args: &[E]) -> R<Vec<(S, bool)>> {
        let mut out = vec![];
        let (mut n_arr, mut n_bool) = (0u32, 0u32);
        for a in args {
            match self.eval(a)? {
                V::S(s, Src::Plain) => out.push((s, false)),
                V::S(s, Src::Ref) => out.push((s, true)),
                V::S(s, Src::RefVia) => {
                    if matches!(s, S::Num(_) | S::Err(_)) {
                        out.push((s, true));
                    } else {
                        return unspec("aggregate-of-reference-returned-by-IF");
                    }
                }
                V::Range(c1, r1, c2, r2) => {
                    for row in self.range(c1, r1, c2, r2)? {
                        for s in row {
                            out.push((s, true));
                        }
                    }
                }
                V::Arr(a) => {
                    n_arr += 1;
                    for row in a {
                        for s in row {
                            if matches!(s, S::Bool(_)) {
                                n_bool += 1;
                            }
                            out.push((s, true));
                        }
                    }
                }
            }
        }
        // set after all (possibly nested) arguments were evaluated
        self.arr_args.set(n_arr);
        self.arr_bools.set(n_bool);
        Ok(out)
    }

    /// Numbers seen by SUM/MIN/MAX/AVERAGE, or the error value they return.
    fn agg_numbers(&self, f: F, args: &[E]) -> R<Result<Vec<f64>, String>> {
        self.arr_bools.set(0);
        let items = self.agg_items(args)?;
        if f == F::Average && self.arr_bools.get() > 0 {
            self.trig("c06-lifted-average-bool");
        }
        let mut nums = vec![];
        let mut first_err: Option<(String, bool)> = None; // (kind, from coercion failure)
        for (s, in_ref) in &items {
            if in_ref.to_owned() {
                match s {
                    S::Num(n) => nums.push(*n),
                    S::Err(k) => {
                        self.co("error-operand");
                        if first_err.is_none() {
                            first_err = Some((k.clone(), false));
                        } else if first_err.as_ref().map(|(x, c)| *c && x != k).unwrap_or(false) {
                            return unspec("coercion-failure-vs-error-operand");
                        }
                    }
                    S::Empty => {}
                    _ => self.co("ignored-in-reference"),
                }
            } else {
                if f == F::Average && matches!(s, S::Bool(_) | S::Text(_)) {
                    return unspec("AVERAGE-of-direct-boolean-or-text");
                }
                if matches!(f, F::Min | F::Max) && matches!(s, S::Bool(_) | S::Text(_)) {
                    self.trig("c06-min-max-direct");
                }
                match self.to_number(s)? {
                    Ok(n) => nums.push(n),
                    Err(k) => {
                        let coercion = !matches!(s, S::Err(_));
                        match &first_err {
                            None => first_err = Some((k, coercion)),
                            Some((k0, c0)) => {
                                if *k0 != k && (*c0 || coercion) {
                                    return unspec("coercion-failure-vs-error-operand");
                                }
                            }
                        }
                    }
                }
            }
        }
        Ok(match first_err {
            Some((k, _)) => Err(k),
            None => Ok(nums),
        })
    }

    fn call(&self, f: F, args: &[E]) -> R<V> {
        let plain = |s: S| Ok(V::S(s, Src::Plain));
        let err = |k: String| Ok(V::S(S::Err(k), Src::Plain));
        match f {
            F::If => {
                if args.len() != 2 && args.len() != 3 {
                    return unspec("arity");
                }
                let c = self.scalar_of(&args[0])?;
                let b = match self.to_bool(&c)? {
                    Ok(b) => b,
                    Err(k) => return err(k),
                };
                let branch = if b {
                    &args[1]
                } else if args.len() == 3 {
                    &args[2]
                } else {
                    return plain(S::Bool(false));
                };
                Ok(match self.eval(branch)? {
                    V::S(s, Src::Ref) => V::S(s, Src::RefVia),
                    other => other,
                })
            }
            F::Iferror => {
                if args.len() != 2 {
                    return unspec("arity");
                }
                let v = self.eval(&args[0])?;
                match self.to_array(&v)? {
                    None => match v {
                        V::S(S::Err(_), _) => {
                            self.co("error-operand");
                            Ok(match self.eval(&args[1])? {
                                V::S(s, Src::Ref) => V::S(s, Src::RefVia),
                                other => other,
                            })
                        }
                        V::S(s, Src::Ref) => Ok(V::S(s, Src::RefVia)),
                        other => Ok(other),
                    },
                    Some(a) => {
                        let fb = self.scalar_of(&args[1])?;
                        let mut out = vec![];
                        for row in a {
                            let mut o = vec![];
                            for s in row {
                                o.push(if matches!(s, S::Err(_)) {
                                    self.co("error-operand");
                                    fb.clone()
                                } else {
                                    s
                                });
                            }
                            out.push(o);
                        }
                        Ok(V::Arr(out))
                    }
                }
            }
            F::Not => {
                let s = self.scalar_of(&args[0])?;
                match self.to_bool(&s)? {
                    Ok(b) => plain(S::Bool(!b)),
                    Err(k) => err(k),
                }
            }
            F::And | F::Or => {
                let items = self.agg_items(args)?;
                let mut seen: Vec<bool> = vec![];
                let mut first_err: Option<(String, bool)> = None;
                let mut decided_at: Option<usize> = None;
                for (i, (s, in_ref)) in items.iter().enumerate() {
                    let val: Option<Result<bool, (String, bool)>> = if *in_ref {
                        match s {
                            S::Bool(b) => Some(Ok(*b)),
                            S::Num(n) => {
                                self.co("num->bool");
                                Some(Ok(*n != 0.0))
                            }
                            S::Err(k) => Some(Err((k.clone(), false))),
                            _ => {
                                self.co("ignored-in-reference");
                                None
                            }
                        }
                    } else {
                        match s {
                            S::Text(t) if !t.eq_ignore_ascii_case("true") && !t.eq_ignore_ascii_case("false") => {
                                self.trig("c06-and-or-direct-text");
                                self.co("text->bool");
                                if !t.is_ascii() {
                                    return unspec("text->bool:non-ascii");
                                }
                                Some(Err((E_VALUE.to_string(), true)))
                            }
                            S::Empty => return unspec("logical-of-plain-empty"),
                            _ => match self.to_bool(s)? {
                                Ok(b) => Some(Ok(b)),
                                Err(k) => Some(Err((k, false))),
                            },
                        }
                    };
                    match val {
                        Some(Ok(b)) => {
                            seen.push(b);
                            if decided_at.is_none() && b == (f == F::Or) {
                                decided_at = Some(i);
                            }
                        }
                        Some(Err((k, coercion))) => {
                            self.co("error-operand");
                            if decided_at.is_some() {
                                // all arguments are evaluated: an error after the deciding
                                // argument still propagates
                                self.trig("c06-and-or-short-circuit");
                            }
                            match &first_err {
                                None => first_err = Some((k, coercion)),
                                Some((k0, c0)) => {
                                    if *k0 != k && (*c0 || coercion) {
                                        return unspec("coercion-failure-vs-error-operand");
                                    }
                                }
                            }
                        }
                        None => {}
                    }
                }
                if let Some((k, _)) = first_err {
                    return err(k);
                }
                if seen.is_empty() {
                    return err(E_VALUE.to_string());
                }
                plain(S::Bool(if f == F::And { seen.iter().all(|b| *b) } else { seen.iter().any(|b| *b) }))
            }
            F::Sum | F::Min | F::Max | F::Average => {
                let nums = match self.agg_numbers(f, args)? {
                    Ok(n) => n,
                    Err(k) => return err(k),
                };
                match f {
                    F::Sum => {
                        let mut t = 0.0;
                        for n in &nums {
                            t += n;
                        }
                        plain(self.finite(t, "sum")?)
                    }
                    F::Average => {
                        if nums.is_empty() {
                            return err(E_DIV.to_string());
                        }
                        let mut t = 0.0;
                        for n in &nums {
                            t += n;
                        }
                        plain(self.finite(t / nums.len() as f64, "average")?)
                    }
                    _ => {
                        if nums.is_empty() {
                            return plain(S::Num(0.0));
                        }
                        let mut m = nums[0];
                        for n in &nums {
                            m = if f == F::Min { m.min(*n) } else { m.max(*n) };
                        }
                        plain(S::Num(m))
                    }
                }
            }
            F::Count => {
                self.arr_args.set(0);
                let items = self.agg_items(args)?;
                if self.arr_args.get() > 0 {
                    self.trig("c06-lifted-count-array");
                }
                let mut n = 0;
                for (s, in_ref) in &items {
                    if *in_ref {
                        match s {
                            S::Num(_) => n += 1,
                            S::Empty => {}
                            _ => self.co("ignored-in-reference"),
                        }
                    } else {
                        match s {
                            S::Num(_) => n += 1,
                            S::Bool(_) => {
                                self.co("bool->num");
                                n += 1
                            }
                            S::Text(t) => {
                                self.co("text->num");
                                if text_number(t)?.is_some() {
                                    n += 1
                                }
                            }
                            S::Err(_) => self.co("error-operand"),
                            S::Empty => return unspec("COUNT-of-plain-empty"),
                        }
                    }
                }
                plain(S::Num(n as f64))
            }
            F::Counta => {
                let mut n = 0;
                for a in args {
                    match self.eval(a)? {
                        V::S(S::Empty, Src::Ref) => {}
                        V::S(S::Empty, _) => return unspec("COUNTA-of-empty-returned-by-IF"),
                        V::S(s, _) => {
                            if matches!(s, S::Err(_)) {
                                self.co("error-operand");
                            }
                            n += 1
                        }
                        V::Range(c1, r1, c2, r2) => {
                            for row in self.range(c1, r1, c2, r2)? {
                                for s in row {
                                    if s != S::Empty {
                                        n += 1;
                                    }
                                }
                            }
                        }
                        V::Arr(a) => {
                            for row in a {
                                for s in row {
                                    if s == S::Empty {
                                        return unspec("COUNTA-of-empty-array-element");
                                    }
                                    n += 1;
                                }
                            }
                        }
                    }
                }
                plain(S::Num(n as f64))
            }
            F::Abs => {
                let s = self.scalar_of(&args[0])?;
                match self.to_number(&s)? {
                    Ok(n) => plain(S::Num(n.abs())),
                    Err(k) => err(k),
                }
            }
            F::Round => {
                let a = self.scalar_of(&args[0])?;
                let d = self.scalar_of(&args[1])?;
                let na = self.to_number(&a)?;
                let nd = self.to_number(&d)?;
                let (x, d) = match (na, nd) {
                    (Err(k), _) if matches!(a, S::Err(_)) => return err(k),
                    (Err(_), Err(_)) if matches!(d, S::Err(_)) => {
                        return unspec("coercion-failure-vs-error-operand")
                    }
                    (Err(k), _) | (_, Err(k)) => return err(k),
                    (Ok(x), Ok(d)) => (x, d),
                };
                if d.fract() != 0.0 || d.abs() > 20.0 {
                    return unspec("round:digits-not-a-small-integer");
                }
                let r = round_decimal(x, d as i32)?;
                let naive = {
                    let scale = 10f64.powi(d as i32);
                    (x * scale).round() / scale
                };
                if !naive.is_finite() {
                    self.trig("c06-round-overflow");
                } else if naive != r || near_tie(x, d as i32) {
                    // also when the two agree to 15 digits: the noise in the last bits shows
                    // after a cancelling subtraction or in a comparison
                    self.trig("c06-round-decimal");
                }
                plain(self.finite(r, "round")?)
            }
            F::Len => {
                let s = self.scalar_of(&args[0])?;
                match self.to_text(&s)? {
                    Ok(t) => plain(S::Num(t.encode_utf16().count() as f64)),
                    Err(k) => err(k),
                }
            }
            F::Concat => {
                let mut out = String::new();
                for a in args {
                    let v = self.eval(a)?;
                    if matches!(v, V::Arr(_)) {
                        self.trig("c06-lifted-concat-array");
                    }
                    let items: Vec<S> = match self.to_array(&v)? {
                        Some(arr) => arr.into_iter().flatten().collect(),
                        None => match v {
                            V::S(s, _) => vec![s],
                            _ => return unspec("internal"),
                        },
                    };
                    for s in items {
                        match self.to_text(&s)? {
                            Ok(t) => out.push_str(&t),
                            Err(k) => return err(k),
                        }
                    }
                }
                plain(S::Text(out))
            }
            F::Isnumber | F::Istext | F::Isblank => {
                let v = self.eval(&args[0])?;
                let V::S(s, src) = v else { return unspec("IS-function-of-range") };
                if src == Src::RefVia && s == S::Empty {
                    return unspec("IS-function-of-empty-returned-by-IF");
                }
                if matches!(s, S::Err(_)) {
                    self.co("error-operand");
                }
                plain(S::Bool(match f {
                    F::Isnumber => matches!(s, S::Num(_)),
                    F::Istext => matches!(s, S::Text(_)),
                    _ => s == S::Empty,
                }))
            }
        }
    }
}

// ───────────────────────────── engine side ─────────────────────────────

const ANCHOR_COL: i32 = 5;
const BLOCK_ROWS: i32 = 6;

fn anchor_row(k: usize) -> i32 {
    1 + BLOCK_ROWS * k as i32
}

fn cell_input_text(c: &CellIn, minimal: bool) -> Option<String> {
    match c {
        CellIn::Num(t) => Some(t.clone()),
        CellIn::Text(t) => Some(format!("'{t}")),
        CellIn::Bool(b) => Some(if *b { "TRUE" } else { "FALSE" }.to_string()),
        CellIn::Err(k) => Some(k.clone()),
        CellIn::Empty => None,
        CellIn::Formula(e) => Some(format!("={}", print(e, minimal))),
    }
}

fn build_model(cells: &[CellIn], formulas: &[String], minimal: bool) -> Result<Model<'static>, String> {
    let mut model = Model::new_empty("c06", "en", "UTC", "en")?;
    for (i, c) in cells.iter().enumerate() {
        if let Some(t) = cell_input_text(c, minimal) {
            let row = (i / COLS as usize) as i32 + 1;
            let col = (i % COLS as usize) as i32 + 1;
            model.set_user_input(0, row, col, t)?;
        }
    }
    for (k, f) in formulas.iter().enumerate() {
        model.set_user_input(0, anchor_row(k), ANCHOR_COL, format!("={f}"))?;
    }
    model.evaluate();
    Ok(model)
}

fn same(exp: &S, act: &TV) -> bool {
    match (exp, act) {
        (S::Num(a), TV::Num(b)) => close(*a, *b),
        (S::Text(a), TV::Text(b)) => a == b,
        (S::Bool(a), TV::Bool(b)) => a == b,
        (S::Err(a), TV::Err(b)) => a == b,
        (S::Empty, TV::Empty) => true,
        _ => false,
    }
}

fn s_render(s: &S) -> String {
    match s {
        S::Num(n) => format!("{n:?}"),
        S::Text(t) => format!("{t:?}"),
        S::Bool(b) => format!("{b}").to_uppercase(),
        S::Err(k) => k.clone(),
        S::Empty => "(empty)".into(),
    }
}

fn tv_class(t: &TV) -> &'static str {
    match t {
        TV::Empty => "empty",
        TV::Num(_) => "num",
        TV::Text(_) => "text",
        TV::Bool(_) => "bool",
        TV::Err(_) => "err",
        TV::Unevaluated => "unevaluated",
    }
}

fn s_class_short(s: &S) -> &'static str {
    match s {
        S::Num(_) => "num",
        S::Text(_) => "text",
        S::Bool(_) => "bool",
        S::Err(_) => "err",
        S::Empty => "empty",
    }
}

struct Mismatch {
    /// position inside the expected block (or just outside it)
    at: (usize, usize),
    want: Option<S>,
    got: TV,
}

/// Compare the block anchored at (row0, ANCHOR_COL) with the expected array; the cells just
/// outside the expected extent must be empty.
fn compare_block(model: &Model, row0: i32, exp: &[Vec<S>]) -> Option<Mismatch> {
    let h = exp.len();
    let w = exp[0].len();
    for i in 0..=h {
        for j in 0..=w {
            let got = cell_value(model, 0, row0 + i as i32, ANCHOR_COL + j as i32);
            if i < h && j < w {
                if !same(&exp[i][j], &got) {
                    return Some(Mismatch { at: (i, j), want: Some(exp[i][j].clone()), got });
                }
            } else if got != TV::Empty {
                return Some(Mismatch { at: (i, j), want: None, got });
            }
        }
    }
    None
}

// ───────────────────────────── case normalisation ─────────────────────────────

/// Make a cell formula refer only to cells with a smaller row-major index (acyclic by
/// construction). Idempotent.
fn fix_refs(e: &E, i: usize) -> E {
    match e {
        E::Ref(c, r) => {
            let idx = cell_index(*c, *r);
            if i == 0 {
                E::Num("1".into())
            } else if idx < i {
                e.clone()
            } else {
                let k = idx % i;
                E::Ref((k % COLS as usize) as u8 + 1, (k / COLS as usize) as u8 + 1)
            }
        }
        E::Range(c1, r1, c2, r2) => {
            let full_rows = (i / COLS as usize) as u8;
            if full_rows == 0 {
                E::Num("2".into())
            } else {
                let r2n = (*r2).min(full_rows);
                let r1n = (*r1).min(r2n);
                E::Range(*c1, r1n, *c2, r2n)
            }
        }
        E::Neg(x) => E::Neg(Box::new(fix_refs(x, i))),
        E::Pct(x) => E::Pct(Box::new(fix_refs(x, i))),
        E::Bin(op, l, r) => E::Bin(*op, Box::new(fix_refs(l, i)), Box::new(fix_refs(r, i))),
        E::Call(f, a) => E::Call(*f, a.iter().map(|x| fix_refs(x, i)).collect()),
        other => other.clone(),
    }
}

pub fn normalise(case: &Case) -> Case {
    let mut cells: Vec<CellIn> = case.cells.iter().take(12).cloned().collect();
    while cells.len() < 12 {
        cells.push(CellIn::Empty);
    }
    for (i, c) in cells.iter_mut().enumerate() {
        if let CellIn::Formula(e) = c {
            *c = CellIn::Formula(fix_refs(e, i));
        }
    }
    Case { cells, formulas: case.formulas.clone(), minimal: case.minimal, unrestricted: case.unrestricted }
}

/// Reference values of the 12 data cells. `avoid`: triggers whose formulas are not compared.
fn has_double_neg(e: &E) -> bool {
    matches!(e, E::Neg(x) if matches!(**x, E::Neg(_))) || children(e).iter().any(|c| has_double_neg(c))
}

fn reference_cells(
    cells: &[CellIn],
    avoid: &dyn Fn(&str) -> bool,
    skip_double_neg: bool,
    excluded: &mut u64,
) -> (Vec<R<S>>, Vec<Trigs>) {
    let mut vals: Vec<R<S>> = (0..12).map(|_| Err("forward-reference".to_string())).collect();
    let mut trigs: Vec<Trigs> = (0..12).map(|_| Trigs::new()).collect();
    for (i, c) in cells.iter().enumerate() {
        let v: R<S> = match c {
            CellIn::Num(t) => match t.parse::<f64>() {
                Ok(f) if f.is_finite() => Ok(S::Num(f)),
                _ => Err("cell-number".into()),
            },
            CellIn::Text(t) => Ok(S::Text(t.clone())),
            CellIn::Bool(b) => Ok(S::Bool(*b)),
            CellIn::Err(k) => Ok(S::Err(k.clone())),
            CellIn::Empty => Ok(S::Empty),
            CellIn::Formula(e) if skip_double_neg && has_double_neg(e) => {
                *excluded += 1;
                Err("avoided:c06-double-negation".into())
            }
            CellIn::Formula(e) => {
                let ev = Ev::new(&vals, &trigs);
                let r = ev.eval_top(e);
                let mut own: Trigs = ev.triggers.borrow().clone();
                // what the cell's formula hands to a dependent that is evaluated before it is
                // the raw result; the stored value of an empty result is 0
                let raw_empty = matches!(ev.eval(e), Ok(V::S(S::Empty, _)));
                drop(ev);
                // a raw non-finite value read from another cell flows on through this one (the
                // engine computes with inf where the reference computes with #NUM!); a raw
                // empty one only if this cell hands it through
                own.remove("c06-raw-empty-cell");
                if raw_empty {
                    own.insert("c06-raw-empty-cell");
                }
                trigs[i] = own.clone();
                match r {
                    Ok(a) if a.len() == 1 && a[0].len() == 1 => {
                        let hit: Vec<&str> = own
                            .iter()
                            .cloned()
                            .filter(|t| *t != "c06-raw-empty-cell" && avoid(t))
                            .collect();
                        if hit.is_empty() {
                            Ok(a[0][0].clone())
                        } else {
                            *excluded += 1;
                            Err(format!("avoided:{}", hit[0]))
                        }
                    }
                    Ok(_) => Err("cell-formula-not-scalar".into()),
                    Err(why) => Err(why),
                }
            }
        };
        vals[i] = v;
    }
    (vals, trigs)
}

// ───────────────────────────── classification ─────────────────────────────

fn trigger_signature(t: &str, sub: &E) -> Option<String> {
    Some(match t {
        "c06-number-to-text" => format!(
            "C06:number-to-text:rust-display-instead-of-general-format:via={}",
            node_name(sub)
        ),
        "c06-and-or-short-circuit" => "C06:and-or:error-after-deciding-argument-is-ignored".to_string(),
        "c06-and-or-direct-text" => "C06:and-or:direct-text-argument-is-ignored".to_string(),
        "c06-min-max-direct" => "C06:min-max:direct-boolean-or-text-argument-is-ignored".to_string(),
        "c06-round-decimal" => "C06:round:binary-scaling-is-not-decimal-rounding".to_string(),
        "c06-round-overflow" => "C06:round:scaling-overflows-for-huge-values".to_string(),
        "c06-zero-pow-negative" => "C06:power:zero-to-negative-exponent-is-not-div0".to_string(),
        "c06-non-finite-intermediate" => "C06:non-finite-intermediate-result-is-a-number".to_string(),
        // repaired in the engine (evaluate_cell hands dependents the stored value): no longer a
        // class of its own; the next broken rule of the node names the failure
        // (likewise the texts "inf" / "nan", no longer taken for numbers)
        "c06-raw-non-finite-cell" | "c06-raw-empty-cell" | "c06-inf-nan-text" => return None,
        "c06-compare-abs-epsilon" => "C06:compare:numbers-closer-than-f64-epsilon-are-equal".to_string(),
        "c06-lifted-compare-error" => "C06:lifted:comparison-with-error-element-gives-boolean".to_string(),
        "c06-lifted-concat-array" => "C06:lifted:CONCAT-of-array-not-implemented".to_string(),
        "c06-lifted-count-array" => "C06:lifted:COUNT-ignores-array-argument".to_string(),
        "c06-lifted-average-bool" => "C06:lifted:AVERAGE-counts-booleans-in-array".to_string(),
        _ => return None,
    })
}

fn child_class(ev: &Ev, c: &E, at: (usize, usize)) -> String {
    match ev.eval(c) {
        Err(why) => format!("unspecified({why})"),
        Ok(V::S(s, src)) => format!("{}{}", class_of(&s), if src == Src::Ref { "@ref" } else { "" }),
        Ok(v) => {
            let tag = if matches!(v, V::Range(..)) { "range" } else { "array" };
            match ev.to_array(&v) {
                Ok(Some(a)) => match a.get(at.0).and_then(|r| r.get(at.1)) {
                    Some(s) => format!("{tag}[{}]", class_of(s)),
                    None => tag.to_string(),
                },
                _ => tag.to_string(),
            }
        }
    }
}

fn classify(
    vals: &[R<S>],
    ct: &[Trigs],
    sub: &E,
    m: &Mismatch,
    passes_parenthesised: bool,
    double_neg_somewhere: bool,
) -> String {
    if passes_parenthesised {
        if has_double_neg(sub) {
            return "C06:precedence:neg>neg".to_string();
        }
        let kids: Vec<String> = children(sub).iter().filter(|c| prec(c) < 9).map(|c| node_name(c)).collect();
        return format!("C06:precedence:{}>{}", node_name(sub), kids.join("+"));
    }
    let own = {
        let ev = Ev::new(vals, ct);
        let _ = ev.eval_top(sub);
        let all = ev.trig_counts.borrow().clone();
        let mut inherited: std::collections::BTreeMap<&'static str, u32> = Default::default();
        for c in children(sub) {
            // what a reference leaf brings along belongs to the node that reads it
            if children(c).is_empty() {
                continue;
            }
            let evc = Ev::new(vals, ct);
            let _ = evc.eval_top(c);
            for (t, n) in evc.trig_counts.borrow().iter() {
                *inherited.entry(t).or_insert(0) += n;
            }
        }
        // a trigger is the node's own when it fired more often than in all children together
        let own: Vec<&'static str> = all
            .iter()
            .filter(|(t, n)| **n > inherited.get(*t).cloned().unwrap_or(0))
            .map(|(t, _)| *t)
            .collect();
        let inherited: BTreeSet<&'static str> = inherited.keys().cloned().collect();
        (own, inherited)
    };
    // several rules can be broken by one node: the first in SWITCHES order names the class
    for t in SWITCHES {
        if own.0.contains(&t) {
            if let Some(s) = trigger_signature(t, sub) {
                return s;
            }
        }
    }
    // what a dependent sees of a formula cell depends on which of the two is evaluated first, so
    // a sub-expression can pass on its own and fail inside its parent
    for t in ["c06-raw-non-finite-cell", "c06-raw-empty-cell", "c06-round-decimal"] {
        if own.1.contains(t) {
            if let Some(s) = trigger_signature(t, sub) {
                return s;
            }
        }
    }
    if own.0.is_empty() && own.1.contains("c06-non-finite-intermediate") {
        return "C06:non-finite-intermediate-result-is-a-number".to_string();
    }
    if matches!(sub, E::Call(F::Round, _)) && matches!((&m.want, &m.got), (Some(S::Num(_)), TV::Num(_))) {
        return "C06:round:binary-scaling-is-not-decimal-rounding".to_string();
    }
    if double_neg_somewhere {
        return "C06:precedence:neg>neg".to_string();
    }
    let ev = Ev::new(vals, ct);
    let mut kids: Vec<String> = children(sub).iter().map(|c| child_class(&ev, c, m.at)).collect();
    let ordered = matches!(sub, E::Bin(..) | E::Neg(_) | E::Pct(_))
        || matches!(sub, E::Call(F::If | F::Iferror | F::Round, _));
    if !ordered {
        kids.sort();
        kids.dedup();
    }
    format!(
        "C06:{}:{}:want={}:got={}",
        node_name(sub),
        kids.join(if ordered { "|" } else { "," }),
        m.want.as_ref().map(s_class_short).unwrap_or("nothing"),
        tv_class(&m.got)
    )
}

/// Find the smallest failing sub-expression of `e` (post-order, each evaluated on its own in a
/// fresh workbook with the same data cells) and derive the signature from it.
fn localise(cells: &[CellIn], vals: &[R<S>], ct: &[Trigs], e: &E, minimal: bool, whole: &Mismatch) -> (String, String) {
    let mut subs = vec![];
    post_order(e, &mut subs);
    let subs: Vec<&E> = subs
        .into_iter()
        .filter(|s| !children(s).is_empty() || matches!(s, E::Ref(..) | E::Range(..)))
        .collect();
    let mut expected: Vec<Option<Vec<Vec<S>>>> = vec![];
    for s in &subs {
        expected.push(Ev::new(vals, ct).eval_top(s).ok());
    }
    let texts: Vec<String> = subs.iter().map(|s| print(s, minimal)).collect();
    let found = panics::catch(|| -> Option<(usize, Mismatch)> {
        let model = build_model(cells, &texts, minimal).ok()?;
        for (k, exp) in expected.iter().enumerate() {
            if let Some(exp) = exp {
                if let Some(m) = compare_block(&model, anchor_row(k), exp) {
                    return Some((k, m));
                }
            }
        }
        None
    })
    .ok()
    .flatten();
    let (sub, m): (&E, Mismatch) = match found {
        Some((k, m)) => (subs[k], m),
        None => (e, Mismatch { at: whole.at, want: whole.want.clone(), got: whole.got.clone() }),
    };
    let mut passes_parenthesised = false;
    if minimal {
        if let Ok(exp) = Ev::new(vals, ct).eval_top(sub) {
            let full = print(sub, false);
            if full != print(sub, true) {
                passes_parenthesised = panics::catch(|| {
                    // cell formulas keep the case's printing mode
                    match build_model(cells, &[], minimal) {
                        Ok(mut model) => {
                            let _ = model.set_user_input(0, 1, ANCHOR_COL, format!("={full}"));
                            model.evaluate();
                            compare_block(&model, 1, &exp).is_none()
                        }
                        Err(_) => false,
                    }
                })
                .unwrap_or(false);
            }
        }
    }
    // &, CONCAT, LEN of a number the *engine* computed with more digits than General shows
    let mut engine_display = false;
    let texty = matches!(sub, E::Bin(Op::Cat, ..) | E::Call(F::Concat | F::Len, _));
    if texty && !passes_parenthesised {
        let kids: Vec<String> = children(sub).iter().map(|c| print(c, minimal)).collect();
        engine_display = panics::catch(|| {
            let Ok(model) = build_model(cells, &kids, minimal) else { return false };
            for k in 0..kids.len() {
                for i in 0..ROWS as i32 {
                    for j in 0..COLS as i32 {
                        if let TV::Num(n) = cell_value(&model, 0, anchor_row(k) + i, ANCHOR_COL + j) {
                            if general(n).ok() != Some(format!("{n}")) {
                                return true;
                            }
                        }
                    }
                }
            }
            false
        })
        .unwrap_or(false);
    }
    // `--x` printed without parentheses loses its coercion: anything computed from such a cell
    // or sub-expression can differ
    let dn = minimal
        && (has_double_neg(e) || cells.iter().any(|c| matches!(c, CellIn::Formula(f) if has_double_neg(f))));
    let mut sig = classify(vals, ct, sub, &m, passes_parenthesised, dn);
    if engine_display && !sig.starts_with("C06:number-to-text") && sig.contains(":want=") {
        sig = trigger_signature("c06-number-to-text", sub).unwrap_or(sig);
    }
    let detail = format!(
        "smallest failing sub-expression ={} : reference {} , engine {:?} (element {:?})",
        print(sub, minimal),
        m.want.as_ref().map(s_render).unwrap_or_else(|| "(no cell)".into()),
        m.got,
        m.at
    );
    (sig, detail)
}

// ───────────────────────────── the check ─────────────────────────────

const SWITCHES: [&str; 16] = [
    "c06-compare-abs-epsilon",
    "c06-raw-non-finite-cell",
    "c06-raw-empty-cell",
    "c06-lifted-compare-error",
    "c06-lifted-concat-array",
    "c06-lifted-count-array",
    "c06-lifted-average-bool",
    "c06-min-max-direct",
    "c06-and-or-direct-text",
    "c06-and-or-short-circuit",
    "c06-zero-pow-negative",
    "c06-round-overflow",
    "c06-round-decimal",
    "c06-inf-nan-text",
    "c06-number-to-text",
    "c06-non-finite-intermediate",
];

pub fn check(ctx: &Ctx, case: &Case) -> Outcome {
    let case = normalise(case);
    let mut o = Outcome::pass();
    let unrestricted = case.unrestricted;
    let avoid = |t: &str| !unrestricted && ctx.avoid(t);
    let mut excluded = 0u64;
    let skip_dn = case.minimal && avoid("c06-double-negation");
    let (vals, ctrigs) = reference_cells(&case.cells, &avoid, skip_dn, &mut excluded);

    struct Plan {
        text: String,
        expected: Option<Vec<Vec<S>>>,
    }
    let mut plans = vec![];
    let mut nontrivial = false;
    for f in &case.formulas {
        let ev = Ev::new(&vals, &ctrigs);
        let r = ev.eval_top(f);
        let mut names = BTreeSet::new();
        collect_names(f, &mut names);
        for n in names {
            o = o.label(format!("uses:{n}"));
        }
        let expected = match r {
            Err(why) => {
                let why = why.split(':').next().unwrap_or("").to_string();
                o = o.label(format!("unspecified:{why}"));
                None
            }
            Ok(a) => {
                let mut hit: Vec<&str> = ev.triggers.borrow().iter().cloned().filter(|t| avoid(t)).collect();
                if skip_dn && has_double_neg(f) {
                    hit.push("c06-double-negation");
                }
                if !hit.is_empty() {
                    excluded += 1;
                    o = o.label(format!("steered-away:{}", hit[0]));
                    None
                } else {
                    for k in ev.kinds.borrow().iter() {
                        o = o.label(format!("coercion:{k}"));
                    }
                    o = o.label(format!(
                        "result:{}{}",
                        s_class_short(&a[0][0]),
                        if a.len() * a[0].len() > 1 { "-array" } else { "" }
                    ));
                    if count_ops(f) >= 2 && ev.coercions.get() >= 1 {
                        nontrivial = true;
                    }
                    Some(a)
                }
            }
        };
        plans.push(Plan { text: print(f, case.minimal), expected });
    }
    o.excluded += excluded;
    let texts: Vec<String> = plans.iter().map(|p| p.text.clone()).collect();
    let built = panics::catch(|| build_model(&case.cells, &texts, case.minimal));
    let model = match built {
        Err(p) => return o.fail(format!("C06:{}", p.class()), format!("{texts:?}: {}", p.describe())),
        Ok(Err(e)) => return o.fail("C06:setup:input-rejected", format!("{texts:?}: {e}")),
        Ok(Ok(m)) => m,
    };
    if nontrivial {
        let classes: Vec<String> = vals
            .iter()
            .map(|v| v.as_ref().map(|s| class_of(s).to_string()).unwrap_or_else(|_| "?".into()))
            .collect();
        o = o.nontrivial(format!("{texts:?}|{classes:?}|{}", case.minimal));
    }
    // data cells (typed values as intended; formula cells against the reference)
    for (i, c) in case.cells.iter().enumerate() {
        let row = (i / COLS as usize) as i32 + 1;
        let col = (i % COLS as usize) as i32 + 1;
        let got = cell_value(&model, 0, row, col);
        let Ok(exp) = &vals[i] else { continue };
        if same(exp, &got) {
            continue;
        }
        match c {
            CellIn::Formula(e) => {
                let m = Mismatch { at: (0, 0), want: Some(exp.clone()), got: got.clone() };
                let (sig, detail) = localise(&case.cells, &vals, &ctrigs, e, case.minimal, &m);
                return o.fail(
                    sig,
                    format!(
                        "data cell {}{} ={} : reference {} , engine {:?}; {detail}",
                        col_letter(col as u8),
                        row,
                        print(e, case.minimal),
                        s_render(exp),
                        got
                    ),
                );
            }
            _ => {
                return o.fail(
                    "C06:setup:cell-input-not-stored-as-intended",
                    format!("{c:?} at {}{} is stored as {got:?}", col_letter(col as u8), row),
                )
            }
        }
    }
    for (k, p) in plans.iter().enumerate() {
        let Some(exp) = &p.expected else { continue };
        if let Some(m) = compare_block(&model, anchor_row(k), exp) {
            let (sig, detail) = localise(&case.cells, &vals, &ctrigs, &case.formulas[k], case.minimal, &m);
            return o.fail(
                sig,
                format!(
                    "={} : reference {} , engine {:?} at element {:?}; {detail}; cells {:?}",
                    p.text,
                    m.want.as_ref().map(s_render).unwrap_or_else(|| "(no cell)".into()),
                    m.got,
                    m.at,
                    case.cells
                ),
            );
        }
    }
    o
}

pub fn encode(case: &Case) -> Value {
    let c = normalise(case);
    let mut v = serde_json::to_value(&c).unwrap_or(Value::Null);
    if let Some(obj) = v.as_object_mut() {
        let texts: Vec<String> = c.formulas.iter().map(|f| format!("={}", print(f, c.minimal))).collect();
        obj.insert("text".into(), json!(texts));
        let cells: Vec<String> = c
            .cells
            .iter()
            .enumerate()
            .filter_map(|(i, x)| {
                cell_input_text(x, c.minimal).map(|t| {
                    format!("{}{}: {}", col_letter((i % 3) as u8 + 1), i / 3 + 1, t)
                })
            })
            .collect();
        obj.insert("cell_text".into(), json!(cells));
    }
    v
}

// ───────────────────────────── generators ─────────────────────────────

fn pick(items: &[&str]) -> BoxedStrategy<String> {
    let v: Vec<String> = items.iter().map(|s| s.to_string()).collect();
    prop::sample::select(v).boxed()
}

const NUM_LITS: [&str; 30] = [
    "0", "0", "1", "1", "2", "2", "3", "4", "5", "7", "10", "100", "0.5", "0.1", "0.2", "0.3", "2.5", "1.5",
    "2.675", "1.005", "0.285", "1234.5678", "0.001", "1000000", "123456789012345", "1E+15", "1E+20",
    "1E+308", "1E+308", "12",
];
const CELL_NUMS: [&str; 24] = [
    "0", "1", "2", "3", "5", "10", "100", "0.5", "0.1", "0.2", "0.3", "2.5", "-1", "-2.5", "-7", "2.675",
    "1.005", "1234.5678", "0.001", "1000000", "123456789012345", "1E+20", "1E+308", "42",
];
const TEXTS: [&str; 24] = [
    "", "abc", "ABC", "Abd", "b", "5", "5", "1.5", "-3", "007", "12.50", "TRUE", "false", "True", "inf", "NaN",
    "Infinity", "-inf", "hello world", "a\"b", "x1", "10", "9", "n\u{e9}",
];
const ERRS: [&str; 7] = ["#DIV/0!", "#N/A", "#VALUE!", "#NUM!", "#REF!", "#NAME?", "#NULL!"];

fn ref_strategy() -> BoxedStrategy<E> {
    (1..=COLS, 1..=ROWS).prop_map(|(c, r)| E::Ref(c, r)).boxed()
}

fn range_strategy() -> BoxedStrategy<E> {
    (1..=COLS, 1..=COLS, 1..=ROWS, 1..=ROWS)
        .prop_map(|(a, b, c, d)| E::Range(a.min(b), c.min(d), a.max(b), c.max(d)))
        .boxed()
}

fn leaf() -> BoxedStrategy<E> {
    prop_oneof![
        5 => pick(&NUM_LITS).prop_map(E::Num),
        3 => pick(&TEXTS).prop_map(E::Str),
        2 => any::<bool>().prop_map(E::Bool),
        1 => pick(&ERRS).prop_map(E::Err),
        8 => ref_strategy(),
    ]
    .boxed()
}

fn arith_op() -> BoxedStrategy<Op> {
    prop::sample::select(vec![Op::Add, Op::Add, Op::Sub, Op::Mul, Op::Mul, Op::Div, Op::Pow]).boxed()
}

fn cmp_op() -> BoxedStrategy<Op> {
    prop::sample::select(vec![Op::Eq, Op::Ne, Op::Lt, Op::Le, Op::Gt, Op::Ge]).boxed()
}

fn any_op() -> BoxedStrategy<Op> {
    prop_oneof![4 => arith_op(), 2 => Just(Op::Cat), 3 => cmp_op()].boxed()
}

fn agg_fn() -> BoxedStrategy<F> {
    prop::sample::select(vec![
        F::Sum, F::Sum, F::Min, F::Max, F::Count, F::Counta, F::Average, F::And, F::Or, F::Concat,
    ])
    .boxed()
}

fn bx(e: E) -> Box<E> {
    Box::new(e)
}

pub fn scalar_expr(depth: u32) -> BoxedStrategy<E> {
    leaf()
        .prop_recursive(depth, 40, 3, |inner| {
            let agg_arg = prop_oneof![3 => inner.clone(), 2 => range_strategy()];
            let digits = prop_oneof![
                4 => pick(&["0", "1", "2", "3"]).prop_map(E::Num),
                1 => pick(&["1", "2"]).prop_map(|d| E::Neg(bx(E::Num(d)))),
            ];
            prop_oneof![
                3 => inner.clone().prop_map(|x| E::Neg(bx(x))),
                1 => inner.clone().prop_map(|x| if matches!(x, E::Pct(_)) { x } else { E::Pct(bx(x)) }),
                8 => (arith_op(), inner.clone(), inner.clone()).prop_map(|(o, l, r)| E::Bin(o, bx(l), bx(r))),
                4 => (inner.clone(), inner.clone()).prop_map(|(l, r)| E::Bin(Op::Cat, bx(l), bx(r))),
                6 => (cmp_op(), inner.clone(), inner.clone()).prop_map(|(o, l, r)| E::Bin(o, bx(l), bx(r))),
                4 => (inner.clone(), inner.clone(), inner.clone()).prop_map(|(c, t, f)| E::Call(F::If, vec![c, t, f])),
                1 => (inner.clone(), inner.clone()).prop_map(|(c, t)| E::Call(F::If, vec![c, t])),
                3 => (inner.clone(), inner.clone()).prop_map(|(v, f)| E::Call(F::Iferror, vec![v, f])),
                2 => inner.clone().prop_map(|x| E::Call(F::Not, vec![x])),
                2 => inner.clone().prop_map(|x| E::Call(F::Abs, vec![x])),
                3 => (inner.clone(), digits).prop_map(|(x, d)| E::Call(F::Round, vec![x, d])),
                3 => inner.clone().prop_map(|x| E::Call(F::Len, vec![x])),
                2 => inner.clone().prop_map(|x| E::Call(F::Isnumber, vec![x])),
                2 => inner.clone().prop_map(|x| E::Call(F::Istext, vec![x])),
                2 => inner.clone().prop_map(|x| E::Call(F::Isblank, vec![x])),
                14 => (agg_fn(), prop::collection::vec(agg_arg, 1..=3)).prop_map(|(f, a)| E::Call(f, a)),
            ]
        })
        .boxed()
}

/// Formulas in which an operator is applied element-wise to ranges (all of one shape) and
/// scalars; the array is spilled or consumed by an aggregate.
pub fn lifted_expr() -> BoxedStrategy<E> {
    (1u8..=3, 1u8..=2)
        .prop_flat_map(|(h, w)| {
            let rng = (0..=(ROWS - h), 0..=(COLS - w))
                .prop_map(move |(r0, c0)| E::Range(c0 + 1, r0 + 1, c0 + w, r0 + h))
                .boxed();
            let sc = scalar_expr(1);
            let sc2 = sc.clone();
            let arr = rng
                .prop_recursive(2, 8, 2, move |inner| {
                    let sc = sc2.clone();
                    prop_oneof![
                        3 => (any_op(), inner.clone(), sc.clone()).prop_map(|(o, a, s)| E::Bin(o, bx(a), bx(s))),
                        2 => (any_op(), sc.clone(), inner.clone()).prop_map(|(o, s, a)| E::Bin(o, bx(s), bx(a))),
                        2 => (any_op(), inner.clone(), inner.clone()).prop_map(|(o, a, b)| E::Bin(o, bx(a), bx(b))),
                        1 => (inner.clone(), sc.clone()).prop_map(|(a, s)| E::Call(F::Iferror, vec![a, s])),
                    ]
                })
                .boxed();
            (arr.clone(), arr, sc, agg_fn(), any_op(), 0..6u8).prop_map(|(a, b, s, f, o, k)| match k {
                0 | 1 => a,
                2 => E::Call(f, vec![a]),
                3 => E::Call(f, vec![a, s]),
                4 => E::Bin(o, bx(E::Call(f, vec![a])), bx(s)),
                _ => E::Call(F::If, vec![s, a, b]),
            })
        })
        .boxed()
}

fn cell_strategy(depth: u32) -> BoxedStrategy<CellIn> {
    prop_oneof![
        4 => pick(&CELL_NUMS).prop_map(CellIn::Num),
        4 => pick(&TEXTS).prop_map(CellIn::Text),
        2 => any::<bool>().prop_map(CellIn::Bool),
        1 => pick(&ERRS).prop_map(CellIn::Err),
        4 => Just(CellIn::Empty),
        3 => scalar_expr(depth).prop_map(CellIn::Formula),
    ]
    .boxed()
}

pub fn case_strategy(depth: u32, minimal: bool, unrestricted: bool, lifted: bool) -> BoxedStrategy<Case> {
    let formula = if lifted { lifted_expr() } else { scalar_expr(depth) };
    (
        prop::collection::vec(cell_strategy(depth.min(2)), 12),
        prop::collection::vec(formula, 1..=3),
    )
        .prop_map(move |(cells, formulas)| normalise(&Case { cells, formulas, minimal, unrestricted }))
        .boxed()
}

// ───────────────────────────── run / replay ─────────────────────────────

pub fn run(ctx: &Ctx) {
    ctx.set_rule(
        "Cases: 12 data cells A1:C4 (typed numbers, quote-prefixed text incl. numeric-/boolean-looking, \
         booleans, error values, empty, scalar formulas over earlier cells) + 1..3 generated formulas over \
         exactly the core language, depth <=3 (quick) / <=5 (thorough); campaigns: fully parenthesised, \
         minimal parentheses (precedence), operators lifted over ranges, and unrestricted (listed findings \
         not steered away). A case is non-trivial when some compared formula has >=2 operators/functions \
         and R-eval performed >=1 implicit coercion, type-directed skip or met an error operand; distinct \
         by formula texts + data-cell value classes.",
    );
    ctx.assume("reference = documented Excel behaviour in locale/language en; numbers agree within 1e-14 relative (15 significant digits), text/booleans exactly, errors by kind");
    ctx.assume("left out of the generator (Excel behaviour not stated with certainty): text coercion of anything but plain decimals and letter-only strings ('1e3', '$3', '10%', ' 3', dates-as-text, more than 15 digits); negative base with fractional exponent; 0^0; ordering of text containing non-alphanumerics or non-ASCII; numbers that differ only beyond 15 digits in comparisons; catastrophic cancellation in +/- (Excel snaps to 0); subnormal results; General format outside 0, [1e-3,1e15) and >=1e20; precedence between a failed text coercion and an error operand; AVERAGE of direct boolean/text arguments (documentation and behaviour differ); aggregates/IS-functions of a reference handed through IF/IFERROR; ROUND decided by digits beyond the 15th or with non-integer digits; scalar error against an array operand; arrays of different shapes; array literals, unary operators and non-aggregate functions over ranges; characters outside the BMP (LEN counts UTF-16 units)");
    ctx.assume("R-eval yields 'unspecified' for those constructs when they arise dynamically; such formulas are counted under unspecified:<reason> and not compared");
    let depth = ctx.tier.pick(3, 5);
    let n = |q: u64, t: u64| ctx.tier.pick(q, t);
    let chk = |c: &Case| check(ctx, c);
    ctx.campaign("scalar", n(40000, 1000000), || case_strategy(depth, false, false, false), chk, encode);
    ctx.campaign("precedence", n(20000, 500000), || case_strategy(depth, true, false, false), chk, encode);
    ctx.campaign("lifted", n(20000, 500000), || case_strategy(2, false, false, true), chk, encode);
    ctx.campaign("unrestricted", n(7000, 150000), || case_strategy(depth, true, true, false), chk, encode);
    ctx.campaign("unrestricted-lifted", n(4000, 100000), || case_strategy(2, false, true, true), chk, encode);
    let _ = Tier::Quick;
}

pub fn replay(ctx: &Ctx, _campaign: &str, case: &Value) -> Result<Outcome, String> {
    let c: Case = serde_json::from_value(case.clone()).map_err(|e| format!("C06 case: {e}"))?;
    Ok(check(ctx, &c))
}
