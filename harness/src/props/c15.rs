//! C15 — Moving rows or columns is a pure permutation.
//!
//! Case = a two-sheet workbook built through the `UserModel` API (typed values of every input
//! class, scalar position-independent formulas on both sheets, styles on cells / whole rows /
//! whole columns, row heights, column widths, hidden rows/columns, hyperlinks, optionally a CSE
//! array) plus a block move (axis, start, size 1..3, offset +-1..4) executed through
//! `UserModel::move_*_action` or the raw `Model::move_*_action`.
//!
//! Oracle (R-geom): with sigma the permutation "block -> +d', band -> -/+size, rest fixed":
//!   * every cell observation (content kind, content text of non-formulas, typed value, resolved
//!     style, link) at sigma(p) after the move equals the one at p before;
//!   * row / column attributes (hidden, size, band style) at sigma(line) equal those at line;
//!   * the link map is the sigma-image of the old one;
//!   * every formula has the same canonical tree, in which each single-cell reference and each
//!     range lying inside one region points at the sigma-image of its old target (ranges that
//!     straddle regions are not asserted);
//!   * formulas that (transitively) use only such references keep their value, bit for bit.
//! d' is the *effective* offset read off a marker planted in the block; for the raw API d' = d,
//! for the UserModel d' must have the sign of d, |d'| >= |d| and skip hidden lines only
//! (number of visible lines in the band <= |d|).

use std::collections::{BTreeMap, BTreeSet};

use ironcalc_base::{Model, UserModel};
use proptest::prelude::*;
use serde::{Deserialize, Serialize};
use serde_json::Value;

use super::formula_gen::{self as fg, BinOp, FTree};
use super::geom2::{self, CellObs, FormulaInfo, Leaf, LeafCanon, LineObs, Region, Tag};
use crate::engine::ops::{self, Op, A};
use crate::engine::panics;
use crate::engine::snapshot::TV;
use crate::engine::{Ctx, Outcome, Tier};

const ROWS: i32 = 10;
const COLS: i32 = 7;
const EXT_ROWS: i32 = 24;
const EXT_COLS: i32 = 20;
const MARK_COL: i32 = 18;
const MARK_ROW: i32 = 22;
const MARKER: &str = "§marker§";
const SHEETS: [&str; 2] = ["Data", "Aux"];

#[derive(Clone, Debug, Serialize, Deserialize)]
pub struct Case {
    pub language: String,
    pub locale: String,
    /// "user": UserModel::move_*_action; "model": raw Model::move_*_action
    pub api: String,
    /// "rows" | "cols"
    pub axis: String,
    pub sheet: u8,
    pub start: i32,
    pub size: i32,
    pub delta: i32,
    pub setup: Vec<Op>,
    pub tags: Vec<Tag>,
    /// candidate inputs the generator replaced because a listed finding names their class
    #[serde(default)]
    pub excluded: u32,
}

enum Host {
    User(Box<UserModel<'static>>),
    Raw(Box<Model<'static>>),
}

impl Host {
    fn model(&self) -> &Model<'_> {
        match self {
            Host::User(u) => u.get_model(),
            Host::Raw(m) => m,
        }
    }
    fn do_move(&mut self, rows: bool, sheet: u32, start: i32, size: i32, delta: i32) -> Result<(), String> {
        match self {
            Host::User(u) => {
                if rows {
                    u.move_rows_action(sheet, start, size, delta)
                } else {
                    u.move_columns_action(sheet, start, size, delta)
                }
            }
            Host::Raw(m) => {
                let r = if rows { m.move_rows_action(sheet, start, size, delta) } else { m.move_columns_action(sheet, start, size, delta) };
                m.evaluate();
                r
            }
        }
    }
}

struct State {
    cells: BTreeMap<(u32, i32, i32), CellObs>,
    rows: BTreeMap<i32, LineObs>,
    cols: BTreeMap<i32, LineObs>,
    links: BTreeMap<(u32, i32, i32), String>,
    formulas: Vec<FormulaInfo>,
}

fn links_of(model: &Model) -> BTreeMap<(u32, i32, i32), String> {
    let mut m = BTreeMap::new();
    for s in 0..geom2::sheet_count(model) {
        if let Ok(list) = model.get_links_list(s) {
            for l in list {
                m.insert((s, l.row, l.column), format!("{}{}", if l.dynamic { "dynamic:" } else { "" }, serde_json::to_string(&l.link).unwrap_or_default()));
            }
        }
    }
    m
}

fn capture(model: &Model, moved: u32) -> State {
    let mut cells = BTreeMap::new();
    for s in 0..geom2::sheet_count(model) {
        for (r, c) in geom2::cell_positions(model, s) {
            cells.insert((s, r, c), geom2::observe(model, s, r, c));
        }
    }
    for r in 1..=EXT_ROWS {
        for c in 1..=EXT_COLS {
            cells.entry((moved, r, c)).or_insert_with(|| geom2::observe(model, moved, r, c));
        }
    }
    let mut rows = BTreeMap::new();
    let mut lines: BTreeSet<i32> = (1..=EXT_ROWS).collect();
    lines.extend(geom2::row_descriptors(model, moved));
    for r in lines {
        rows.insert(r, geom2::observe_row(model, moved, r));
    }
    let mut cols = BTreeMap::new();
    let mut lines: BTreeSet<i32> = (1..=EXT_COLS).collect();
    lines.extend(geom2::col_descriptor_bounds(model, moved));
    for c in lines {
        cols.insert(c, geom2::observe_col(model, moved, c));
    }
    State { cells, rows, cols, links: links_of(model), formulas: geom2::formulas(model) }
}

fn err_class(e: &str) -> &'static str {
    if e.contains("array") {
        "would-split-array"
    } else if e.contains("boundaries") {
        "out-of-bounds"
    } else {
        "other"
    }
}

pub fn check(case: &Case) -> Outcome {
    let mut o = Outcome::pass();
    o.excluded += case.excluded as u64;
    let rows = case.axis == "rows";
    let axis = if rows { "rows" } else { "cols" };
    let user = case.api != "model";
    o = o.label(format!("axis:{axis}")).label(format!("api:{}", if user { "user" } else { "model" }));
    let mut um = ops::new_user_model(&case.locale, &case.language);
    if let Err(e) = geom2::apply_setup(&mut um, &case.setup) {
        let k = e.split(':').next().unwrap_or("?").to_string();
        return o.label(format!("setup-failed:{k}"));
    }
    let moved = ops::res_sheet(&um, case.sheet);
    let (mr, mc) = if rows { (case.start, MARK_COL) } else { (MARK_ROW, case.start) };
    if um.set_user_input(moved, mr, mc, MARKER).is_err() {
        return o.label("setup-failed:marker");
    }
    let mut host = if user {
        Host::User(Box::new(um))
    } else {
        let bytes = um.to_bytes();
        match Model::from_bytes(&bytes, ops::leak(&case.language)) {
            Ok(mut m) => {
                m.evaluate();
                Host::Raw(Box::new(m))
            }
            Err(_) => return o.label("setup-failed:reload"),
        }
    };
    let before = capture(host.model(), moved);
    let (start, size, d) = (case.start, case.size, case.delta);
    let res = panics::catch(|| host.do_move(rows, moved, start, size, d));
    match res {
        Err(p) => {
            return o.fail(format!("C15:{axis}:{}", geom2::panic_sig(&p)), format!("move panicked: {}", p.describe()));
        }
        Ok(Err(e)) => {
            return o.label(format!("rejected:{}", err_class(&e)));
        }
        Ok(Ok(())) => {}
    }
    let model = host.model();

    // ---- effective offset
    let mut found: Vec<i32> = vec![];
    if rows {
        for r in 1..=EXT_ROWS + 8 {
            if model.get_localized_cell_content(moved, r, MARK_COL).map(|c| c == MARKER).unwrap_or(false) {
                found.push(r);
            }
        }
    } else {
        for c in 1..=EXT_COLS + 8 {
            if model.get_localized_cell_content(moved, MARK_ROW, c).map(|t| t == MARKER).unwrap_or(false) {
                found.push(c);
            }
        }
    }
    if found.len() != 1 {
        return o.fail(
            format!("C15:{axis}:effective-offset:marker-{}", if found.is_empty() { "lost" } else { "duplicated" }),
            format!("marker planted in the first line of the block ({start}) found at {found:?} after moving {size} {axis} from {start} by {d}"),
        );
    }
    let de = found[0] - start;
    let hidden_before = |x: i32| -> bool {
        if rows {
            before.rows.get(&x).map(|l| l.hidden).unwrap_or(false)
        } else {
            before.cols.get(&x).map(|l| l.hidden).unwrap_or(false)
        }
    };
    if !user {
        if de != d {
            return o.fail(format!("C15:{axis}:effective-offset:raw-differs"), format!("Model::move_{axis}_action(start {start}, size {size}, delta {d}) moved the block by {de}"));
        }
    } else {
        let band: Vec<i32> = if de > 0 { (start + size..start + size + de).collect() } else { (start + de..start).collect() };
        let visible = band.iter().filter(|x| !hidden_before(**x)).count() as i32;
        let why = if de == 0 || (de > 0) != (d > 0) {
            Some("wrong-direction")
        } else if de.abs() < d.abs() {
            Some("shorter")
        } else if visible > d.abs() {
            Some("skips-visible-lines")
        } else {
            None
        };
        if let Some(w) = why {
            return o.fail(
                format!("C15:{axis}:effective-offset:{w}"),
                format!("UserModel::move_{axis}_action(start {start}, size {size}, delta {d}) moved the block by {de}; band {band:?} has {visible} visible lines"),
            );
        }
    }
    if de != d {
        o = o.label("offset-lengthened");
    }
    let sig = |x: i32| geom2::sigma(x, start, size, de);
    let sig_inv = |y: i32| -> i32 { geom2::sigma(y, start + de, size, -de) };
    let reg = |x: i32| geom2::region(x, start, size, de);
    let map = |r: i32, c: i32| if rows { (sig(r), c) } else { (r, sig(c)) };
    let along = |r: i32, c: i32| if rows { r } else { c };

    // ---- cells of every sheet
    let mut seen_after: BTreeSet<(u32, i32, i32)> = BTreeSet::new();
    for (&(s, r, c), b) in &before.cells {
        let (r2, c2) = if s == moved { map(r, c) } else { (r, c) };
        seen_after.insert((s, r2, c2));
        let a = geom2::observe(model, s, r2, c2);
        // (the content and value of a CSE array's spill cells are those of its formula)
        let is_formula = b.is_formula() || b.kind == "spill";
        let diff = if is_formula {
            // content and value of formulas are compared below (references are rewritten)
            let mut bb = b.clone();
            bb.content = a.content.clone();
            bb.value = a.value.clone();
            bb.first_diff(&a, false)
        } else {
            b.first_diff(&a, true)
        };
        if let Some(aspect) = diff {
            let class = geom2::class_of(&case.tags, s, r, c);
            let where_ = if s == moved { reg(along(r, c)).name() } else { "other-sheet" };
            return o.fail(
                format!("C15:cell.{aspect}:class={class}"),
                format!(
                    "{axis} move (start {start}, size {size}, offset {de}) on sheet {moved}: cell {} of sheet {s} ({where_}) was {} and is {} at {}",
                    geom2::a1(r, c),
                    b.show(),
                    a.show(),
                    geom2::a1(r2, c2)
                ),
            );
        }
    }
    for s in 0..geom2::sheet_count(model) {
        for (r, c) in geom2::cell_positions(model, s) {
            if seen_after.contains(&(s, r, c)) {
                continue;
            }
            let a = geom2::observe(model, s, r, c);
            if a.kind != "empty" || a.link.is_some() {
                let (pr, pc) = if s == moved && rows { (sig_inv(r), c) } else if s == moved { (r, sig_inv(c)) } else { (r, c) };
                return o.fail(
                    "C15:cell-appeared".to_string(),
                    format!("after the move cell {} of sheet {s} holds {} but its pre-image {} did not exist", geom2::a1(r, c), a.show(), geom2::a1(pr, pc)),
                );
            }
        }
    }

    // ---- line attributes
    for (&r, b) in &before.rows {
        let r2 = if rows { sig(r) } else { r };
        let a = geom2::observe_row(model, moved, r2);
        if *b != a {
            let aspect = if b.hidden != a.hidden { "hidden" } else if b.size != a.size { "size" } else { "style" };
            return o.fail(format!("C15:{axis}:row.{aspect}"), format!("row {r} ({}) was {b:?}; after the move (offset {de}) row {r2} is {a:?}", reg(r).name()));
        }
    }
    for (&c, b) in &before.cols {
        let c2 = if rows { c } else { sig(c) };
        let a = geom2::observe_col(model, moved, c2);
        if *b != a {
            let aspect = if b.hidden != a.hidden { "hidden" } else if b.size != a.size { "size" } else { "style" };
            return o.fail(format!("C15:{axis}:col.{aspect}"), format!("column {c} ({}) was {b:?}; after the move (offset {de}) column {c2} is {a:?}", reg(c).name()));
        }
    }
    // descriptors that exist only now
    for r in geom2::row_descriptors(model, moved) {
        let pre = if rows { sig_inv(r) } else { r };
        if !before.rows.contains_key(&pre) {
            let a = geom2::observe_row(model, moved, r);
            // the pre-image had no descriptor: default attributes
            let d0 = geom2::observe_row(model, moved, geom2::LAST_ROW - 7);
            if a != d0 {
                return o.fail(format!("C15:{axis}:row.appeared"), format!("row {r} has attributes {a:?} but its pre-image {pre} had none"));
            }
        }
    }

    // ---- links
    let mut want: BTreeMap<(u32, i32, i32), String> = BTreeMap::new();
    for (&(s, r, c), l) in &before.links {
        let (r2, c2) = if s == moved { map(r, c) } else { (r, c) };
        want.insert((s, r2, c2), l.clone());
    }
    let got = links_of(model);
    if want != got {
        return o.fail(format!("C15:{axis}:link"), format!("links before {:?}; expected after the move (offset {de}) {:?}; got {:?}", before.links, want, got));
    }

    // ---- formulas
    let follow_good = |l: &Leaf| -> bool {
        if !l.on_sheet(moved) {
            return true;
        }
        if !l.is_range {
            return true;
        }
        let (t, lf, b, r) = l.rect();
        let (a1, a2) = if rows { (t, b) } else { (lf, r) };
        geom2::interval_region_fast(a1, a2, start, size, de).is_some()
    };
    let image = |l: &Leaf| -> Leaf {
        if !l.on_sheet(moved) {
            return l.clone();
        }
        let mut m = l.clone();
        if rows {
            m.r1 = sig(l.r1);
            m.r2 = sig(l.r2);
        } else {
            m.c1 = sig(l.c1);
            m.c2 = sig(l.c2);
        }
        m
    };
    let after_fs = geom2::formulas(model);
    let mut refs_block = false;
    let mut refs_band = false;
    for f in &before.formulas {
        let (r2, c2) = if f.sheet == moved { map(f.row, f.col) } else { (f.row, f.col) };
        let class = geom2::class_of(&case.tags, f.sheet, f.row, f.col);
        let Some(g) = geom2::formula_at(&after_fs, f.sheet, r2, c2) else {
            return o.fail(
                format!("C15:formula-lost:class={class}"),
                format!("formula of {} (sheet {}) is not a formula at {} after the move", geom2::a1(f.row, f.col), f.sheet, geom2::a1(r2, c2)),
            );
        };
        for l in &f.leaves {
            if l.on_sheet(moved) {
                let (t, lf, b, r) = l.rect();
                let (a1, a2) = if rows { (t, b) } else { (lf, r) };
                if a2 - a1 < 64 {
                    for x in a1..=a2 {
                        match reg(x) {
                            Region::Block => refs_block = true,
                            Region::Band => refs_band = true,
                            Region::Rest => {}
                        }
                    }
                }
            }
        }
        if g.leaves.len() != f.leaves.len() {
            return o.fail(
                format!("C15:formula-shape:class={class}"),
                format!(
                    "formula of {} had reference leaves [{}], at {} it has [{}]",
                    geom2::a1(f.row, f.col),
                    geom2::show_leaf_list(&f.leaves),
                    geom2::a1(r2, c2),
                    geom2::show_leaf_list(&g.leaves)
                ),
            );
        }
        for (i, l) in f.leaves.iter().enumerate() {
            if follow_good(l) {
                let want = image(l);
                if want.canon() != g.leaves[i].canon() {
                    let target = if l.on_sheet(moved) {
                        let (t, lf, _, _) = l.rect();
                        reg(if rows { t } else { lf }).name()
                    } else {
                        "other-sheet"
                    };
                    return o.fail(
                        format!("C15:{axis}:ref-follow:{}:target={target}", if l.is_range { "range" } else { "cell" }),
                        format!(
                            "{axis} move (start {start}, size {size}, offset {de}): formula of {} (sheet {}), now at {}: reference {} should have become {} but is {}",
                            geom2::a1(f.row, f.col),
                            f.sheet,
                            geom2::a1(r2, c2),
                            l.canon(),
                            want.canon(),
                            g.leaves[i].canon()
                        ),
                    );
                }
            }
        }
        let want = geom2::canon(&f.node, f.row, f.col, &|_, _| LeafCanon::Any);
        let got = geom2::canon(&g.node, r2, c2, &|_, _| LeafCanon::Any);
        if want != got {
            return o.fail(
                format!("C15:formula-shape:class={class}"),
                format!("formula of {} changed shape at {}:\n  before {want}\n  after  {got}", geom2::a1(f.row, f.col), geom2::a1(r2, c2)),
            );
        }
    }
    // values of formulas that use only asserted references
    let q = geom2::qualifying(&before.formulas, &|f: &FormulaInfo| {
        if f.cse {
            return false;
        }
        let v = &before.cells[&(f.sheet, f.row, f.col)].value;
        if geom2::order_dependent_value(v) {
            return false;
        }
        f.leaves.iter().all(|l| follow_good(l))
    });
    let mut value_checked = 0;
    for (i, f) in before.formulas.iter().enumerate() {
        if !q[i] {
            continue;
        }
        let (r2, c2) = if f.sheet == moved { map(f.row, f.col) } else { (f.row, f.col) };
        let b = &before.cells[&(f.sheet, f.row, f.col)].value;
        let a = geom2::observe(model, f.sheet, r2, c2).value;
        value_checked += 1;
        if *b != a {
            let class = geom2::class_of(&case.tags, f.sheet, f.row, f.col);
            return o.fail(
                format!("C15:formula-value:class={class}"),
                format!(
                    "{axis} move (start {start}, size {size}, offset {de}): formula {} of {} (sheet {}) had value {} and has {} at {} (content {})",
                    before.cells[&(f.sheet, f.row, f.col)].content,
                    geom2::a1(f.row, f.col),
                    f.sheet,
                    b.render(false),
                    a.render(false),
                    geom2::a1(r2, c2),
                    geom2::observe(model, f.sheet, r2, c2).content
                ),
            );
        }
    }
    o = o.label(format!("value-checked-formulas:{}", value_checked.min(9)));

    // ---- non-triviality
    let mut block_data = false;
    let mut band_data = false;
    let mut hidden_in_band = false;
    for (&(s, r, c), b) in &before.cells {
        if s != moved || b.kind == "empty" || b.content == MARKER {
            continue;
        }
        match reg(along(r, c)) {
            Region::Block => block_data = true,
            Region::Band => band_data = true,
            Region::Rest => {}
        }
    }
    for x in 1..=EXT_ROWS.max(EXT_COLS) {
        if reg(x) == Region::Band && hidden_before(x) {
            hidden_in_band = true;
        }
    }
    if hidden_in_band {
        o = o.label("hidden-line-in-band");
    }
    let mut classes: BTreeSet<String> = BTreeSet::new();
    for t in &case.tags {
        classes.insert(t.class.clone());
    }
    for c in classes {
        o = o.label(format!("class:{c}"));
    }
    o = o.label(format!("size:{size}")).label(format!("delta:{}", if d > 0 { "+" } else { "-" }));
    if block_data && band_data && refs_block && refs_band {
        let key = serde_json::to_string(case).unwrap_or_default();
        o = o.nontrivial(key);
    }
    o
}

// ------------------------------------------------------------------------------------------------
// generator

/// Input classes that are replaced by construction (each named by the `avoid` switch of a
/// listed finding: `c15-class:<class>`).
#[derive(Clone, Debug, Default)]
pub struct Avoid {
    pub classes: Vec<String>,
    pub arrays: bool,
    pub url_unlinked: bool,
}

pub const CLASSES: [&str; 19] = [
    "int", "decimal", "text", "bool", "error", "percent", "currency", "date", "time", "sci", "long-number", "quote-prefixed", "padded", "multiline",
    "url", "url-unlinked", "url-relinked", "linked-empty", "date-fraction",
];

pub fn avoid_from(ctx: &Ctx) -> Avoid {
    let mut a = Avoid::default();
    for c in CLASSES {
        if ctx.avoid(&format!("c15-class:{c}")) {
            a.classes.push(c.to_string());
        }
    }
    a.arrays = ctx.avoid("c15-class:cse-array");
    a.url_unlinked = ctx.avoid("c15-class:url-unlinked");
    a
}

fn style_edit() -> impl Strategy<Value = (String, String)> {
    prop_oneof![
        Just(("font.b".to_string(), "true".to_string())),
        Just(("font.i".to_string(), "true".to_string())),
        Just(("fill.color".to_string(), "#FF0000".to_string())),
        Just(("fill.color".to_string(), "#00FF00".to_string())),
        Just(("num_fmt".to_string(), "0.00".to_string())),
        Just(("num_fmt".to_string(), "#,##0".to_string())),
        Just(("alignment.horizontal".to_string(), "center".to_string())),
        Just(("font.color".to_string(), "#123ABC".to_string())),
    ]
}

fn input_op(s: u8, row: i32, col: i32, text: String) -> Op {
    Op::Input { s, row, col, text }
}

pub fn case_strategy(avoid: Avoid) -> BoxedStrategy<Case> {
    (
        geom2::config_strategy(),
        prop_oneof![7 => Just(true), 3 => Just(false)],
        any::<bool>(),
        prop_oneof![4 => Just(0u8), 1 => Just(1u8)],
        1..=8i32,
        1..=3i32,
        prop_oneof![1..=4i32, (1..=4i32).prop_map(|d| -d)],
    )
        .prop_flat_map(move |((language, locale), user, rows, sheet, start, size, delta)| {
            let delta = if start + delta < 1 { -delta } else { delta };
            let avoid = avoid.clone();
            let other = 1 - sheet;
            let style = match fg::Style::new(&language, &locale) {
                Ok(s) => s,
                Err(_) => fg::Style::new("en", "en").expect("en"),
            };
            let style = std::sync::Arc::new(style);
            let profile = geom2::scalar_profile(&SHEETS, 20, ROWS, COLS);
            let mut profile_other = geom2::scalar_profile(&[SHEETS[sheet as usize]], 85, ROWS, COLS);
            profile_other.ref_weight = 20;
            let values = prop::collection::vec((1..=ROWS, 1..=COLS, geom2::value_input(&language, &locale)), 14..28);
            let formulas = prop::collection::vec((1..=ROWS, 1..=COLS, geom2::scalar_formula(&profile, 3)), 4..9);
            let other_formulas = prop::collection::vec((1..=ROWS, 1..=COLS, geom2::scalar_formula(&profile_other, 2)), 1..4);
            let other_values = prop::collection::vec((1..=ROWS, 1..=COLS, geom2::value_input(&language, &locale)), 2..6);
            let styles = prop::collection::vec((0..3u8, 1..=ROWS, 1..=COLS, 1..3i32, 1..3i32, style_edit()), 0..5);
            let heights = prop::collection::vec((1..=ROWS + 2, prop_oneof![Just(10.0), Just(40.0), Just(61.25)]), 0..3);
            let widths = prop::collection::vec((1..=COLS + 2, prop_oneof![Just(20.0), Just(90.0), Just(133.5)]), 0..3);
            let hidden_rows = prop::collection::vec((1..=ROWS + 3, 0..2i32), 0..3);
            let hidden_cols = prop::collection::vec((1..=COLS + 3, 0..2i32), 0..3);
            let links = prop::collection::vec((1..=ROWS, 1..=COLS, ops::gen_link()), 0..4);
            let unlink = prop::collection::vec(any::<bool>(), 4);
            let array = (0..100u32, 1..=ROWS, 1..=COLS, 1..3i32, geom2::scalar_formula(&profile, 2));
            (values, formulas, other_formulas, other_values, styles, heights, widths, hidden_rows, hidden_cols, (links, unlink, array))
                .prop_map(move |(values, formulas, other_formulas, other_values, styles, heights, widths, hidden_rows, hidden_cols, (links, unlink, array))| {
                    let mut setup: Vec<Op> = vec![Op::RenameSheet(0, SHEETS[0].to_string()), Op::NewSheet, Op::RenameSheet(1, SHEETS[1].to_string())];
                    let mut tags: Vec<Tag> = vec![];
                    let mut excluded = 0u32;
                    let mut url_cells: Vec<(u8, i32, i32)> = vec![];
                    let mut put = |setup: &mut Vec<Op>, tags: &mut Vec<Tag>, s: u8, row: i32, col: i32, text: String, class: String| {
                        let (text, class) = if avoid.classes.contains(&class) {
                            excluded += 1;
                            ("7".to_string(), "int".to_string())
                        } else {
                            (text, class)
                        };
                        if class == "url" {
                            url_cells.push((s, row, col));
                        }
                        if let Some(first) = geom2::first_input(&class) {
                            setup.push(input_op(s, row, col, first.to_string()));
                        }
                        setup.push(input_op(s, row, col, text));
                        tags.retain(|t| !(t.s == s && t.row == row && t.col == col));
                        tags.push(Tag { s, row, col, class });
                    };
                    for (r, c, (text, class)) in values {
                        put(&mut setup, &mut tags, sheet, r, c, text, class);
                    }
                    for (r, c, (text, class)) in other_values {
                        put(&mut setup, &mut tags, other, r, c, text, class);
                    }
                    for (r, c, t) in formulas {
                        put(&mut setup, &mut tags, sheet, r, c, format!("={}", fg::print(&t, &style)), "formula".to_string());
                    }
                    for (r, c, t) in other_formulas {
                        put(&mut setup, &mut tags, other, r, c, format!("={}", fg::print(&t, &style)), "formula".to_string());
                    }
                    // by construction: data in the block and in the band, a formula reading each
                    let block_line = start;
                    let band_line = if delta > 0 { start + size } else { start - 1 };
                    let pos = |line: i32, k: i32| if rows { (line, k) } else { (k, line) };
                    let (br, bc) = pos(block_line, 2);
                    let (dr, dc) = pos(band_line, 3);
                    let (dr2, dc2) = pos(band_line, 4);
                    put(&mut setup, &mut tags, sheet, br, bc, "41".to_string(), "int".to_string());
                    put(&mut setup, &mut tags, sheet, dr, dc, "43".to_string(), "int".to_string());
                    let f1 = FTree::bin(BinOp::Add, FTree::cell(bc, br), FTree::num(1));
                    let f2 = FTree::func(
                        "SUM",
                        vec![FTree::Range {
                            sheet: None,
                            a: fg::CellRef { col: dc, row: dr, abs_col: false, abs_row: true },
                            b: fg::CellRef { col: dc2, row: dr2, abs_col: true, abs_row: false },
                        }],
                    );
                    let (fr, fc) = (ROWS, COLS);
                    put(&mut setup, &mut tags, sheet, fr, fc, format!("={}", fg::print(&f1, &style)), "formula".to_string());
                    put(&mut setup, &mut tags, sheet, fr - 1, fc - 1, format!("={}", fg::print(&f2, &style)), "formula".to_string());
                    // CSE array (1 x w), in a minority of cases
                    let (dice, ar, ac, aw, at) = array;
                    if dice < 15 {
                        if avoid.arrays {
                            excluded += 1;
                        } else {
                            setup.push(Op::ArrayFormula { s: sheet, row: ar, col: ac, w: aw, h: 1, text: format!("={}", fg::print(&at, &style)) });
                            tags.retain(|t| !(t.s == sheet && t.row == ar && t.col == ac));
                            tags.push(Tag { s: sheet, row: ar, col: ac, class: "cse-array".to_string() });
                        }
                    }
                    for (kind, r, c, h, w, (path, value)) in styles {
                        let a = match kind {
                            0 => A { s: sheet, row: r, col: c, w, h },
                            1 => A { s: sheet, row: r, col: 1, w: geom2::LAST_COLUMN, h: 1 },
                            _ => A { s: sheet, row: 1, col: c, w: 1, h: geom2::LAST_ROW },
                        };
                        setup.push(Op::UpdateStyle { a, path, value });
                    }
                    for (r, h) in heights {
                        setup.push(Op::RowsHeight { s: sheet, r1: r, r2: r, height: h });
                    }
                    for (c, w) in widths {
                        setup.push(Op::ColsWidth { s: sheet, c1: c, c2: c, width: w });
                    }
                    for (r, c, link) in links {
                        let class = match tags.iter().find(|t| t.s == sheet && t.row == r && t.col == c).map(|t| t.class.clone()) {
                            None => Some("linked-empty"),
                            Some(k) if k == "url" => Some("url-relinked"),
                            _ => None,
                        };
                        if let Some(k) = class {
                            if avoid.classes.iter().any(|a| a == k) {
                                excluded += 1;
                                continue;
                            }
                            tags.retain(|t| !(t.s == sheet && t.row == r && t.col == c));
                            tags.push(Tag { s: sheet, row: r, col: c, class: k.to_string() });
                        }
                        setup.push(Op::LinkSet { s: sheet, row: r, col: c, link, label: None });
                    }
                    for (i, (s, r, c)) in url_cells.iter().enumerate() {
                        let still_url = tags.iter().any(|t| t.s == *s && t.row == *r && t.col == *c && t.class == "url");
                        if still_url && unlink.get(i).copied().unwrap_or(false) {
                            if avoid.url_unlinked {
                                excluded += 1;
                                continue;
                            }
                            setup.push(Op::LinkDelete { s: *s, row: *r, col: *c });
                            for t in tags.iter_mut() {
                                if t.s == *s && t.row == *r && t.col == *c {
                                    t.class = "url-unlinked".to_string();
                                }
                            }
                        }
                    }
                    for (r, n) in hidden_rows {
                        setup.push(Op::RowsHidden { s: sheet, r1: r, r2: r + n, hidden: true });
                    }
                    for (c, n) in hidden_cols {
                        setup.push(Op::ColsHidden { s: sheet, c1: c, c2: c + n, hidden: true });
                    }
                    Case {
                        language: language.clone(),
                        locale: locale.clone(),
                        api: if user { "user".into() } else { "model".into() },
                        axis: if rows { "rows".into() } else { "cols".into() },
                        sheet,
                        start,
                        size,
                        delta,
                        setup,
                        tags,
                        excluded,
                    }
                })
        })
        .boxed()
}

pub fn run(ctx: &Ctx) {
    ctx.set_rule(
        "Two-sheet workbooks (10x7 window: 14-27 typed values of 16 input classes, 4-8 scalar position-independent formulas with \
         single-cell references of every $ shape, cross-sheet references and aggregates over small ranges, styles on cells / whole \
         rows / whole columns, row heights, column widths, hidden rows and columns, hyperlinks, sometimes a CSE array) in every \
         language/locale, and a block move (rows or columns, start 1..8, size 1..3, offset +-1..4) through UserModel (70%) or the \
         raw Model. Non-trivial: the block and the band both hold data and at least one formula references a block line and one a \
         band line; distinct by the whole case.",
    );
    ctx.assume("dynamic-array formulas (spills) are not generated: every generated formula is scalar (C31 covers spills)");
    ctx.assume("ranges that straddle block / band / rest are not asserted (neither their new coordinates nor the values of formulas that read them, transitively)");
    ctx.assume("formula values are asserted only for formulas outside reference cycles (#CIRC!) and other than CSE arrays");
    ctx.assume("the stored width/height of a hidden column/row is not observable and not compared");
    ctx.assume("the UserModel's lengthening of the offset across hidden lines is accepted when it has the sign of the request, is not shorter, and the band holds at most |offset| visible lines");
    let cases = match ctx.tier {
        Tier::Quick => 24000,
        Tier::Thorough => 250000,
    };
    let avoid = avoid_from(ctx);
    let enc = |c: &Case| serde_json::to_value(c).unwrap_or(Value::Null);
    ctx.campaign("moves", cases, || case_strategy(avoid.clone()), check, enc);
}

pub fn replay(_ctx: &Ctx, _campaign: &str, case: &Value) -> Result<Outcome, String> {
    let c: Case = serde_json::from_value(case.clone()).map_err(|e| e.to_string())?;
    Ok(check(&c))
}
