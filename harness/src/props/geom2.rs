//! Shared machinery of C15 (row/column moves), C16 (cut/copy + paste) and C33 (cell-attached
//! metadata): the R-geom position maps of DESIGN.md 2.4, cell observations through the public
//! getters, canonical forms of parsed formulas with their reference leaves resolved to absolute
//! positions, the dependency closure used to decide which formulas must keep their value, and
//! the generators of cell inputs (with an input-class tag per cell) and of scalar,
//! position-independent formulas.
//!
//! Nothing here re-implements engine logic: the position maps are the ones written in the
//! property statements (block / band / rest for a move; cut area -> target for a cut), the
//! formulas compared are always the engine's own parsed `Node`s.

use std::cell::Cell as StdCell;
use std::collections::{BTreeMap, BTreeSet};

use ironcalc_base::expressions::parser::{ArrayNode, Node};
use ironcalc_base::expressions::token::{Error as TokError, OpSum};
use ironcalc_base::language::get_language;
use ironcalc_base::locale::get_locale;
use ironcalc_base::types::{ArrayKind, Cell};
use ironcalc_base::{Model, UserModel};
use proptest::prelude::*;
use serde::{Deserialize, Serialize};

use super::formula_gen::{self as fg, BinOp, CellRef, FTree, SheetRef, UnOp};
use crate::engine::ops::{self, Applied, Op};
use crate::engine::snapshot::{self, TV};

pub const LAST_ROW: i32 = 1_048_576;
pub const LAST_COLUMN: i32 = 16_384;

// ------------------------------------------------------------------------------------------------
// Node helpers

pub fn children(n: &Node) -> Vec<&Node> {
    match n {
        Node::OpRangeKind { left, right }
        | Node::OpConcatenateKind { left, right }
        | Node::OpSumKind { left, right, .. }
        | Node::OpProductKind { left, right, .. }
        | Node::OpPowerKind { left, right }
        | Node::CompareKind { left, right, .. } => vec![left, right],
        Node::FunctionKind { args, .. } | Node::NamedFunctionKind { args, .. } => args.iter().collect(),
        Node::LambdaDefKind { body, .. } => vec![body],
        Node::LambdaCallKind { lambda, args } => {
            let mut v: Vec<&Node> = vec![lambda];
            v.extend(args.iter());
            v
        }
        Node::ImplicitIntersection { child, .. } | Node::SpillRangeOperator { child } => vec![child],
        Node::UnaryKind { right, .. } => vec![right],
        _ => vec![],
    }
}

/// Slot names of the children, in the order of [`children`].
pub fn child_slots(n: &Node) -> Vec<&'static str> {
    match n {
        Node::OpRangeKind { .. }
        | Node::OpConcatenateKind { .. }
        | Node::OpSumKind { .. }
        | Node::OpProductKind { .. }
        | Node::OpPowerKind { .. }
        | Node::CompareKind { .. } => vec!["left", "right"],
        Node::FunctionKind { args, .. } | Node::NamedFunctionKind { args, .. } => args.iter().map(|_| "arg").collect(),
        Node::LambdaDefKind { .. } => vec!["body"],
        Node::LambdaCallKind { args, .. } => {
            let mut v = vec!["callee"];
            v.extend(args.iter().map(|_| "arg"));
            v
        }
        Node::ImplicitIntersection { .. } | Node::SpillRangeOperator { .. } | Node::UnaryKind { .. } => vec!["operand"],
        _ => vec![],
    }
}

/// The same node with its children replaced (in the order of [`children`]).
pub fn with_children(n: &Node, mut new: Vec<Node>) -> Node {
    let mut next = || Box::new(new.remove(0));
    match n {
        Node::OpRangeKind { .. } => {
            let left = next();
            Node::OpRangeKind { left, right: next() }
        }
        Node::OpConcatenateKind { .. } => {
            let left = next();
            Node::OpConcatenateKind { left, right: next() }
        }
        Node::OpSumKind { kind, .. } => {
            let left = next();
            Node::OpSumKind { kind: kind.clone(), left, right: next() }
        }
        Node::OpProductKind { kind, .. } => {
            let left = next();
            Node::OpProductKind { kind: kind.clone(), left, right: next() }
        }
        Node::OpPowerKind { .. } => {
            let left = next();
            Node::OpPowerKind { left, right: next() }
        }
        Node::CompareKind { kind, .. } => {
            let left = next();
            Node::CompareKind { kind: kind.clone(), left, right: next() }
        }
        Node::FunctionKind { kind, .. } => Node::FunctionKind { kind: kind.clone(), args: new },
        Node::NamedFunctionKind { id, name, .. } => Node::NamedFunctionKind { id: *id, name: name.clone(), args: new },
        Node::LambdaDefKind { parameters, .. } => Node::LambdaDefKind { parameters: parameters.clone(), body: next() },
        Node::LambdaCallKind { .. } => {
            let lambda = next();
            Node::LambdaCallKind { lambda, args: new }
        }
        Node::ImplicitIntersection { automatic, .. } => Node::ImplicitIntersection { automatic: *automatic, child: next() },
        Node::SpillRangeOperator { .. } => Node::SpillRangeOperator { child: next() },
        Node::UnaryKind { kind, .. } => Node::UnaryKind { kind: kind.clone(), right: next() },
        other => other.clone(),
    }
}

pub fn kind(n: &Node) -> String {
    use ironcalc_base::expressions::token::OpUnary;
    match n {
        Node::BooleanKind(_) => "Boolean".into(),
        Node::NumberKind(_) => "Number".into(),
        Node::StringKind(_) => "String".into(),
        Node::ReferenceKind { .. } => "Reference".into(),
        Node::RangeKind { .. } => "Range".into(),
        Node::WrongReferenceKind { .. } => "WrongReference".into(),
        Node::WrongRangeKind { .. } => "WrongRange".into(),
        Node::OpRangeKind { .. } => "OpRange".into(),
        Node::OpConcatenateKind { .. } => "OpConcatenate".into(),
        Node::OpSumKind { kind: OpSum::Add, .. } => "OpSum(+)".into(),
        Node::OpSumKind { kind: OpSum::Minus, .. } => "OpSum(-)".into(),
        Node::OpProductKind { .. } => "OpProduct".into(),
        Node::OpPowerKind { .. } => "OpPower".into(),
        Node::FunctionKind { .. } => "Function".into(),
        Node::LambdaDefKind { .. } => "LambdaDef".into(),
        Node::LambdaCallKind { .. } => "LambdaCall".into(),
        Node::NamedFunctionKind { .. } => "NamedFunction".into(),
        Node::ArrayKind(_) => "Array".into(),
        Node::DefinedNameKind(_) => "DefinedName".into(),
        Node::TableNameKind(_) => "TableName".into(),
        Node::NamedVariableKind { .. } => "NamedVariable".into(),
        Node::ImplicitIntersection { .. } => "ImplicitIntersection".into(),
        Node::SpillRangeOperator { .. } => "SpillRange".into(),
        Node::CompareKind { .. } => "Compare".into(),
        Node::UnaryKind { kind: OpUnary::Minus, .. } => "Unary(-)".into(),
        Node::UnaryKind { kind: OpUnary::Percentage, .. } => "Unary(%)".into(),
        Node::ErrorKind(_) => "Error".into(),
        Node::ParseErrorKind { .. } => "ParseError".into(),
        Node::EmptyArgKind => "EmptyArg".into(),
    }
}

pub fn has_parse_error(n: &Node) -> bool {
    let mut b = false;
    crate::engine::nodes::walk(n, &mut |x| {
        if matches!(x, Node::ParseErrorKind { .. }) {
            b = true
        }
    });
    b
}

// ------------------------------------------------------------------------------------------------
// reference leaves resolved to absolute positions

#[derive(Clone, Debug, PartialEq, Eq, PartialOrd, Ord)]
pub enum SheetId {
    Index(u32),
    /// a sheet that does not exist (WrongReference / WrongRange)
    Ghost(String),
}

/// A reference leaf of a formula hosted at a given cell, endpoints as written (not normalised).
#[derive(Clone, Debug, PartialEq)]
pub struct Leaf {
    pub sheet: SheetId,
    /// carries an explicit sheet name
    pub prefixed: bool,
    pub r1: i32,
    pub c1: i32,
    pub r2: i32,
    pub c2: i32,
    /// absolute_row1, absolute_column1, absolute_row2, absolute_column2
    pub abs: [bool; 4],
    pub is_range: bool,
}

impl Leaf {
    /// Normalised rectangle (top, left, bottom, right).
    pub fn rect(&self) -> (i32, i32, i32, i32) {
        (self.r1.min(self.r2), self.c1.min(self.c2), self.r1.max(self.r2), self.c1.max(self.c2))
    }
    pub fn on_grid(&self) -> bool {
        let (t, l, b, r) = self.rect();
        t >= 1 && l >= 1 && b <= LAST_ROW && r <= LAST_COLUMN
    }
    pub fn on_sheet(&self, sheet: u32) -> bool {
        self.sheet == SheetId::Index(sheet)
    }
    pub fn contains(&self, sheet: u32, row: i32, col: i32) -> bool {
        let (t, l, b, r) = self.rect();
        self.on_sheet(sheet) && row >= t && row <= b && col >= l && col <= r
    }
    pub fn intersects(&self, sheet: u32, t: i32, l: i32, b: i32, r: i32) -> bool {
        let (t0, l0, b0, r0) = self.rect();
        self.on_sheet(sheet) && t0 <= b && t <= b0 && l0 <= r && l <= r0
    }
    pub fn inside(&self, sheet: u32, t: i32, l: i32, b: i32, r: i32) -> bool {
        let (t0, l0, b0, r0) = self.rect();
        self.on_sheet(sheet) && t0 >= t && b0 <= b && l0 >= l && r0 <= r
    }
    /// Canonical text: resolved sheet, normalised rectangle and the `$` flags that go with the
    /// normalised corners. The explicit sheet prefix is not part of it (only what it resolves to).
    pub fn canon(&self) -> String {
        let (t, l, b, r) = self.rect();
        let mut f = self.abs;
        if self.r1 > self.r2 {
            f.swap(0, 2);
        }
        if self.c1 > self.c2 {
            f.swap(1, 3);
        }
        let d = |b: bool| if b { "$" } else { "" };
        let sheet = match &self.sheet {
            SheetId::Index(i) => format!("S{i}"),
            SheetId::Ghost(n) => format!("ghost<{}>", n.to_lowercase()),
        };
        if self.is_range {
            format!("{sheet}!{}R{t}{}C{l}:{}R{b}{}C{r}", d(f[0]), d(f[1]), d(f[2]), d(f[3]))
        } else {
            format!("{sheet}!{}R{t}{}C{l}", d(f[0]), d(f[1]))
        }
    }
    pub fn shifted(&self, dr: i32, dc: i32) -> Leaf {
        let mut l = self.clone();
        l.r1 += dr;
        l.r2 += dr;
        l.c1 += dc;
        l.c2 += dc;
        l
    }
}

pub fn leaf_of(n: &Node, row: i32, col: i32) -> Option<Leaf> {
    match n {
        Node::ReferenceKind { sheet_name, sheet_index, absolute_row, absolute_column, row: r, column: c } => {
            let rr = if *absolute_row { *r } else { *r + row };
            let cc = if *absolute_column { *c } else { *c + col };
            Some(Leaf {
                sheet: SheetId::Index(*sheet_index),
                prefixed: sheet_name.is_some(),
                r1: rr,
                c1: cc,
                r2: rr,
                c2: cc,
                abs: [*absolute_row, *absolute_column, *absolute_row, *absolute_column],
                is_range: false,
            })
        }
        Node::RangeKind {
            sheet_name,
            sheet_index,
            absolute_row1,
            absolute_column1,
            row1,
            column1,
            absolute_row2,
            absolute_column2,
            row2,
            column2,
        } => Some(Leaf {
            sheet: SheetId::Index(*sheet_index),
            prefixed: sheet_name.is_some(),
            r1: if *absolute_row1 { *row1 } else { *row1 + row },
            c1: if *absolute_column1 { *column1 } else { *column1 + col },
            r2: if *absolute_row2 { *row2 } else { *row2 + row },
            c2: if *absolute_column2 { *column2 } else { *column2 + col },
            abs: [*absolute_row1, *absolute_column1, *absolute_row2, *absolute_column2],
            is_range: true,
        }),
        Node::WrongReferenceKind { sheet_name, absolute_row, absolute_column, row: r, column: c } => {
            let rr = if *absolute_row { *r } else { *r + row };
            let cc = if *absolute_column { *c } else { *c + col };
            Some(Leaf {
                sheet: SheetId::Ghost(sheet_name.clone().unwrap_or_default()),
                prefixed: true,
                r1: rr,
                c1: cc,
                r2: rr,
                c2: cc,
                abs: [*absolute_row, *absolute_column, *absolute_row, *absolute_column],
                is_range: false,
            })
        }
        Node::WrongRangeKind {
            sheet_name,
            absolute_row1,
            absolute_column1,
            row1,
            column1,
            absolute_row2,
            absolute_column2,
            row2,
            column2,
        } => Some(Leaf {
            sheet: SheetId::Ghost(sheet_name.clone().unwrap_or_default()),
            prefixed: true,
            r1: if *absolute_row1 { *row1 } else { *row1 + row },
            c1: if *absolute_column1 { *column1 } else { *column1 + col },
            r2: if *absolute_row2 { *row2 } else { *row2 + row },
            c2: if *absolute_column2 { *column2 } else { *column2 + col },
            abs: [*absolute_row1, *absolute_column1, *absolute_row2, *absolute_column2],
            is_range: true,
        }),
        _ => None,
    }
}

/// Reference leaves of `n` in pre-order.
pub fn leaves(n: &Node, row: i32, col: i32) -> Vec<Leaf> {
    let mut out = vec![];
    crate::engine::nodes::walk(n, &mut |x| {
        if let Some(l) = leaf_of(x, row, col) {
            out.push(l);
        }
    });
    out
}

fn round15(x: f64) -> f64 {
    if x == 0.0 || !x.is_finite() {
        return x;
    }
    format!("{:.14e}", x).parse::<f64>().unwrap_or(x)
}

/// What a leaf is replaced by in the canonical form.
pub enum LeafCanon {
    /// canonical text of the (expected or actual) leaf
    At(String),
    /// `#REF!`
    RefError,
    /// not asserted: both sides print `?`
    Any,
}

/// Canonical form of a parsed formula hosted at (`row`, `col`): the tree with every reference
/// leaf replaced by what `leaf_fn(index in pre-order, leaf)` says. Identified on purpose (each
/// is a listed C09 finding of the printers or not part of a formula's structure):
/// `a+(b+c)` with `(a+b)+c` (the printers drop these parentheses deliberately), numbers beyond
/// 15 significant digits, the case of unknown function names, variable ids, the `automatic`
/// flag of implicit intersections.
pub fn canon(n: &Node, row: i32, col: i32, leaf_fn: &dyn Fn(usize, &Leaf) -> LeafCanon) -> String {
    let counter = StdCell::new(0usize);
    let t = canon_node(n, row, col, leaf_fn, &counter);
    let s = format!("{t:?}");
    strip_ids(&s)
}

fn strip_ids(s: &str) -> String {
    // "id: Some(12)" -> "id: None"
    let mut out = String::with_capacity(s.len());
    let mut rest = s;
    while let Some(p) = rest.find("id: Some(") {
        out.push_str(&rest[..p]);
        out.push_str("id: None");
        let after = &rest[p + 9..];
        match after.find(')') {
            Some(q) => rest = &after[q + 1..],
            None => {
                rest = "";
            }
        }
    }
    out.push_str(rest);
    out
}

fn canon_node(n: &Node, row: i32, col: i32, leaf_fn: &dyn Fn(usize, &Leaf) -> LeafCanon, counter: &StdCell<usize>) -> Node {
    if let Some(leaf) = leaf_of(n, row, col) {
        let i = counter.get();
        counter.set(i + 1);
        return match leaf_fn(i, &leaf) {
            LeafCanon::At(s) => Node::NamedVariableKind { name: format!("<{s}>"), id: None },
            LeafCanon::RefError => Node::ErrorKind(TokError::REF),
            LeafCanon::Any => Node::NamedVariableKind { name: "<?>".to_string(), id: None },
        };
    }
    let kids: Vec<Node> = children(n).into_iter().map(|c| canon_node(c, row, col, leaf_fn, counter)).collect();
    let m = with_children(n, kids);
    match m {
        Node::NamedVariableKind { name, .. } => Node::NamedVariableKind { name, id: None },
        Node::NamedFunctionKind { name, args, .. } => Node::NamedFunctionKind { id: None, name: name.to_lowercase(), args },
        Node::ImplicitIntersection { child, .. } => Node::ImplicitIntersection { automatic: false, child },
        Node::NumberKind(x) => Node::NumberKind(round15(x)),
        Node::ArrayKind(rows) => Node::ArrayKind(
            rows.into_iter()
                .map(|r| {
                    r.into_iter()
                        .map(|e| match e {
                            ArrayNode::Number(x) => ArrayNode::Number(round15(x)),
                            o => o,
                        })
                        .collect()
                })
                .collect(),
        ),
        Node::OpSumKind { kind: OpSum::Add, left, right } => rotate_sum(left, right),
        // `#REF!:B3`, `#REF!:#REF!`: a range one of whose corners is gone is gone
        Node::OpRangeKind { left, right } if matches!(*left, Node::ErrorKind(TokError::REF)) || matches!(*right, Node::ErrorKind(TokError::REF)) => {
            Node::ErrorKind(TokError::REF)
        }
        other => other,
    }
}

/// `a + (b ± c)` -> `(a + b) ± c`, recursively (children are already canonical).
fn rotate_sum(a: Box<Node>, right: Box<Node>) -> Node {
    match *right {
        Node::OpSumKind { kind, left: b, right: c } => {
            let ab = rotate_sum(a, b);
            Node::OpSumKind { kind, left: Box::new(ab), right: c }
        }
        r => Node::OpSumKind { kind: OpSum::Add, left: a, right: Box::new(r) },
    }
}

// ------------------------------------------------------------------------------------------------
// observations

#[derive(Clone, Debug, PartialEq)]
pub struct CellObs {
    /// empty | number | text | bool | error | formula | cse-array(w,h) | dyn-array | spill
    pub kind: String,
    pub content: String,
    pub value: TV,
    pub style: String,
    pub link: Option<String>,
}

impl CellObs {
    /// First differing aspect in the fixed order kind, content, value, style, link.
    pub fn first_diff(&self, other: &CellObs, compare_content: bool) -> Option<&'static str> {
        if self.kind != other.kind {
            return Some("kind");
        }
        if compare_content && self.content != other.content {
            return Some("content");
        }
        if self.value != other.value {
            return Some("value");
        }
        if self.style != other.style {
            return Some("style");
        }
        if self.link != other.link {
            return Some("link");
        }
        None
    }
    pub fn is_formula(&self) -> bool {
        self.kind == "formula" || self.kind.starts_with("cse-array") || self.kind == "dyn-array"
    }
    pub fn show(&self) -> String {
        format!(
            "[{} content={:?} value={} style={} link={}]",
            self.kind,
            self.content,
            self.value.render(false),
            short_style(&self.style),
            self.link.as_deref().unwrap_or("-")
        )
    }
}

fn short_style(s: &str) -> String {
    // digest: styles are long JSON documents; equality is what matters
    if s == default_style_json() {
        "default".to_string()
    } else {
        format!("#{:08x}", crate::engine::hash64(s) as u32)
    }
}

pub fn default_style_json() -> &'static str {
    use std::sync::OnceLock;
    static S: OnceLock<String> = OnceLock::new();
    S.get_or_init(|| snapshot::style_json(&ironcalc_base::types::Style::default()))
}

pub fn cell_kind(cell: Option<&Cell>) -> String {
    match cell {
        None | Some(Cell::EmptyCell { .. }) => "empty".into(),
        Some(Cell::BooleanCell { .. }) => "bool".into(),
        Some(Cell::NumberCell { .. }) => "number".into(),
        Some(Cell::ErrorCell { .. }) => "error".into(),
        Some(Cell::SharedString { .. }) => "text".into(),
        Some(Cell::CellFormula { .. }) => "formula".into(),
        Some(Cell::ArrayFormula { kind: ArrayKind::Cse, r, .. }) => format!("cse-array({},{})", r.0, r.1),
        Some(Cell::ArrayFormula { kind: ArrayKind::Dynamic, .. }) => "dyn-array".into(),
        Some(Cell::SpillCell { .. }) => "spill".into(),
    }
}

pub fn observe(model: &Model, sheet: u32, row: i32, col: i32) -> CellObs {
    let cell = model.workbook.worksheets.get(sheet as usize).and_then(|ws| ws.cell(row, col));
    CellObs {
        kind: cell_kind(cell),
        content: model.get_localized_cell_content(sheet, row, col).unwrap_or_else(|e| format!("<error {e}>")),
        value: snapshot::typed_value(cell, &model.workbook.shared_strings),
        style: model.get_style_for_cell(sheet, row, col).map(|s| snapshot::style_json(&s)).unwrap_or_else(|e| format!("<error {e}>")),
        link: model.get_cell_link(sheet, row, col).ok().flatten().map(|l| serde_json::to_string(&l).unwrap_or_default()),
    }
}

pub fn cell_positions(model: &Model, sheet: u32) -> BTreeSet<(i32, i32)> {
    let mut s = BTreeSet::new();
    if let Some(ws) = model.workbook.worksheets.get(sheet as usize) {
        for (&r, rd) in &ws.sheet_data {
            for &c in rd.keys() {
                s.insert((r, c));
            }
        }
    }
    s
}

pub fn sheet_count(model: &Model) -> u32 {
    model.workbook.worksheets.len() as u32
}

#[derive(Clone, Debug, PartialEq)]
pub struct LineObs {
    pub hidden: bool,
    /// height / width, 10 significant digits; "-" when hidden (not observable)
    pub size: String,
    pub style: String,
}

pub fn observe_row(model: &Model, sheet: u32, row: i32) -> LineObs {
    let hidden = model.is_row_hidden(sheet, row).unwrap_or(false);
    LineObs {
        hidden,
        size: if hidden { "-".into() } else { snapshot::sig(model.get_row_height(sheet, row).unwrap_or(f64::NAN), 10) },
        style: match model.get_row_style(sheet, row) {
            Ok(Some(s)) => snapshot::style_json(&s),
            _ => "none".into(),
        },
    }
}

pub fn observe_col(model: &Model, sheet: u32, col: i32) -> LineObs {
    let hidden = model.is_column_hidden(sheet, col).unwrap_or(false);
    LineObs {
        hidden,
        size: if hidden { "-".into() } else { snapshot::sig(model.get_column_width(sheet, col).unwrap_or(f64::NAN), 10) },
        style: match model.get_column_style(sheet, col) {
            Ok(Some(s)) if s != ironcalc_base::types::Style::default() => snapshot::style_json(&s),
            _ => "none".into(),
        },
    }
}

pub fn row_descriptors(model: &Model, sheet: u32) -> Vec<i32> {
    model.workbook.worksheets.get(sheet as usize).map(|ws| ws.rows.iter().map(|r| r.r).collect()).unwrap_or_default()
}

pub fn col_descriptor_bounds(model: &Model, sheet: u32) -> Vec<i32> {
    let mut v = vec![];
    if let Some(ws) = model.workbook.worksheets.get(sheet as usize) {
        for c in &ws.cols {
            v.push(c.min);
            v.push(c.max);
            v.push(c.max + 1);
        }
    }
    v.retain(|c| (1..=LAST_COLUMN).contains(c));
    v
}

/// A formula cell with its parsed node (cloned) and resolved leaves.
#[derive(Clone, Debug)]
pub struct FormulaInfo {
    pub sheet: u32,
    pub row: i32,
    pub col: i32,
    pub node: Node,
    pub leaves: Vec<Leaf>,
    /// (width, height) of the array range for CSE / dynamic array formulas, (1, 1) otherwise
    pub extent: (i32, i32),
    pub cse: bool,
}

impl FormulaInfo {
    /// Does the formula's own cell range (anchor plus array range) contain the cell?
    pub fn covers(&self, sheet: u32, row: i32, col: i32) -> bool {
        sheet == self.sheet && row >= self.row && row < self.row + self.extent.1 && col >= self.col && col < self.col + self.extent.0
    }
}

pub fn formulas(model: &Model) -> Vec<FormulaInfo> {
    // (sheet_data is a hash map: sort, the checks must not depend on iteration order)
    let mut cells = crate::engine::nodes::formula_cells(model);
    cells.sort_by_key(|(s, r, c, _)| (*s, *r, *c));
    cells
        .into_iter()
        .map(|(s, r, c, n)| {
            let cell = model.workbook.worksheets.get(s as usize).and_then(|ws| ws.cell(r, c));
            let (extent, cse) = match cell {
                Some(Cell::ArrayFormula { r: ext, kind, .. }) => (*ext, matches!(kind, ArrayKind::Cse)),
                _ => ((1, 1), false),
            };
            FormulaInfo { sheet: s, row: r, col: c, node: n.clone(), leaves: leaves(n, r, c), extent, cse }
        })
        .collect()
}

/// Values whose dependents are not asserted: #CIRC! (cycles are evaluation-order dependent) and
/// #NUM! (a non-finite intermediate result is seen as `inf` by dependents evaluated before the
/// cell is stored and as #NUM! by those evaluated after it: evaluator business, C07 / C08).
pub fn order_dependent_value(v: &TV) -> bool {
    matches!(v, TV::Err(e) if e == "#CIRC!" || e == "#NUM!") || matches!(v, TV::Unevaluated)
}

/// Signature fragment of a panic: the class cut before the position-dependent tail.
pub fn panic_sig(p: &crate::engine::panics::Panic) -> String {
    p.class().chars().take(64).collect()
}

pub fn formula_at<'a>(fs: &'a [FormulaInfo], sheet: u32, row: i32, col: i32) -> Option<&'a FormulaInfo> {
    fs.iter().find(|f| f.sheet == sheet && f.row == row && f.col == col)
}

/// Formulas that must keep their value: `good(f)` holds for the formula itself and for every
/// formula cell it reads, transitively (fixpoint over the "reads a cell inside a leaf" relation).
/// `good` is the property-specific leaf rule; callers also pass `tainted` cells (positions whose
/// content legitimately changes): reading one disqualifies.
pub fn qualifying(fs: &[FormulaInfo], good: &dyn Fn(&FormulaInfo) -> bool) -> Vec<bool> {
    let mut q: Vec<bool> = fs.iter().map(good).collect();
    // formulas on a reference cycle have evaluation-order dependent values (the cycle is not
    // always reported as #CIRC!): never asserted
    let n = fs.len();
    let reads = |i: usize, j: usize| -> bool {
        let (t, l, b, r) = (fs[j].row, fs[j].col, fs[j].row + fs[j].extent.1 - 1, fs[j].col + fs[j].extent.0 - 1);
        fs[i].leaves.iter().any(|lf| lf.intersects(fs[j].sheet, t, l, b, r))
    };
    let mut reach = vec![vec![false; n]; n];
    for (i, row) in reach.iter_mut().enumerate() {
        for (j, x) in row.iter_mut().enumerate() {
            *x = reads(i, j);
        }
    }
    for k in 0..n {
        for i in 0..n {
            if reach[i][k] {
                for j in 0..n {
                    if reach[k][j] {
                        reach[i][j] = true;
                    }
                }
            }
        }
    }
    for i in 0..n {
        if reach[i][i] {
            q[i] = false;
        }
    }
    loop {
        let mut changed = false;
        for i in 0..fs.len() {
            if !q[i] {
                continue;
            }
            for j in 0..fs.len() {
                if q[j] {
                    continue;
                }
                // does i read a cell of j (its anchor or its array range)?
                let (t, l, b, r) = (fs[j].row, fs[j].col, fs[j].row + fs[j].extent.1 - 1, fs[j].col + fs[j].extent.0 - 1);
                if fs[i].leaves.iter().any(|lf| lf.intersects(fs[j].sheet, t, l, b, r)) {
                    q[i] = false;
                    changed = true;
                    break;
                }
            }
        }
        if !changed {
            break;
        }
    }
    q
}

// ------------------------------------------------------------------------------------------------
// R-geom: the move permutation

/// Image of line index `x` when the block [start, start+size) moves by `d` (d != 0).
pub fn sigma(x: i32, start: i32, size: i32, d: i32) -> i32 {
    if x >= start && x < start + size {
        x + d
    } else if d > 0 && x >= start + size && x < start + size + d {
        x - size
    } else if d < 0 && x >= start + d && x < start {
        x + size
    } else {
        x
    }
}

#[derive(Clone, Copy, Debug, PartialEq, Eq)]
pub enum Region {
    Block,
    Band,
    Rest,
}

impl Region {
    pub fn name(&self) -> &'static str {
        match self {
            Region::Block => "block",
            Region::Band => "band",
            Region::Rest => "rest",
        }
    }
}

pub fn region(x: i32, start: i32, size: i32, d: i32) -> Region {
    if x >= start && x < start + size {
        Region::Block
    } else if (d > 0 && x >= start + size && x < start + size + d) || (d < 0 && x >= start + d && x < start) {
        Region::Band
    } else {
        Region::Rest
    }
}

/// Is the interval [a, b] inside one region, and for `Rest` on one side of block+band?
pub fn interval_region(a: i32, b: i32, start: i32, size: i32, d: i32) -> Option<Region> {
    let ra = region(a, start, size, d);
    if (a..=b).any(|x| region(x, start, size, d) != ra) {
        // (intervals are short or huge: a huge one always straddles unless it is all `Rest`)
        return None;
    }
    Some(ra)
}

/// Same as [`interval_region`] without walking the interval (intervals can span the grid).
pub fn interval_region_fast(a: i32, b: i32, start: i32, size: i32, d: i32) -> Option<Region> {
    let (lo, hi) = if d > 0 { (start, start + size + d - 1) } else { (start + d, start + size - 1) };
    if b < lo || a > hi {
        return Some(Region::Rest);
    }
    if a < lo || b > hi {
        return None;
    }
    // inside [lo, hi]: short
    interval_region(a, b, start, size, d)
}

// ------------------------------------------------------------------------------------------------
// building workbooks

/// Applies set-up operations; any failure makes the case invalid (reported by the caller as a
/// label, never as a property failure).
pub fn apply_setup(um: &mut UserModel<'static>, setup: &[Op]) -> Result<(), String> {
    for op in setup {
        match ops::apply(um, op) {
            Applied::Ok | Applied::Flushed(_) => {}
            Applied::Err(e) => return Err(format!("{}: {e}", op.kind())),
            Applied::Panic(p) => return Err(format!("{}: {}", op.kind(), p.class())),
        }
    }
    Ok(())
}

#[derive(Clone, Debug, Serialize, Deserialize, PartialEq)]
pub struct Tag {
    pub s: u8,
    pub row: i32,
    pub col: i32,
    pub class: String,
}

pub fn class_of(tags: &[Tag], sheet: u32, row: i32, col: i32) -> String {
    tags.iter()
        .rev()
        .find(|t| t.s as u32 == sheet && t.row == row && t.col == col)
        .map(|t| t.class.clone())
        .unwrap_or_else(|| "untagged".to_string())
}

// ------------------------------------------------------------------------------------------------
// generators

pub fn config_strategy() -> impl Strategy<Value = (String, String)> {
    // (language, locale), weighted towards en/en
    (
        prop_oneof![5 => Just("en"), 1 => Just("es"), 1 => Just("fr"), 1 => Just("de"), 1 => Just("it")],
        prop_oneof![4 => Just("en"), 1 => Just("en-GB"), 1 => Just("es"), 1 => Just("fr"), 1 => Just("de"), 1 => Just("it")],
    )
        .prop_map(|(a, b)| (a.to_string(), b.to_string()))
}

fn decimal_sep(locale: &str) -> String {
    get_locale(locale).map(|l| l.numbers.symbols.decimal.clone()).unwrap_or_else(|_| ".".into())
}

/// A typed cell input with its input-class tag. Classes (the re-typing classes are what the
/// listed findings of C15/C16 name):
/// int, decimal, text, bool, error, percent, currency, date, time, sci, long-number,
/// quote-prefixed, padded, multiline, url.
pub fn value_input(language: &str, locale: &str) -> BoxedStrategy<(String, String)> {
    let dec = decimal_sep(locale);
    let lang = get_language(language).ok();
    let t = lang.map(|l| l.booleans.r#true.clone()).unwrap_or_else(|| "TRUE".into());
    let f = lang.map(|l| l.booleans.r#false.clone()).unwrap_or_else(|| "FALSE".into());
    let errs: Vec<String> = match lang {
        Some(l) => vec![l.errors.na.clone(), l.errors.div.clone(), l.errors.r#ref.clone(), l.errors.value.clone()],
        None => vec!["#N/A".into()],
    };
    let dec2 = dec.clone();
    let dec3 = dec.clone();
    let tag = |c: &'static str| move |s: String| (s, c.to_string());
    prop_oneof![
        8 => (-1000..1000i32).prop_map(|n| n.to_string()).prop_map(tag("int")),
        4 => (-1000..1000i32, 1..100u32).prop_map(move |(n, d)| format!("{n}{dec}{d:02}")).prop_map(tag("decimal")),
        6 => prop_oneof![
            "[a-z]{1,6}".prop_map(|s| s),
            Just("Hello World".to_string()),
            Just("ñandú €".to_string()),
            Just("a,b;c".to_string()),
            Just("x=1".to_string()),
        ]
        .prop_map(tag("text")),
        3 => prop_oneof![Just(t), Just(f)].prop_map(tag("bool")),
        2 => (0..errs.len()).prop_map(move |i| errs[i].clone()).prop_map(tag("error")),
        1 => Just("10%".to_string()).prop_map(tag("percent")),
        1 => Just("$5".to_string()).prop_map(tag("currency")),
        1 => Just("2024-03-01".to_string()).prop_map(tag("date")),
        1 => Just("12:30".to_string()).prop_map(tag("time")),
        1 => Just("1e3".to_string()).prop_map(tag("sci")),
        1 => prop_oneof![Just("12345678901234567".to_string()), Just(format!("0{dec2}1234567890123456789"))].prop_map(tag("long-number")),
        2 => prop_oneof![
            Just("'123".to_string()),
            Just("'=1+1".to_string()),
            Just("'abc".to_string()),
            Just("'TRUE".to_string()),
            Just("'2024-03-01".to_string()),
        ]
        .prop_map(tag("quote-prefixed")),
        1 => prop_oneof![Just(" 7 ".to_string()), Just("  x".to_string()), Just("x ".to_string())].prop_map(tag("padded")),
        1 => Just("line1\nline2".to_string()).prop_map(tag("multiline")),
        1 => prop_oneof![Just("https://example.com/x".to_string()), Just("mailto:a@b.c".to_string())].prop_map(tag("url")),
        // typed over a date: a fraction in a date-formatted cell (see `first_input`)
        1 => Just(format!("1{dec3}5")).prop_map(tag("date-fraction")),
    ]
    .boxed()
}

/// Some classes need an earlier input in the same cell: `date-fraction` is a number typed into
/// a cell that a typed date has given a date format.
pub fn first_input(class: &str) -> Option<&'static str> {
    match class {
        "date-fraction" => Some("2024-03-01"),
        _ => None,
    }
}

/// Scalar functions of scalars: deterministic, position-independent, never array-valued.
pub const SCALAR_FUNCTIONS: [(&str, usize, usize); 22] = [
    ("ABS", 1, 1),
    ("INT", 1, 1),
    ("ROUND", 2, 2),
    ("MOD", 2, 2),
    ("POWER", 2, 2),
    ("SQRT", 1, 1),
    ("IF", 2, 3),
    ("IFERROR", 2, 2),
    ("AND", 1, 3),
    ("OR", 1, 2),
    ("NOT", 1, 1),
    ("N", 1, 1),
    ("T", 1, 1),
    ("LEN", 1, 1),
    ("LEFT", 1, 2),
    ("CONCATENATE", 1, 3),
    ("VALUE", 1, 1),
    ("ISERROR", 1, 1),
    ("ISNUMBER", 1, 1),
    ("MAX", 1, 2),
    ("MIN", 1, 3),
    ("SUM", 1, 3),
];

pub const AGGREGATES: [&str; 6] = ["SUM", "COUNT", "MAX", "MIN", "AVERAGE", "COUNTA"];

/// Profile of scalar, position-independent formulas: literals, single-cell references of every
/// `$` shape (optionally with a sheet prefix), every binary operator but `:`, unary operators,
/// scalar functions. Ranges are added by [`scalar_formula`] only as arguments of aggregates.
pub fn scalar_profile(sheets: &[&str], sheet_pct: u32, max_row: i32, max_col: i32) -> fg::Profile {
    let mut p = fg::Profile::all();
    p.errors = true;
    p.ranges = false;
    p.full_ranges = false;
    p.full_ranges_only_in_sum = false;
    p.names = vec![];
    p.arrays = false;
    p.functions = SCALAR_FUNCTIONS.to_vec();
    p.empty_args = false;
    p.lambdas = false;
    p.let_ = false;
    p.binary = fg::BIN_OPS.iter().cloned().filter(|o| *o != BinOp::Range).collect();
    p.unary = vec![UnOp::Neg, UnOp::Percent];
    p.at = false;
    p.spill = false;
    p.extra_parens_pct = 10;
    p.spaces_pct = 0;
    p.sheets = sheets.iter().map(|s| s.to_string()).collect();
    p.sheet_pct = sheet_pct;
    p.max_col = max_col;
    p.max_row = max_row;
    p.edge_refs = false;
    p.ref_weight = 14;
    p
}

/// Number literals beyond 15 significant digits lose digits whenever a formula is printed
/// (listed under C09): they are not generated here.
fn short_number(n: &str) -> bool {
    n.chars().filter(|c| c.is_ascii_digit()).count() <= 15 || n.contains(['e', 'E'])
}

fn replace_nums_rec(t: &FTree, aggs: &std::cell::RefCell<Vec<FTree>>) -> FTree {
    if let FTree::Num(n) = t {
        if !short_number(n) {
            return FTree::Num("123".to_string());
        }
        // `.5` is `,5` in decimal-comma locales, which the lexer reads as an argument
        // separator (typed-number recognition is C19's business)
        if n.starts_with('.') {
            return FTree::Num(format!("0{n}"));
        }
    }
    if let FTree::Num(_) = t {
        let mut a = aggs.borrow_mut();
        if !a.is_empty() {
            return a.remove(0);
        }
        return t.clone();
    }
    fg::map_children(t, &|c| replace_nums_rec(c, aggs), &|n| n)
}

/// A scalar formula tree: a tree of [`scalar_profile`] in which up to three number leaves are
/// replaced by an aggregate over a range (`SUM(B2:C4)`, `COUNT(Sheet1!$A$1:A3)`, `INDEX(A1:B3,2,1)`).
pub fn scalar_formula(p: &fg::Profile, depth: u32) -> BoxedStrategy<FTree> {
    let agg = (0..AGGREGATES.len() + 1, fg::sheet_strategy(p), fg::cellref_strategy(p), fg::cellref_strategy(p), 1..3u32, 1..3u32).prop_map(
        |(i, sheet, a, b, x, y)| {
            // keep ranges small: a second corner at most 3 away
            let b = CellRef { col: a.col + (b.col % 3), row: a.row + (b.row % 4), abs_col: b.abs_col, abs_row: b.abs_row };
            let range = FTree::Range { sheet, a, b };
            if i < AGGREGATES.len() {
                FTree::Func { name: AGGREGATES[i].to_string(), args: vec![range] }
            } else {
                FTree::Func { name: "INDEX".to_string(), args: vec![range, FTree::num(x), FTree::num(y)] }
            }
        },
    );
    (fg::tree_strategy(p, depth, 3), prop::collection::vec(agg, 0..=3), any::<bool>())
        .prop_map(|(t, aggs, needed)| {
            let t = if let FTree::Num(_) = t {
                // a bare number is not a formula worth moving: make it arithmetic
                FTree::bin(BinOp::Add, t, FTree::num(1))
            } else {
                t
            };
            let cellvec = std::cell::RefCell::new(aggs);
            let t = replace_nums_rec(&t, &cellvec);
            // blank-insensitive: a formula whose result can be "the referenced empty cell"
            // (`=B1`, `=IF(..,B1)`) is counted or not by COUNT / COUNTA over a range depending on
            // whether it was evaluated before (evaluator business, C05 / C07): never at the root
            let t = no_sum_right_of_plus(&t);
            let t = if passes_blank_through(&t) { FTree::bin(BinOp::Concat, FTree::paren(t), FTree::Str(String::new())) } else { t };
            if needed {
                fg::parenthesize(&t)
            } else {
                t
            }
        })
        .boxed()
}

/// `a+(b+c)` is displayed and stored as `a+b+c` (deliberately; listed under C09), which changes the
/// last bit of a floating-point sum whenever the formula is re-printed: written as `a-(b+c)` here.
fn no_sum_right_of_plus(t: &FTree) -> FTree {
    fn sum_inside(t: &FTree) -> bool {
        match t {
            FTree::Paren(x) | FTree::Ws(x) => sum_inside(x),
            FTree::Bin(BinOp::Add | BinOp::Sub, ..) => true,
            _ => false,
        }
    }
    fg::map_children(t, &|c| no_sum_right_of_plus(c), &|n| match n {
        FTree::Bin(BinOp::Add, l, r) if sum_inside(&r) => FTree::Bin(BinOp::Sub, l, r),
        o => o,
    })
}

fn passes_blank_through(t: &FTree) -> bool {
    match t {
        FTree::Paren(x) | FTree::Ws(x) => passes_blank_through(x),
        FTree::Ref { .. } => true,
        // (`--B1` of an empty B1 is seen as blank by a dependent evaluated before it)
        FTree::Un(..) => true,
        FTree::Func { name, .. } => matches!(name.as_str(), "IF" | "IFERROR" | "CHOOSE" | "INDEX"),
        _ => false,
    }
}

pub fn sheet_ref(name: &str) -> Option<SheetRef> {
    Some(SheetRef { name: name.to_string(), quoted: false })
}

/// A1 text of a cell.
pub fn a1(row: i32, col: i32) -> String {
    format!("{}{}", fg::column_name(col), row)
}

/// Values rendered for messages.
pub fn show_leaf_list(ls: &[Leaf]) -> String {
    ls.iter().map(|l| l.canon()).collect::<Vec<_>>().join(", ")
}

pub type CellMap = BTreeMap<(u32, i32, i32), CellObs>;
