//! C08 — No cell ever stores a non-finite number.
//!
//! Campaigns (all bounded enumerations, sampled deterministically from VERIF_SEED):
//!  * `function-sweep`: every `Function` (hook H1) x arity 0..=4 x arguments from an extreme pool,
//!    each argument as a scalar literal, a reference to a cell holding the value, a two-cell range
//!    or an array literal; placed as a normal formula, a CSE 2x2 array formula
//!    (`set_user_array_formula`) or wrapped so that it is a dynamic-array formula;
//!  * `operators`: + - * / ^ & and the comparisons, unary minus and %, on the same pool/shapes;
//!  * `typed-numbers`: numeric-looking inputs (exponents up to e999, long digit strings, signs,
//!    percent, currency, both separators) typed in every locale;
//!  * `xlsx-values`: `<v>` of a number cell / cached formula value replaced by NaN, inf, 1e999 ...
//!    in a real exported file, then imported.
//!
//! Oracle: after evaluation no `NumberCell`, `FormulaValue::Number`, `SpillValue::Number` anywhere
//! in `model.workbook` is NaN/+-inf; `get_formatted_cell_value` of a numeric cell never shows
//! inf/NaN; the xlsx exported from the workbook has no such numeric `<v>`. Errors, rejected
//! inputs and failed imports are fine. A timeout is never a violation (size-like arguments of
//! allocating functions are capped, see `size_caps`).

use std::io::{Cursor, Read, Write};

use ironcalc::export::save_xlsx_to_writer;
use ironcalc::import::load_from_xlsx_bytes;
use ironcalc_base::language::get_language;
use ironcalc_base::types::{Cell, FormulaValue, SpillValue};
use ironcalc_base::{Function, Model};
use serde::{Deserialize, Serialize};
use serde_json::{json, Value};

use crate::engine::{hash64, panics, Ctx, Outcome};

// ───────────────────────────── pool ─────────────────────────────

struct Item {
    id: &'static str,
    /// as a formula literal ("" = omitted argument)
    lit: &'static str,
    /// typed into a cell (None = the cell stays empty)
    cell: Option<&'static str>,
    /// as an array-literal element
    arr: &'static str,
}

const fn it(id: &'static str, lit: &'static str, cell: Option<&'static str>, arr: &'static str) -> Item {
    Item { id, lit, cell, arr }
}

const POOL: [Item; 27] = [
    it("1E+308", "1E+308", Some("1E+308"), "1E+308"),
    it("-1E+308", "-1E+308", Some("-1E+308"), "-1E+308"),
    it("1E-308", "1E-308", Some("1E-308"), "1E-308"),
    it("-1E-308", "-1E-308", Some("-1E-308"), "-1E-308"),
    it("0", "0", Some("0"), "0"),
    it("-0", "-0", Some("-0"), "-0"),
    it("1", "1", Some("1"), "1"),
    it("-1", "-1", Some("-1"), "-1"),
    it("2^53", "9007199254740992", Some("9007199254740992"), "9007199254740992"),
    it("1E15+0.3", "1000000000000000.3", Some("1000000000000000.3"), "1000000000000000.3"),
    it("empty", "", None, "0"),
    it("TRUE", "TRUE", Some("TRUE"), "TRUE"),
    it("text", "\"text\"", Some("text"), "\"text\""),
    it("text:1E400", "\"1E400\"", Some("'1E400"), "\"1E400\""),
    it("#DIV/0!", "#DIV/0!", Some("#DIV/0!"), "#DIV/0!"),
    it("#N/A", "#N/A", Some("#N/A"), "#N/A"),
    it("#NUM!", "#NUM!", Some("#NUM!"), "#NUM!"),
    // a few ordinary and near-threshold values so that functions get past their domain checks
    it("2", "2", Some("2"), "2"),
    it("0.5", "0.5", Some("0.5"), "0.5"),
    it("-0.5", "-0.5", Some("-0.5"), "-0.5"),
    it("3", "3", Some("3"), "3"),
    it("171", "171", Some("171"), "171"),
    it("710", "710", Some("710"), "710"),
    it("-710", "-710", Some("-710"), "-710"),
    it("1E+100", "1E+100", Some("1E+100"), "1E+100"),
    it("lambda1", "LAMBDA(a,a*1E+308)", Some("1"), "1"),
    it("lambda2", "LAMBDA(a,b,a*b*1E+308)", Some("1"), "1"),
];

fn item(id: &str) -> Option<&'static Item> {
    POOL.iter().find(|i| i.id == id)
}

/// Magnitude of a pool value when it is numeric.
fn magnitude(id: &str) -> Option<f64> {
    // the text "1E400" is cast to a number by most functions (and overflows to infinity)
    item(id)
        .and_then(|i| i.lit.trim_matches('"').parse::<f64>().ok())
        .map(|f| f.abs())
}

#[derive(Clone, Debug, Serialize, Deserialize, PartialEq)]
pub struct Arg {
    /// pool id
    pub v: String,
    /// second element for range / array shapes (pool id)
    pub w: String,
    /// "scalar" | "ref" | "range" | "array"
    pub shape: String,
}

const SHAPES: [&str; 4] = ["scalar", "ref", "range", "array"];
const PLACEMENTS: [&str; 3] = ["normal", "cse", "dynamic"];

/// Render argument number `k` (0-based): formula text + cell inputs (row, column, text).
fn render_arg(a: &Arg, k: usize, cells: &mut Vec<(i32, i32, String)>) -> Result<String, String> {
    let v = item(&a.v).ok_or_else(|| format!("unknown pool id {}", a.v))?;
    let w = item(&a.w).ok_or_else(|| format!("unknown pool id {}", a.w))?;
    let col = k as i32 + 1;
    let letter = (b'A' + k as u8) as char;
    Ok(match a.shape.as_str() {
        "scalar" => v.lit.to_string(),
        "ref" => {
            if let Some(t) = v.cell {
                cells.push((1, col, t.to_string()));
            }
            format!("{letter}1")
        }
        "range" => {
            if let Some(t) = v.cell {
                cells.push((1, col, t.to_string()));
            }
            if let Some(t) = w.cell {
                cells.push((2, col, t.to_string()));
            }
            format!("{letter}1:{letter}2")
        }
        "array" => format!("{{{},{}}}", v.arr, w.arr),
        other => return Err(format!("unknown shape {other}")),
    })
}

// ───────────────────────────── oracle ─────────────────────────────

#[derive(Debug)]
struct Bad {
    sheet: usize,
    row: i32,
    col: i32,
    kind: &'static str,
    value: f64,
}

fn scan(model: &Model) -> (Vec<Bad>, usize) {
    let mut bad = vec![];
    let mut numeric_formula_cells = 0;
    for (si, ws) in model.workbook.worksheets.iter().enumerate() {
        let mut rows: Vec<&i32> = ws.sheet_data.keys().collect();
        rows.sort();
        for r in rows {
            let mut cols: Vec<(&i32, &Cell)> = ws.sheet_data[r].iter().collect();
            cols.sort_by_key(|(c, _)| **c);
            for (c, cell) in cols {
                let (kind, v) = match cell {
                    Cell::NumberCell { v, .. } => ("NumberCell", *v),
                    Cell::CellFormula { v: FormulaValue::Number(v), .. } => {
                        numeric_formula_cells += 1;
                        ("CellFormula", *v)
                    }
                    Cell::ArrayFormula { v: FormulaValue::Number(v), .. } => {
                        numeric_formula_cells += 1;
                        ("ArrayFormula-anchor", *v)
                    }
                    Cell::SpillCell { v: SpillValue::Number(v), .. } => {
                        numeric_formula_cells += 1;
                        ("SpillCell", *v)
                    }
                    _ => continue,
                };
                if !v.is_finite() {
                    bad.push(Bad { sheet: si, row: *r, col: *c, kind, value: v });
                }
            }
        }
    }
    (bad, numeric_formula_cells)
}

fn shows_non_finite(text: &str) -> bool {
    let l = text.to_lowercase();
    l.contains("inf") || l.contains("nan")
}

/// Formatted text of numeric cells must not show inf/NaN.
fn scan_formatted(model: &Model) -> Option<(&'static str, String)> {
    for (si, ws) in model.workbook.worksheets.iter().enumerate() {
        let mut rows: Vec<&i32> = ws.sheet_data.keys().collect();
        rows.sort();
        for r in rows {
            let mut cols: Vec<(&i32, &Cell)> = ws.sheet_data[r].iter().collect();
            cols.sort_by_key(|(c, _)| **c);
            for (c, cell) in cols {
                let numeric = matches!(
                    cell,
                    Cell::NumberCell { .. }
                        | Cell::CellFormula { v: FormulaValue::Number(_), .. }
                        | Cell::ArrayFormula { v: FormulaValue::Number(_), .. }
                        | Cell::SpillCell { v: SpillValue::Number(_), .. }
                );
                if !numeric {
                    continue;
                }
                if let Ok(t) = model.get_formatted_cell_value(si as u32, *r, *c) {
                    if shows_non_finite(&t) {
                        let v = match cell {
                            Cell::NumberCell { v, .. } => *v,
                            Cell::CellFormula { v: FormulaValue::Number(v), .. } => *v,
                            Cell::ArrayFormula { v: FormulaValue::Number(v), .. } => *v,
                            Cell::SpillCell { v: SpillValue::Number(v), .. } => *v,
                            _ => 0.0,
                        };
                        let class = if v != 0.0 && v.abs() < f64::MIN_POSITIVE { "subnormal" } else { "normal" };
                        return Some((
                            class,
                            format!("sheet {si} row {r} column {c} holds the finite number {v:e} and displays {t:?}"),
                        ));
                    }
                }
            }
        }
    }
    None
}

/// Numeric `<v>` contents of every worksheet part of an xlsx that are not finite numbers.
fn xlsx_non_finite_values(bytes: &[u8]) -> Result<Vec<String>, String> {
    let mut zip = zip::ZipArchive::new(Cursor::new(bytes)).map_err(|e| format!("{e}"))?;
    let mut out = vec![];
    for i in 0..zip.len() {
        let mut f = zip.by_index(i).map_err(|e| format!("{e}"))?;
        let name = f.name().to_string();
        if !name.starts_with("xl/worksheets/") || !name.ends_with(".xml") {
            continue;
        }
        let mut xml = String::new();
        f.read_to_string(&mut xml).map_err(|e| format!("{e}"))?;
        let mut rest = xml.as_str();
        while let Some(p) = rest.find("<c ") {
            rest = &rest[p..];
            let Some(end_tag) = rest.find('>') else { break };
            let attrs = &rest[..end_tag];
            let Some(close) = rest.find("</c>") else {
                rest = &rest[end_tag..];
                continue;
            };
            if attrs.ends_with('/') || close < end_tag {
                rest = &rest[end_tag..];
                continue;
            }
            let body = &rest[end_tag + 1..close];
            let numeric = !attrs.contains("t=\"") || attrs.contains("t=\"n\"");
            if numeric {
                if let (Some(a), Some(b)) = (body.find("<v>"), body.find("</v>")) {
                    if a + 3 <= b {
                        let v = body[a + 3..b].trim();
                        let finite = v.parse::<f64>().map(|f| f.is_finite()).unwrap_or(false);
                        if !finite {
                            out.push(format!("{name}: <c {}> has <v>{v}</v>", attrs.trim_start_matches("<c ")));
                        }
                    }
                }
            }
            rest = &rest[close + 4..];
        }
    }
    Ok(out)
}

fn export_bytes(model: &Model) -> Result<Vec<u8>, String> {
    match panics::catch(|| save_xlsx_to_writer(model, Cursor::new(Vec::new()))) {
        Ok(r) => r.map(|c| c.into_inner()).map_err(|e| format!("{e:?}")),
        // a panicking exporter is not this property's concern (C24/C11)
        Err(p) => Err(format!("export panicked: {}", p.class())),
    }
}

/// Shared verdict over an evaluated model. `sig_of(kind)` names the root-cause class.
fn verdict(
    mut o: Outcome,
    model: &Model,
    key: &str,
    what: &str,
    check_export: bool,
    sig_of: &dyn Fn(&str) -> String,
) -> Outcome {
    let (bad, numeric) = scan(model);
    if numeric > 0 {
        o = o.nontrivial(key.to_string()).label("produced-number");
    }
    if let Some(b) = bad.first() {
        let shown = model
            .get_formatted_cell_value(b.sheet as u32, b.row, b.col)
            .unwrap_or_else(|e| format!("<{e}>"));
        let exported = match export_bytes(model).and_then(|x| xlsx_non_finite_values(&x)) {
            Ok(v) => format!("{v:?}"),
            Err(e) => format!("<export failed: {e}>"),
        };
        return o.fail(
            sig_of(b.kind),
            format!(
                "{what}: {} at row {} column {} holds {}; displayed as {shown:?}; exported xlsx: {exported}",
                b.kind, b.row, b.col, b.value
            ),
        );
    }
    if let Some((class, d)) = scan_formatted(model) {
        return o.fail(format!("C08:finite-{class}-number-is-displayed-as-inf-or-nan"), format!("{what}: {d}"));
    }
    if check_export {
        o = o.label("export-checked");
        match export_bytes(model) {
            Ok(bytes) => match xlsx_non_finite_values(&bytes) {
                Ok(v) if !v.is_empty() => {
                    return o.fail("C08:exported-xlsx-has-non-finite-v", format!("{what}: {v:?}"));
                }
                _ => {}
            },
            Err(e) if e.starts_with("export panicked") => o = o.label(e),
            Err(_) => o = o.label("export-failed"),
        }
    }
    o
}

// ───────────────────────────── formula cases ─────────────────────────────

#[derive(Clone, Debug, Serialize, Deserialize, PartialEq)]
pub struct FormulaCase {
    /// English function name, or an operator: "+", "-", "*", "/", "^", "&", "=", "<>", "<", "<=",
    /// ">", ">=", "neg", "%"
    pub head: String,
    pub args: Vec<Arg>,
    /// "normal" | "cse" | "dynamic"
    pub placement: String,
}

const BINARY_OPS: [&str; 12] = ["+", "-", "*", "/", "^", "&", "=", "<>", "<", "<=", ">", ">="];
const UNARY_OPS: [&str; 2] = ["neg", "%"];

/// (function, 0-based argument position) -> cap on the magnitude of a numeric argument. Built
/// empirically (VERIF_C08_PROBE=1 runs every case under a watchdog and prints the slow ones):
/// these arguments are counts / sizes that the function allocates or iterates over.
const ALL: usize = usize::MAX;

fn size_caps() -> Vec<(&'static str, usize, f64)> {
    vec![
        // allocate rows x columns / repeat count
        ("REPT", 1, 100.0),
        ("SEQUENCE", 0, 100.0),
        ("SEQUENCE", 1, 100.0),
        ("RANDARRAY", 0, 100.0),
        ("RANDARRAY", 1, 100.0),
        ("MAKEARRAY", ALL, 100.0),
        ("EXPAND", 1, 100.0),
        ("EXPAND", 2, 100.0),
        ("MUNIT", 0, 100.0),
        ("WRAPCOLS", 1, 100.0),
        ("WRAPROWS", 1, 100.0),
        ("BASE", 2, 100.0),
        // loop as many times as the argument says
        ("FACT", 0, 1000.0),
        ("FACTDOUBLE", 0, 1000.0),
        ("MULTINOMIAL", ALL, 1000.0),
    ]
}

/// Functions that iterate (series, continued fractions, root finding, loops over a count): with
/// two or more arguments, numeric magnitudes above 1000 make some of them run for minutes
/// (seen: TINV(0.5,1E+100), T.INV.2T(0.5,"1E400"), COMBINA(TRUE,"1E400"), BESSELK(x,"1E400"),
/// POISSON(2^53,2^53,..), DB(..,..,1E+100,1E+100)). Their one-argument calls keep the whole pool.
const ITERATIVE_FAMILIES: [&str; 38] = [
    "DB", "SYD", "AMOR", "COUP", "PMT", "FV", "PV", "PDURATION", "RRI", "ACCRINT", "TBILL", "ODD",
    "INV", "DIST", "TEST", "BESSEL", "COMBIN", "PERMUT", "POISSON", "BINOM", "HYPGEOM", "GAMMA", "BETA",
    "CRITBINOM", "CONFIDENCE", "IRR", "RATE", "YIELD", "PRICE", "DURATION", "CUM", "NPER", "ERF", "SERIESSUM",
    "GCD", "LCM", "WORKDAY", "NETWORKDAYS",
];

fn is_iterative(name: &str) -> bool {
    ITERATIVE_FAMILIES.iter().any(|f| name.contains(f))
}

/// Apply the caps: a numeric argument above the cap is replaced by "3". Returns the number of
/// replaced arguments.
fn apply_caps(case: &mut FormulaCase) -> u64 {
    let mut n = 0;
    if case.args.len() >= 2 && is_iterative(&case.head) {
        for a in case.args.iter_mut() {
            for id in [&mut a.v, &mut a.w] {
                if magnitude(id).map(|m| m > 1000.0).unwrap_or(false) {
                    *id = "3".to_string();
                    n += 1;
                }
            }
        }
    }
    for (f, pos, cap) in size_caps() {
        if case.head != f {
            continue;
        }
        for (k, a) in case.args.iter_mut().enumerate() {
            if pos != ALL && pos != k {
                continue;
            }
            for id in [&mut a.v, &mut a.w] {
                if magnitude(id).map(|m| m > cap).unwrap_or(false) {
                    *id = "3".to_string();
                    n += 1;
                }
            }
        }
    }
    n
}

const ANCHOR: (i32, i32) = (1, 6);

fn formula_text(case: &FormulaCase, cells: &mut Vec<(i32, i32, String)>) -> Result<String, String> {
    let mut parts = vec![];
    for (k, a) in case.args.iter().enumerate() {
        parts.push(render_arg(a, k, cells)?);
    }
    let expr = if BINARY_OPS.contains(&case.head.as_str()) {
        if parts.len() != 2 {
            return Err("binary operator needs two arguments".into());
        }
        let p = |s: &String| if s.is_empty() { "0".to_string() } else { format!("({s})") };
        format!("{}{}{}", p(&parts[0]), case.head, p(&parts[1]))
    } else if case.head == "neg" || case.head == "%" {
        if parts.len() != 1 {
            return Err("unary operator needs one argument".into());
        }
        let x = if parts[0].is_empty() { "0".to_string() } else { format!("({})", parts[0]) };
        if case.head == "neg" {
            format!("-{x}")
        } else {
            format!("{x}%")
        }
    } else {
        format!("{}({})", case.head, parts.join(","))
    };
    Ok(match case.placement.as_str() {
        "dynamic" => format!("IF({{TRUE,TRUE;TRUE,TRUE}},{expr})"),
        _ => expr,
    })
}

fn run_formula(case: &FormulaCase) -> Result<(Model<'static>, String), String> {
    let mut cells = vec![];
    let text = formula_text(case, &mut cells)?;
    let mut model = Model::new_empty("c08", "en", "UTC", "en")?;
    for (r, c, t) in &cells {
        model.set_user_input(0, *r, *c, t.clone())?;
    }
    let f = format!("={text}");
    if case.placement == "cse" {
        model.set_user_array_formula(0, ANCHOR.0, ANCHOR.1, 2, 2, &f)?;
    } else {
        model.set_user_input(0, ANCHOR.0, ANCHOR.1, f)?;
    }
    model.evaluate();
    Ok((model, text))
}

fn formula_signature(case: &FormulaCase, kind: &str) -> String {
    match kind {
        // the scalar path has a guard; if a scalar formula cell holds a non-finite number the
        // guard itself is gone or bypassed
        "CellFormula" => format!("C08:scalar-formula-stores-non-finite:{}", case.head),
        "NumberCell" => "C08:typed-pool-value-stored-non-finite".to_string(),
        _ => "C08:array-result-bypasses-finite-guard".to_string(),
    }
}

const WATCHDOG_S: u64 = 300;

static IN_FLIGHT: std::sync::Mutex<Vec<(std::thread::ThreadId, std::time::Instant, String)>> =
    std::sync::Mutex::new(Vec::new());

/// Started once by `run`: if some formula case has been running for more than WATCHDOG_S the
/// run is *inconclusive* (exit code 2, case printed) -- never a violation. The remedy is a new
/// entry in `size_caps`.
fn start_watchdog() {
    let _ = std::thread::Builder::new().name("c08-watchdog".into()).spawn(|| loop {
        std::thread::sleep(std::time::Duration::from_secs(1));
        let stuck: Option<String> = IN_FLIGHT.lock().ok().and_then(|v| {
            v.iter().find(|(_, t, _)| t.elapsed().as_secs() >= WATCHDOG_S).map(|(_, _, c)| c.clone())
        });
        if let Some(c) = stuck {
            eprintln!("C08 watchdog: INCONCLUSIVE, a case has been running for more than {WATCHDOG_S} s (add a size cap): {c}");
            std::process::exit(2);
        }
    });
}

pub fn check_formula(case: &FormulaCase) -> Outcome {
    let id = std::thread::current().id();
    if let Ok(mut v) = IN_FLIGHT.lock() {
        v.retain(|(i, _, _)| *i != id);
        v.push((id, std::time::Instant::now(), serde_json::to_string(case).unwrap_or_default()));
    }
    let t0 = std::time::Instant::now();
    let o = check_formula_inner(case);
    if t0.elapsed().as_millis() > 1500 && std::env::var("VERIF_SLOW").is_ok() {
        eprintln!("SLOW {} ms: {}", t0.elapsed().as_millis(), serde_json::to_string(case).unwrap_or_default());
    }
    if let Ok(mut v) = IN_FLIGHT.lock() {
        v.retain(|(i, _, _)| *i != id);
    }
    o
}

fn check_formula_inner(case: &FormulaCase) -> Outcome {
    let mut case = case.clone();
    let mut o = Outcome::pass();
    o.excluded += apply_caps(&mut case);
    let shapes: Vec<&str> = case.args.iter().map(|a| a.shape.as_str()).collect();
    o = o
        .label(format!("placement:{}", case.placement))
        .label(format!("arity:{}", case.args.len()));
    for s in &shapes {
        o = o.label(format!("shape:{s}"));
    }
    let key = serde_json::to_string(&case).unwrap_or_default();
    match panics::catch(|| run_formula(&case)) {
        // a panic is C11's business, not this property's; count it
        Err(p) => o.label(format!("panicked:{}", p.class())),
        Ok(Err(_)) => o.label("input-rejected"),
        Ok(Ok((model, text))) => {
            let export = hash64(&key) % 16 == 0;
            let c = case.clone();
            verdict(o, &model, &key, &format!("={text} [{}]", case.placement), export, &move |k| {
                formula_signature(&c, k)
            })
        }
    }
}

// ───────────────────────────── typed numbers ─────────────────────────────

#[derive(Clone, Debug, Serialize, Deserialize, PartialEq)]
pub struct TypedCase {
    pub locale: String,
    pub input: String,
}

fn typed_inputs(decimal: char, group: char, currency: &str) -> Vec<String> {
    let d = decimal;
    let mut v: Vec<String> = vec![];
    for m in ["1", "9", "1{d}5", "0{d}1", "17976931348623157", "1{d}7976931348623157", "1{d}7976931348623159"] {
        let m = m.replace("{d}", &d.to_string());
        for e in ["e308", "e309", "E309", "e+309", "e400", "e999", "E+999", "e9999", "e-999", "e-400"] {
            v.push(format!("{m}{e}"));
            v.push(format!("-{m}{e}"));
        }
    }
    let long9 = "9".repeat(400);
    let long1 = format!("1{}", "0".repeat(309));
    v.push(long9.clone());
    v.push(format!("-{long9}"));
    v.push(long1.clone());
    v.push(format!("{long1}{d}5"));
    v.push(format!("{long9}e10"));
    v.push(format!("0{d}{}1e400", "0".repeat(50)));
    // grouped
    v.push(format!("1{group}{}", vec!["000"; 110].join(&group.to_string())));
    // percent, currency, parentheses
    for base in ["1e999", "1e309", "9e308"] {
        v.push(format!("{base}%"));
        v.push(format!("${base}"));
        v.push(format!("-${base}"));
        v.push(format!("{currency}{base}"));
        v.push(format!("{base}{currency}"));
        v.push(format!("{base} {currency}"));
        v.push(format!("({base})"));
    }
    v.push(format!("{long1}%"));
    v.push(format!("${long1}"));
    for w in ["inf", "-inf", "Infinity", "NaN", "nan", "+inf", "1e", "infinity%", "$inf", "$NaN"] {
        v.push(w.to_string());
    }
    v
}

pub fn check_typed(case: &TypedCase) -> Outcome {
    let o = Outcome::pass().label(format!("locale:{}", case.locale));
    let key = format!("{}|{}", case.locale, case.input);
    let r = panics::catch(|| -> Result<Model<'static>, String> {
        let locale: &'static str = Box::leak(case.locale.clone().into_boxed_str());
        let mut model = Model::new_empty("c08", locale, "UTC", "en")?;
        model.set_user_input(0, 1, 1, case.input.clone())?;
        // the same text as a formula operand and as an argument that is cast to a number
        model.set_user_input(0, 2, 1, "=A1*1".to_string())?;
        model.set_user_input(0, 3, 1, "=SUM(A1:A1)".to_string())?;
        model.evaluate();
        Ok(model)
    });
    match r {
        Err(p) => o.label(format!("panicked:{}", p.class())),
        Ok(Err(_)) => o.label("input-rejected"),
        Ok(Ok(model)) => {
            let stored_number = matches!(
                model.workbook.worksheets[0].sheet_data.get(&1).and_then(|r| r.get(&1)),
                Some(Cell::NumberCell { .. })
            );
            let mut o = o.label(if stored_number { "stored-as-number" } else { "stored-as-other" });
            if stored_number {
                o = o.nontrivial(key.clone());
            }
            let input = case.input.clone();
            verdict(o, &model, &key, &format!("typed {input:?} in locale {}", case.locale), true, &|k| match k {
                "NumberCell" => "C08:typed-number-stored-non-finite".to_string(),
                other => format!("C08:typed-number:{other}-non-finite"),
            })
        }
    }
}

// ───────────────────────────── xlsx values ─────────────────────────────

#[derive(Clone, Debug, Serialize, Deserialize, PartialEq)]
pub struct XlsxCase {
    /// "number-cell" | "formula-cache"
    pub target: String,
    /// text put between <v> and </v>
    pub value: String,
}

const LONG_NINES: &str = "999999999999999999999999999999999999999999999999999999999999999999999999999999999999999999999999999999999999999999999999999999999999999999999999999999999999999999999999999999999999999999999999999999999999999999999999999999999999999999999999999999999999999999999999999999999999999999999999999999999999999999999999999999999999999999";

const XLSX_VALUES: [&str; 16] = [
    "NaN", "nan", "inf", "-inf", "+inf", "Infinity", "-Infinity", "infinity", "1e999", "-1e999", "1E+999",
    "1e309", "1.8e308", "INF", "-INF", LONG_NINES,
];

/// A real exported file with A1 = 1.25 (number) and B1 = `=A1*2` (cached 2.5).
fn template_xlsx() -> Result<Vec<u8>, String> {
    let mut model = Model::new_empty("c08", "en", "UTC", "en")?;
    model.set_user_input(0, 1, 1, "1.25".to_string())?;
    model.set_user_input(0, 1, 2, "=A1*2".to_string())?;
    model.evaluate();
    export_bytes(&model)
}

/// Copy the zip, replacing `from` by `to` once in every worksheet part. Returns (bytes, replaced).
fn patch_xlsx(bytes: &[u8], from: &str, to: &str) -> Result<(Vec<u8>, usize), String> {
    let mut zin = zip::ZipArchive::new(Cursor::new(bytes)).map_err(|e| format!("{e}"))?;
    let mut zout = zip::ZipWriter::new(Cursor::new(Vec::new()));
    let opts = zip::write::FileOptions::default().compression_method(zip::CompressionMethod::Stored);
    let mut replaced = 0;
    for i in 0..zin.len() {
        let mut f = zin.by_index(i).map_err(|e| format!("{e}"))?;
        let name = f.name().to_string();
        let mut data = vec![];
        f.read_to_end(&mut data).map_err(|e| format!("{e}"))?;
        if name.starts_with("xl/worksheets/") && name.ends_with(".xml") {
            let text = String::from_utf8(data).map_err(|e| format!("{e}"))?;
            if text.contains(from) {
                replaced += 1;
            }
            data = text.replacen(from, to, 1).into_bytes();
        }
        zout.start_file(name, opts).map_err(|e| format!("{e}"))?;
        zout.write_all(&data).map_err(|e| format!("{e}"))?;
    }
    let out = zout.finish().map_err(|e| format!("{e}"))?.into_inner();
    Ok((out, replaced))
}

pub fn check_xlsx(case: &XlsxCase) -> Outcome {
    let o = Outcome::pass().label(format!("target:{}", case.target));
    let key = format!("{}|{}", case.target, case.value);
    let from = match case.target.as_str() {
        "number-cell" => "<v>1.25</v>",
        _ => "<v>2.5</v>",
    };
    let r = panics::catch(|| -> Result<Result<Model<'static>, String>, String> {
        let template = template_xlsx()?;
        let (bytes, replaced) = patch_xlsx(&template, from, &format!("<v>{}</v>", case.value))?;
        if replaced != 1 {
            return Err(format!("template has {replaced} occurrences of {from}"));
        }
        Ok(match load_from_xlsx_bytes(&bytes, "c08", "en", "UTC") {
            Err(e) => Err(format!("{e:?}")),
            Ok(wb) => Model::from_workbook(wb, "en"),
        })
    });
    match r {
        Err(p) => o.label(format!("panicked:{}", p.class())),
        Ok(Err(e)) => o.fail("C08:xlsx:template-not-patchable", e),
        Ok(Ok(Err(_))) => o.label("import-rejected"),
        Ok(Ok(Ok(mut model))) => {
            let sig = move |_k: &str| "C08:xlsx-import:non-finite-v-is-stored".to_string();
            let what = format!("xlsx with <v>{}</v> in the {}", case.value, case.target);
            // as loaded
            let o = verdict(o.nontrivial(key.clone()).label("imported"), &model, &key, &format!("{what} (as loaded)"), true, &sig);
            if o.failed() {
                return o;
            }
            let ev = panics::catch(|| model.evaluate());
            if ev.is_err() {
                return o.label("evaluate-panicked");
            }
            verdict(o, &model, &key, &format!("{what} (after evaluate)"), true, &sig)
        }
    }
}

// ───────────────────────────── case lists ─────────────────────────────

struct Lcg(u64);
impl Lcg {
    fn next(&mut self) -> u64 {
        self.0 = self.0.wrapping_mul(6364136223846793005).wrapping_add(1442695040888963407);
        self.0 >> 33
    }
    fn below(&mut self, n: usize) -> usize {
        (self.next() % n as u64) as usize
    }
}

const BENIGN: [&str; 8] = ["1", "2", "3", "0.5", "TRUE", "171", "710", "1E+100"];

fn random_arg(rng: &mut Lcg, benign: bool) -> Arg {
    let v = if benign {
        BENIGN[rng.below(BENIGN.len())].to_string()
    } else {
        POOL[rng.below(POOL.len())].id.to_string()
    };
    let w = POOL[rng.below(POOL.len())].id.to_string();
    // scalars and references are the common way to call a function
    let shape = match rng.below(8) {
        0..=2 => "scalar",
        3 | 4 => "ref",
        5 => "range",
        _ => "array",
    };
    Arg { v, w, shape: shape.to_string() }
}

fn function_names() -> Vec<String> {
    let en = get_language("en").expect("language en");
    Function::into_iter().map(|f| f.to_localized_name(en)).collect()
}

/// `per_arity[k]` sampled tuples of arity k (k = 1..=4) per function, plus arity 0 and the full
/// pool x shapes at arity 1.
fn sweep_cases(seed: u64, names: &[String], per_arity: [usize; 5]) -> Vec<FormulaCase> {
    let mut out = vec![];
    for (fi, name) in names.iter().enumerate() {
        let mut rng = Lcg(hash64(&(seed, "sweep", fi as u64)));
        let mut n = 0usize;
        let mut push = |args: Vec<Arg>, out: &mut Vec<FormulaCase>| {
            let placement = PLACEMENTS[n % 3].to_string();
            n += 1;
            out.push(FormulaCase { head: name.clone(), args, placement });
        };
        for _ in 0..3 {
            push(vec![], &mut out);
        }
        for (pi, p) in POOL.iter().enumerate() {
            for (si, s) in SHAPES.iter().enumerate() {
                // full pool as scalars; the other shapes on a rotating third of the pool
                if si > 0 && (pi + si + fi) % 3 != 0 {
                    continue;
                }
                let w = POOL[(pi + 7) % POOL.len()].id.to_string();
                push(vec![Arg { v: p.id.to_string(), w, shape: s.to_string() }], &mut out);
            }
        }
        for (arity, count) in per_arity.iter().enumerate().skip(2) {
            for i in 0..*count {
                // every other tuple: one extreme argument among ordinary ones, so that the
                // function gets past its argument checks
                let hot = if i % 2 == 0 { rng.below(arity) } else { usize::MAX };
                let args = (0..arity).map(|k| random_arg(&mut rng, hot != usize::MAX && k != hot)).collect();
                push(args, &mut out);
            }
        }
        let _ = per_arity[1];
    }
    out
}

fn operator_cases(seed: u64, per_op: usize) -> Vec<FormulaCase> {
    let mut out = vec![];
    let mut rng = Lcg(hash64(&(seed, "operators")));
    for op in UNARY_OPS {
        for p in POOL.iter() {
            for (si, s) in SHAPES.iter().enumerate() {
                for (k, pl) in PLACEMENTS.iter().enumerate() {
                    if (si + k) % 2 == 1 && *s != "array" {
                        continue;
                    }
                    let w = POOL[rng.below(POOL.len())].id.to_string();
                    out.push(FormulaCase {
                        head: op.to_string(),
                        args: vec![Arg { v: p.id.to_string(), w, shape: s.to_string() }],
                        placement: pl.to_string(),
                    });
                }
            }
        }
    }
    for op in BINARY_OPS {
        // every ordered pair of pool values as scalars in a normal formula ...
        for a in POOL.iter() {
            for b in POOL.iter() {
                out.push(FormulaCase {
                    head: op.to_string(),
                    args: vec![
                        Arg { v: a.id.into(), w: a.id.into(), shape: "scalar".into() },
                        Arg { v: b.id.into(), w: b.id.into(), shape: "scalar".into() },
                    ],
                    placement: "normal".into(),
                });
            }
        }
        // ... and sampled shapes / placements
        for i in 0..per_op {
            let l = random_arg(&mut rng, false);
            let r = random_arg(&mut rng, false);
            out.push(FormulaCase {
                head: op.to_string(),
                args: vec![l, r],
                placement: PLACEMENTS[i % 3].to_string(),
            });
        }
    }
    out
}

fn typed_cases() -> Vec<TypedCase> {
    let mut locales = ironcalc_base::get_supported_locales();
    locales.sort();
    let mut out = vec![];
    for l in locales {
        let (d, g, cur) = match ironcalc_base::locale::get_locale(&l) {
            Ok(loc) => (
                loc.numbers.symbols.decimal.chars().next().unwrap_or('.'),
                loc.numbers.symbols.group.chars().next().unwrap_or(','),
                loc.currency.symbol.clone(),
            ),
            Err(_) => ('.', ',', "$".to_string()),
        };
        for input in typed_inputs(d, g, &cur) {
            out.push(TypedCase { locale: l.clone(), input });
        }
    }
    out
}

fn xlsx_cases() -> Vec<XlsxCase> {
    let mut out = vec![];
    for t in ["number-cell", "formula-cache"] {
        for v in XLSX_VALUES {
            out.push(XlsxCase { target: t.to_string(), value: v.to_string() });
        }
    }
    out
}

// ───────────────────────────── probe (development aid) ─────────────────────────────

/// VERIF_C08_PROBE=1: run every sweep case in its own thread with a 5 s watchdog and print the
/// slow / hanging ones. Used to build `size_caps`.
fn probe(cases: Vec<FormulaCase>) {
    use std::sync::mpsc;
    let (tx, rx) = mpsc::channel::<(usize, u128)>();
    let cases = std::sync::Arc::new(cases);
    let next = std::sync::Arc::new(std::sync::atomic::AtomicUsize::new(0));
    let workers = 8;
    for _ in 0..workers {
        let tx = tx.clone();
        let cases = cases.clone();
        let next = next.clone();
        std::thread::Builder::new()
            .stack_size(256 << 20)
            .spawn(move || loop {
                let i = next.fetch_add(1, std::sync::atomic::Ordering::SeqCst);
                if i >= cases.len() {
                    break;
                }
                let t = std::time::Instant::now();
                let started = std::sync::Arc::new(std::sync::atomic::AtomicBool::new(false));
                let done = started.clone();
                let c = cases[i].clone();
                if std::env::var("VERIF_C08_TRACE").is_ok() {
                    eprintln!("RUN {}", serde_json::to_string(&c).unwrap_or_default());
                }
                let h = std::thread::Builder::new()
                    .stack_size(256 << 20)
                    .spawn(move || {
                        let _ = check_formula_inner(&c);
                        done.store(true, std::sync::atomic::Ordering::SeqCst);
                    })
                    .expect("spawn");
                loop {
                    if started.load(std::sync::atomic::Ordering::SeqCst) || h.is_finished() {
                        let _ = h.join();
                        break;
                    }
                    if t.elapsed().as_secs() >= 5 {
                        println!("PROBE hang(>5s): {}", serde_json::to_string(&cases[i]).unwrap_or_default());
                        break; // leak the thread
                    }
                    std::thread::sleep(std::time::Duration::from_millis(2));
                }
                let _ = tx.send((i, t.elapsed().as_millis()));
            })
            .expect("spawn");
    }
    drop(tx);
    let mut slow = vec![];
    for (i, ms) in rx {
        if ms > 200 {
            slow.push((ms, i));
        }
    }
    slow.sort();
    for (ms, i) in slow.iter().rev().take(60) {
        println!("PROBE slow {ms} ms: {}", serde_json::to_string(&cases[*i]).unwrap_or_default());
    }
}

// ───────────────────────────── run / replay ─────────────────────────────

pub fn run(ctx: &Ctx) {
    ctx.set_rule(
        "function-sweep: every Function (H1) x arity 0..=4: arity 0 (x3 placements), arity 1 over the whole \
         extreme pool as scalars and a rotating third of it as reference/range/array literal, sampled tuples at \
         arity 2..4 (shapes scalar/ref/range/array), placements normal / CSE 2x2 / dynamic rotating per \
         function; operators: all ordered pool pairs as scalars + sampled shapes/placements; typed-numbers: \
         overflowing / long / decorated numeric inputs in every supported locale; xlsx-values: non-finite <v> \
         in a number cell and in a cached formula value. Non-trivial: the case stored at least one numeric \
         formula/spill value (formula cases), was stored as a number (typed) or was imported (xlsx); distinct \
         by the whole case.",
    );
    ctx.assume("'every built-in function' is what Function::into_iter() yields (hook H1)");
    ctx.assume("a panic, a rejected input or a failed import is not this property's concern (counted under panicked:/input-rejected/import-rejected)");
    ctx.assume("the exported xlsx is inspected for every typed/xlsx case, for every failing case and for 1/16 of the formula cases (by hash of the case); a workbook without non-finite stored numbers cannot export one");
    ctx.note(format!(
        "size-like arguments capped (a numeric magnitude above the cap, incl. the text \"1E400\" = inf, is replaced by 3 and counted in excluded_by_construction); function/argument position (0-based) or ALL/cap: {:?}; and, in calls with >= 2 arguments, every magnitude above 1000 for functions whose name contains one of {:?}",
        size_caps()
            .iter()
            .map(|(f, p, c)| format!("{f}/{}/{c}", if *p == ALL { "ALL".to_string() } else { p.to_string() }))
            .collect::<Vec<_>>(),
        ITERATIVE_FAMILIES
    ));
    let names = function_names();
    ctx.note(format!("functions enumerated: {}", names.len()));
    if names.is_empty() {
        ctx.note("generator health: no function found");
        return;
    }
    let per_arity = ctx.tier.pick([0, 0, 14, 10, 8], [0, 0, 600, 500, 400]);
    let sweep = sweep_cases(ctx.seed, &names, per_arity);
    if std::env::var("VERIF_C08_TIME").is_ok() {
        let t = std::time::Instant::now();
        for _ in 0..200 {
            let _ = Model::new_empty("c08", "en", "UTC", "en");
        }
        println!("200 x Model::new_empty: {:?}", t.elapsed());
        let t = std::time::Instant::now();
        for c in sweep.iter().take(500) {
            let _ = check_formula_inner(c);
        }
        println!("500 x check_formula_inner: {:?}", t.elapsed());
        let t = std::time::Instant::now();
        for c in sweep.iter().take(500) {
            let _ = check_formula(c);
        }
        println!("500 x check_formula (watchdog thread): {:?}", t.elapsed());
        return;
    }
    if std::env::var("VERIF_C08_PROBE").is_ok() {
        probe(sweep);
        return;
    }
    let enc = |c: &FormulaCase| serde_json::to_value(c).unwrap_or(Value::Null);
    start_watchdog();
    ctx.enumerate("function-sweep", &sweep, check_formula, enc);
    let ops = operator_cases(ctx.seed, ctx.tier.pick(150, 6000));
    ctx.enumerate("operators", &ops, check_formula, enc);
    let typed = typed_cases();
    ctx.enumerate("typed-numbers", &typed, check_typed, |c| json!({"locale": c.locale, "input": c.input}));
    let xl = xlsx_cases();
    ctx.enumerate("xlsx-values", &xl, check_xlsx, |c| json!({"target": c.target, "value": c.value}));
}

pub fn replay(_ctx: &Ctx, campaign: &str, case: &Value) -> Result<Outcome, String> {
    match campaign {
        "function-sweep" | "operators" => {
            let c: FormulaCase = serde_json::from_value(case.clone()).map_err(|e| format!("C08 case: {e}"))?;
            Ok(check_formula(&c))
        }
        "typed-numbers" => {
            let c: TypedCase = serde_json::from_value(case.clone()).map_err(|e| format!("C08 case: {e}"))?;
            Ok(check_typed(&c))
        }
        "xlsx-values" => {
            let c: XlsxCase = serde_json::from_value(case.clone()).map_err(|e| format!("C08 case: {e}"))?;
            Ok(check_xlsx(&c))
        }
        _ => Err(format!("unknown campaign {campaign}")),
    }
}
