//! C03 — Replicas that apply the diff queue converge.
//!
//! Model A runs a generated history (with undo/redo); a replica B loaded from A's initial bytes
//! applies every batch flushed from A's outgoing queue. The flush schedule is part of the
//! generated case (Flush markers; or after every step; always once at the end). After every
//! flush+apply the observable snapshots (minus per-user view state) must be equal and
//! `apply_external_diffs` must return Ok.

use proptest::prelude::*;
use serde::{Deserialize, Serialize};
use serde_json::Value;

use crate::engine::ops::{self, Applied, Op, Profile};
use crate::engine::snapshot::{self, SnapOpts, Snapshot};
use crate::engine::{Ctx, Outcome, Tier};

#[derive(Clone, Debug, Serialize, Deserialize)]
pub struct Case {
    pub profile: Profile,
    /// executed on A before the replica is created (A0 = state after the prefix)
    pub prefix: Vec<Op>,
    pub ops: Vec<Op>,
    pub flush_every_step: bool,
}

fn op_strategy(profile: Profile) -> impl Strategy<Value = Op> {
    prop_oneof![
        10 => ops::recording_op(profile),
        1 => ops::context_op().prop_filter("language fixed; evaluation not paused", |o| {
            !matches!(o, Op::SetLanguage(_) | Op::Pause | Op::Resume)
        }),
        3 => Just(Op::Undo),
        2 => Just(Op::Redo),
        2 => Just(Op::Flush),
    ]
}

pub fn case_strategy(prefix: usize, len: usize, profile: Profile) -> BoxedStrategy<Case> {
    (
        prop::collection::vec(ops::recording_op(profile), 0..=prefix),
        prop::collection::vec(op_strategy(profile), 1..=len),
        prop::bool::weighted(0.25),
    )
        .prop_map(move |(prefix, ops, flush_every_step)| {
            // half of the cases start from the rich setup (decided by the generated flag's parity
            // with the prefix length, to keep the tuple small)
            let rich = (prefix.len() + ops.len()) % 2 == 0;
            let mut all = if rich { ops::rich_setup(profile) } else { vec![] };
            all.extend(prefix);
            Case { profile, prefix: all, ops, flush_every_step }
        })
        .boxed()
}

fn snap(um: &ironcalc_base::UserModel<'static>) -> Snapshot {
    snapshot::snapshot(um.get_model(), SnapOpts::default())
}

/// Listed finding: conditional-format diffs carry the dxf index allocated in the origin's style
/// pool, which the replica never receives. Rules with a differential format are not sent while
/// that finding is listed.
fn replica_guard(op: &Op, profile: Profile) -> Option<&'static str> {
    use ironcalc_base::cf_types::CfRuleInput;
    if profile == Profile::Full {
        return None;
    }
    match op {
        Op::CfAdd { rule, .. } | Op::CfUpdate { rule, .. } => match **rule {
            CfRuleInput::ColorScale { .. } => None,
            _ => Some("cf-rule-with-dxf-to-replica"),
        },
        _ => None,
    }
}

enum Run {
    /// label explaining why the case ended without a verdict
    Inconclusive(String),
    Ok { batches: usize, undo_batches: usize, changed: bool, excluded: u64, labels: Vec<String> },
    /// (op index of the flush that exposed it, kinds in the batch, kind of failure, detail)
    Fail { at: usize, batch: Vec<String>, what: String, detail: String },
}

fn execute(case: &Case, flush_every_step: bool) -> Run {
    let mut a = ops::new_user_model("en", "en");
    let mut excluded = 0u64;
    let mut labels = vec![];
    for op in &case.prefix {
        if ops::guard(&a, op, case.profile).is_some() {
            excluded += 1;
            continue;
        }
        let before = a.verif_history_len();
        let s0 = snap(&a);
        match ops::apply(&mut a, op) {
            Applied::Panic(p) => return Run::Inconclusive(format!("op-panicked:{}:{}", op.kind(), p.class())),
            Applied::Err(_) => {
                if a.verif_history_len() != before || snap(&a) != s0 {
                    return Run::Inconclusive(format!("tainted-by-failed-op:{}", op.kind()));
                }
            }
            _ => {}
        }
    }
    let _ = a.flush_send_queue();
    let mut b = match ironcalc_base::UserModel::from_bytes(&a.to_bytes(), "en") {
        Ok(b) => b,
        Err(e) => return Run::Inconclusive(format!("replica-load-failed:{e}")),
    };
    let initial = snap(&a);
    if snap(&b) != initial {
        // binary round trip is C26's business
        return Run::Inconclusive("blocked-by-C26:replica-differs-at-start".into());
    }
    let mut batch: Vec<String> = vec![];
    let mut batches = 0usize;
    let mut undo_batches = 0usize;
    let mut batch_has_undo = false;
    let n = case.ops.len();
    for (i, op) in case.ops.iter().enumerate() {
        let mut flush_now = flush_every_step;
        match op {
            Op::Flush => flush_now = true,
            Op::Undo | Op::Redo => {
                let before = a.verif_history_len();
                match ops::apply(&mut a, op) {
                    Applied::Panic(p) => return Run::Inconclusive(format!("blocked-by-C01:{}-panicked:{}", op.kind(), p.class())),
                    Applied::Err(_) => return Run::Inconclusive(format!("blocked-by-C01:{}-returned-error", op.kind())),
                    _ => {}
                }
                if a.verif_history_len() != before {
                    batch.push(op.kind().to_string());
                    if matches!(op, Op::Undo) {
                        batch_has_undo = true;
                    }
                }
            }
            _ => {
                if let Some(reason) = ops::guard(&a, op, case.profile).or_else(|| replica_guard(op, case.profile)) {
                    excluded += 1;
                    labels.push(format!("guard-skipped:{reason}"));
                } else {
                    let before = a.verif_history_len();
                    let s0 = snap(&a);
                    match ops::apply(&mut a, op) {
                        Applied::Panic(p) => return Run::Inconclusive(format!("op-panicked:{}:{}", op.kind(), p.class())),
                        Applied::Err(_) => {
                            if a.verif_history_len() != before || snap(&a) != s0 {
                                return Run::Inconclusive(format!("tainted-by-failed-op:{}", op.kind()));
                            }
                        }
                        _ => {
                            if a.verif_history_len().0 == before.0 + 1 {
                                batch.push(op.kind().to_string());
                                labels.push(format!("recorded:{}", op.kind()));
                            } else if snap(&a) != s0 {
                                return Run::Inconclusive(format!("unrecorded-change:{}", op.kind()));
                            }
                        }
                    }
                }
            }
        }
        if flush_now || i + 1 == n {
            let bytes = a.flush_send_queue();
            if batch.is_empty() {
                continue;
            }
            batches += 1;
            if batch_has_undo {
                undo_batches += 1;
            }
            let r = crate::engine::panics::catch(|| b.apply_external_diffs(&bytes));
            match r {
                Err(p) => {
                    return Run::Fail { at: i, batch, what: p.class(), detail: format!("apply_external_diffs panicked: {}", p.describe()) }
                }
                Ok(Err(e)) => {
                    return Run::Fail { at: i, batch, what: "apply-returns-error".into(), detail: format!("apply_external_diffs returned Err({e})") }
                }
                Ok(Ok(())) => {}
            }
            let sa = snap(&a);
            let sb = snap(&b);
            if sa != sb {
                let d = snapshot::diff(&sa, &sb);
                return Run::Fail {
                    at: i,
                    batch,
                    what: snapshot::aspects(&d).join(","),
                    detail: snapshot::describe(&d, "origin", "replica", 12),
                };
            }
            batch.clear();
            batch_has_undo = false;
        }
    }
    let changed = snap(&a) != initial;
    Run::Ok { batches, undo_batches, changed, excluded, labels }
}

pub fn check(case: &Case) -> Outcome {
    let mut o = Outcome::pass();
    match execute(case, case.flush_every_step) {
        Run::Inconclusive(l) => o.label(l),
        Run::Ok { batches, undo_batches, changed, excluded, labels } => {
            o.excluded = excluded;
            for l in labels {
                o = o.label(l);
            }
            o = o.label(if case.flush_every_step { "schedule:every-step" } else { "schedule:generated" });
            if batches >= 2 && undo_batches >= 1 && changed {
                o = o.nontrivial(serde_json::to_string(case).unwrap_or_default());
            }
            o
        }
        Run::Fail { at, batch, what, detail } => {
            // attribute: re-run with a flush after every step to find the first diverging op
            let culprit = if case.flush_every_step {
                batch.last().cloned().unwrap_or_default()
            } else {
                match execute(case, true) {
                    Run::Fail { batch: b2, .. } => b2.last().cloned().unwrap_or_default(),
                    _ => "schedule-dependent".to_string(),
                }
            };
            o.fail(
                format!("C03:diverge({culprit}):{what}"),
                format!("batch {batch:?} flushed after op #{at}: {detail}"),
            )
        }
    }
}

pub fn run(ctx: &Ctx) {
    ctx.set_rule(
        "Model A: generated prefix (defines the initial bytes A0), then a generated history over \
         {operations, undo, redo, Flush markers}; replica B = from_bytes(A0). Schedules: Flush markers \
         at generated points, or after every step (25% of cases), plus one final flush. After every \
         non-empty batch: apply_external_diffs returns Ok and snapshot(A) == snapshot(B) without view \
         state. A failing case is re-run with a flush after every step to name the first diverging \
         operation. Non-trivial: >=2 non-empty batches, >=1 containing an undo, final state != initial; \
         distinct by the case.",
    );
    ctx.assume("per-user view state (selection, scroll, window) is not compared");
    ctx.assume("restricted generator profiles while findings are listed (see C01)");
    let restricted = ctx.avoid("restricted-profiles");
    let (cases, prefix, len) = match ctx.tier {
        Tier::Quick => (40000, 5, 14),
        Tier::Thorough => (1000000, 10, 50),
    };
    let enc = |c: &Case| serde_json::to_value(c).unwrap_or(Value::Null);
    if restricted {
        ctx.campaign("replica-edit", cases / 2, || case_strategy(prefix, len, Profile::Edit), check, enc);
        ctx.campaign("replica-structural", cases / 2, || case_strategy(prefix, len, Profile::Structural), check, enc);
    } else {
        ctx.campaign("replica", cases, || case_strategy(prefix, len, Profile::Full), check, enc);
    }
}

pub fn replay(_ctx: &Ctx, _campaign: &str, case: &Value) -> Result<Outcome, String> {
    let c: Case = serde_json::from_value(case.clone()).map_err(|e| e.to_string())?;
    Ok(check(&c))
}
