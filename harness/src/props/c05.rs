//! C05 — Every formula value is consistent with its inputs; `#CIRC!` exactly on / after cycles.
//!
//! Workbooks are built on a plain `Model` (en/en) from an explicit list of cell inputs over
//! 2-3 sheets plus two global defined names. Dependency shapes are generated on purpose: random
//! DAGs (references only to cells of lower random priority, so references point forwards and
//! backwards relative to the evaluator's natural order), free graphs, planted rings of length
//! 1..6 with tails, long chains (separate campaign, compact case), fan-in through ranges.
//!
//! Oracle (metamorphic, no re-implementation of functions):
//!  1. *local consistency*: for every formula cell X that is not on a static cycle, a fresh
//!     model in which every cell X reads (reference leaves of the parsed `Node`, ranges expanded,
//!     names resolved, on the right sheets) holds the value the workbook *stores* for it as a
//!     typed literal, with X's own input at X's address, must evaluate X to the same typed value
//!     (numbers to 15 significant digits);
//!  2. *cycles*, from the static dependency graph of the ASTs: a cell showing `#CIRC!` lies on a
//!     cycle or reads a cell that shows it (all profiles); in the *strict* profile (numbers and
//!     booleans only; references, ranges, cross-sheet references, names, `+ - *`, division by a
//!     non-zero constant, SUM/MIN/MAX/AVERAGE -- all error-propagating, no other error can
//!     arise) every cell on or downstream of a cycle shows `#CIRC!`;
//!  3. evaluating again changes no value;
//!  4. after one value cell that some formula reads is overwritten with a number and the workbook
//!     is evaluated again, its readers (and their readers) are locally consistent again.

use std::collections::BTreeSet;

use proptest::prelude::*;
use serde::{Deserialize, Serialize};
use serde_json::Value;

use super::evalkit::{self as kit, Graph, Pos};
use crate::engine::panics;
use crate::engine::snapshot::{cell_value, TV};
use crate::engine::{Ctx, Outcome, Tier};

#[derive(Clone, Debug, Serialize, Deserialize, PartialEq)]
pub struct CellIn {
    pub s: u8,
    pub r: i32,
    pub c: i32,
    pub t: String,
}

#[derive(Clone, Debug, Serialize, Deserialize, PartialEq)]
pub struct Case {
    pub sheets: u8,
    /// global defined names: (name, `Sheet1!$A$1` or `Sheet1!$A$1:$B$2`)
    pub names: Vec<(String, String)>,
    /// cells in entry order (distinct addresses)
    pub cells: Vec<CellIn>,
    /// generated from the strict grammar: both directions of the cycle clause are asserted
    pub strict: bool,
}

/// Compact long-chain case, expanded to a `Case` at check time.
#[derive(Clone, Debug, Serialize, Deserialize, PartialEq)]
pub struct Chain {
    pub n: i32,
    /// 0 forward down a column (A1 reads A2 ...: recursion depth n), 1 backward down a column,
    /// 2 forward along a row, 3 alternating between two sheets (forward), 4 scattered (stride
    /// permutation of one column), 5 forward, every link through a one-cell range
    pub layout: u8,
    /// 0 `=X+1`, 1 `=SUM(X,1)`, 2 `=MAX(X,0)+1`, 3 `=IF(X>0,X+1,1)` (absorbing), 4 `=nam_a*0+X+1`
    pub link: u8,
    /// last cell reads the first: one cycle of length n, plus `tail` cells hanging off it
    pub close: bool,
    pub tail: u8,
}

fn chain_pos(ch: &Chain, i: i32) -> (u8, i32, i32) {
    // i in 0..n ; cell i reads cell i+1 (forward layouts) or cell i-1 (backward)
    match ch.layout {
        2 => (0, 1, i + 1),
        3 => ((i % 2) as u8, i / 2 + 1, 1),
        4 => {
            // stride permutation: coprime stride
            let n = ch.n.max(1) as i64;
            let mut stride = 7919i64 % n;
            if stride == 0 {
                stride = 1;
            }
            while gcd(stride, n) != 1 {
                stride += 1;
            }
            (0, ((i as i64 * stride) % n) as i32 + 1, 1)
        }
        _ => (0, i + 1, 1),
    }
}

fn gcd(a: i64, b: i64) -> i64 {
    if b == 0 {
        a.abs()
    } else {
        gcd(b, a % b)
    }
}

fn ref_text(from_sheet: u8, to: (u8, i32, i32)) -> String {
    if from_sheet == to.0 {
        kit::a1(to.1, to.2)
    } else {
        format!("Sheet{}!{}", to.0 + 1, kit::a1(to.1, to.2))
    }
}

pub fn expand_chain(ch: &Chain) -> Case {
    let n = ch.n.max(2);
    let mut cells = vec![];
    let link = |from: (u8, i32, i32), to: (u8, i32, i32)| -> String {
        let x = ref_text(from.0, to);
        let x = if ch.layout == 5 { format!("SUM({x}:{x})") } else { x };
        match ch.link {
            1 => format!("=SUM({x},1)"),
            2 => format!("=MAX({x},0)+1"),
            3 => format!("=IF({x}>0,{x}+1,1)"),
            4 => format!("=nam_a*0+{x}+1"),
            _ => format!("={x}+1"),
        }
    };
    for i in 0..n {
        let p = chain_pos(ch, i);
        let t = if ch.layout == 1 {
            // backward: cell i reads cell i-1; cell 0 is the seed (or closes the ring)
            if i == 0 {
                if ch.close { link(p, chain_pos(ch, n - 1)) } else { "1".to_string() }
            } else {
                link(p, chain_pos(ch, i - 1))
            }
        } else if i == n - 1 {
            if ch.close { link(p, chain_pos(ch, 0)) } else { "1".to_string() }
        } else {
            link(p, chain_pos(ch, i + 1))
        };
        cells.push(CellIn { s: p.0, r: p.1, c: p.2, t });
    }
    // tails: cells in column C (row layouts: row 3) reading chain cells / each other
    for k in 0..ch.tail as i32 {
        let (s, r, c) = if ch.layout == 2 { (0u8, 3, k + 1) } else { (0u8, k + 1, 3) };
        let target = if k == 0 { chain_pos(ch, (n / 2).min(n - 1)) } else if ch.layout == 2 { (0, 3, k) } else { (0, k, 3) };
        cells.push(CellIn { s, r, c, t: format!("={}+1", ref_text(s, target)) });
    }
    // the name used by link kind 4 points at a constant far away
    cells.push(CellIn { s: 1, r: 1, c: 5, t: "7".into() });
    Case {
        sheets: 2,
        names: vec![("nam_a".into(), "Sheet2!$E$1".into())],
        cells,
        strict: ch.link != 3,
    }
}

// ------------------------------------------------------------------------------------------
// the check
// ------------------------------------------------------------------------------------------

fn build(case: &Case) -> Result<ironcalc_base::Model<'static>, String> {
    let mut m = kit::new_model(case.sheets);
    for (n, f) in &case.names {
        m.new_defined_name(n, None, f).map_err(|e| format!("name {n}: {e}"))?;
    }
    for c in &case.cells {
        m.set_user_input(c.s as u32, c.r, c.c, c.t.clone())
            .map_err(|e| format!("input {}: {e}", kit::pos_name((c.s as u32, c.r, c.c))))?;
    }
    Ok(m)
}

/// How many formula cells get the (costly) local-consistency check in one workbook.
const LOCAL_CHECK_BUDGET: usize = 96;

pub fn check(case: &Case, avoid_empty: bool) -> Outcome {
    let mut o = Outcome::pass();
    let built = panics::catch(|| {
        let mut m = build(case)?;
        m.evaluate();
        Ok::<_, String>(m)
    });
    let mut model = match built {
        Err(p) => {
            return o.fail(format!("C05:{}", p.class()), format!("building/evaluating the workbook panicked: {}", p.describe()))
        }
        Ok(Err(e)) => return o.label(format!("harness:build-rejected:{}", e.split(':').next().unwrap_or(""))),
        Ok(Ok(m)) => m,
    };
    let texts: std::collections::HashMap<Pos, &str> =
        case.cells.iter().map(|c| ((c.s as u32, c.r, c.c), c.t.as_str())).collect();
    let g = Graph::build(&model);
    if !g.complete {
        return o.label("harness:unresolved-read-set");
    }
    let empty_read = kit::empty_result_is_read(&model, &g);
    if empty_read && avoid_empty {
        o.excluded += 1;
        return o.label("excluded:formula-yielding-an-empty-reference-is-read");
    }
    if avoid_empty && (0..g.cells.len()).any(|v| g.reads[v].iter().any(|q| *q != g.cells[v] && kit::arithmetic_overflow_cell(&model, &g, *q))) {
        o.excluded += 1;
        return o.label("excluded:formula-with-non-finite-raw-result-is-read");
    }
    let n = g.cells.len();
    let vals: Vec<TV> = g.cells.iter().map(|p| cell_value(&model, p.0, p.1, p.2)).collect();
    let circ = |v: &TV| matches!(v, TV::Err(k) if k == "#CIRC!");

    // ---- labels from the actual graph
    let cyc = g.cycle_sizes();
    let maxdepth = g.depth.iter().copied().max().unwrap_or(0);
    o = o.label(if cyc.is_empty() { "graph:acyclic" } else { "graph:cyclic" });
    for k in &cyc {
        o = o.label(format!("cycle-len:{}", if *k > 6 { ">6".to_string() } else { k.to_string() }));
    }
    o = o.label(format!(
        "longest-chain:{}",
        match maxdepth {
            0..=2 => "<3",
            3..=9 => "3-9",
            10..=99 => "10-99",
            100..=999 => "100-999",
            _ => ">=1000",
        }
    ));
    o = o.label(if case.strict { "profile:strict" } else { "profile:absorbing" });
    let downstream_only = (0..n).filter(|&v| g.tainted[v] && !g.on_cycle[v]).count();
    if downstream_only > 0 {
        o = o.label("has-tail-off-cycle");
    }
    let (mut fwd, mut bwd, mut xsheet, mut fanin) = (false, false, false, false);
    for v in 0..n {
        for &w in &g.succ[v] {
            if g.cells[w] > g.cells[v] {
                fwd = true;
            } else if g.cells[w] < g.cells[v] {
                bwd = true;
            }
            if g.cells[w].0 != g.cells[v].0 {
                xsheet = true;
            }
        }
        if g.reads[v].len() >= 4 {
            fanin = true;
        }
    }
    for (b, l) in [(fwd, "edge:forward"), (bwd, "edge:backward"), (xsheet, "edge:cross-sheet"), (fanin, "fan-in>=4")] {
        if b {
            o = o.label(l);
        }
    }
    if case.cells.iter().any(|c| c.t.contains("nam_a") || c.t.contains("nam_rng")) {
        o = o.label("uses-defined-name");
    }
    let whole_band = |t: &str| -> bool {
        // `A:A`, `Sheet2!C:C`, `3:3`
        t.split(|ch: char| ch == '(' || ch == ',' || ch == ')' || ch == '!').any(|tok| match tok.split_once(':') {
            Some((l, r)) => {
                !l.is_empty()
                    && l == r
                    && (l.chars().all(|ch| ch.is_ascii_uppercase()) || l.chars().all(|ch| ch.is_ascii_digit()))
            }
            None => false,
        })
    };
    if case.cells.iter().any(|c| whole_band(&c.t)) {
        o = o.label("uses-whole-column-or-row-range");
    }

    let head = |p: &Pos| kit::formula_head(texts.get(p).copied().unwrap_or("?"));

    // ---- unevaluated cells
    for v in 0..n {
        if vals[v] == TV::Unevaluated {
            return o.fail(
                format!("C05:unevaluated-after-evaluate:{}", head(&g.cells[v])),
                format!("{} is still unevaluated after evaluate()", kit::pos_name(g.cells[v])),
            );
        }
    }

    // ---- clause 2: cycles
    for v in 0..n {
        let p = g.cells[v];
        if circ(&vals[v]) && !g.on_cycle[v] {
            let reads_circ = g.reads[v].iter().any(|q| circ(&cell_value(&model, q.0, q.1, q.2)));
            if !reads_circ {
                return o.fail(
                    format!("C05:circ-without-cycle:{}", head(&p)),
                    format!(
                        "{} `{}` shows #CIRC! but is on no cycle of the static dependency graph and none of the {} cells it reads shows #CIRC!",
                        kit::pos_name(p),
                        texts.get(&p).copied().unwrap_or("?"),
                        g.reads[v].len()
                    ),
                );
            }
        }
        if case.strict && g.tainted[v] && !circ(&vals[v]) {
            let place = if g.on_cycle[v] { "on-cycle" } else { "downstream" };
            return o.fail(
                format!("C05:cycle-not-reported:{place}:{}", head(&p)),
                format!(
                    "strict profile: {} `{}` is {place} of a dependency cycle (cycle sizes {:?}) but shows {} instead of #CIRC!",
                    kit::pos_name(p),
                    texts.get(&p).copied().unwrap_or("?"),
                    cyc,
                    vals[v].render(false)
                ),
            );
        }
    }

    // ---- clause 1: local consistency for cells not on a cycle
    let candidates: Vec<usize> = (0..n).filter(|&v| !g.on_cycle[v]).collect();
    let chosen: Vec<usize> = if candidates.len() <= LOCAL_CHECK_BUDGET {
        candidates.clone()
    } else {
        // deterministic sample: both ends plus an even spread
        let mut set = BTreeSet::new();
        let m = candidates.len();
        for k in 0..LOCAL_CHECK_BUDGET {
            set.insert(candidates[k * (m - 1) / (LOCAL_CHECK_BUDGET - 1)]);
        }
        set.into_iter().collect()
    };
    let mut checked_downstream = 0;
    for &v in &chosen {
        let p = g.cells[v];
        let Some(text) = texts.get(&p).copied() else { continue };
        let iso = panics::catch(|| kit::isolate(&model, &case.names, &g.reads[v], p, text));
        let iso = match iso {
            Err(pn) => {
                return o.fail(
                    format!("C05:{}", pn.class()),
                    format!("evaluating `{text}` in isolation panicked: {}", pn.describe()),
                )
            }
            Ok(Err(e)) => {
                o = o.label(format!("harness:isolate-rejected:{}", e.split(' ').next().unwrap_or("")));
                continue;
            }
            Ok(Ok(m)) => m,
        };
        let want = cell_value(&iso, p.0, p.1, p.2);
        if kit::key15(&want) != kit::key15(&vals[v]) {
            let place = if g.tainted[v] { "downstream-of-cycle" } else { "acyclic" };
            let reads_yielder = g.reads[v].iter().any(|q| g.index.contains_key(q) && kit::yields_empty(&model, *q, 64));
            let inputs: Vec<String> = g.reads[v]
                .iter()
                .take(12)
                .map(|q| format!("{}={}", kit::pos_name(*q), cell_value(&model, q.0, q.1, q.2).render(false)))
                .collect();
            let reads_overflow = g.reads[v].iter().any(|q| kit::arithmetic_overflow_cell(&model, &g, *q));
            let sig = if reads_yielder {
                "C05:inconsistent-with-inputs:reads-formula-whose-result-is-an-empty-reference".to_string()
            } else if reads_overflow {
                "C05:inconsistent-with-inputs:reads-formula-whose-raw-result-is-not-finite".to_string()
            } else {
                format!("C05:inconsistent-with-inputs:{place}:{}", head(&p))
            };
            return o.fail(
                sig,
                format!(
                    "{} `{text}` stores {} but evaluates to {} over the stored values of the cells it reads [{}]",
                    kit::pos_name(p),
                    vals[v].render(false),
                    want.render(false),
                    inputs.join(", ")
                ),
            );
        }
        if g.tainted[v] {
            checked_downstream += 1;
        }
    }
    if checked_downstream > 0 {
        o = o.label("local-check-downstream-of-cycle");
    }

    // ---- clause 3: evaluating again changes nothing
    let before = kit::values(&model);
    if let Err(pn) = panics::catch(|| model.evaluate()) {
        return o.fail(format!("C05:{}", pn.class()), format!("second evaluate() panicked: {}", pn.describe()));
    }
    let after = kit::values(&model);
    if before != after {
        let d = kit::map_diff(&before, &after, "first", "second", 6);
        let first: Option<Pos> = before
            .keys()
            .chain(after.keys())
            .find(|k| before.get(*k) != after.get(*k))
            .copied();
        let h = first.map(|p| head(&p)).unwrap_or_default();
        let place = first
            .and_then(|p| g.index.get(&p).copied())
            .map(|v| if g.on_cycle[v] { "on-cycle" } else if g.tainted[v] { "downstream" } else { "acyclic" })
            .unwrap_or("value-cell");
        return o.fail(
            format!("C05:second-evaluate-changes-values:{place}:{h}"),
            format!("evaluating a second time changes values:\n{}", d.join("\n")),
        );
    }

    // ---- clause 4: change one input, evaluate, and the readers are consistent again
    // (the first value cell, in address order, that some formula reads gets the number 7.25)
    let mut edited: Option<Pos> = None;
    'find: for v in 0..n {
        for q in &g.reads[v] {
            if !g.index.contains_key(q) && !matches!(cell_value(&model, q.0, q.1, q.2), TV::Empty) {
                edited = Some(*q);
                break 'find;
            }
        }
    }
    if let Some(q) = edited {
        let r = panics::catch(|| {
            model.set_user_input(q.0, q.1, q.2, "7.25".to_string())?;
            model.evaluate();
            Ok::<_, String>(())
        });
        match r {
            Err(pn) => return o.fail(format!("C05:{}", pn.class()), format!("evaluate() after editing {} panicked: {}", kit::pos_name(q), pn.describe())),
            Ok(Err(_)) => {}
            Ok(Ok(())) => {
                // direct readers and their readers, at most 32 cells, not on a cycle
                let mut affected: Vec<usize> = (0..n).filter(|&v| g.reads[v].contains(&q)).collect();
                let second: Vec<usize> = (0..n).filter(|&v| g.succ[v].iter().any(|w| affected.contains(w))).collect();
                affected.extend(second);
                affected.sort();
                affected.dedup();
                affected.retain(|&v| !g.on_cycle[v]);
                affected.truncate(32);
                let mut skip = false;
                if avoid_empty {
                    // the edit can create the listed triggers (a text input turned into a number may
                    // make an arithmetic formula overflow)
                    skip = kit::empty_result_is_read(&model, &g)
                        || (0..n).any(|v| g.reads[v].iter().any(|x| *x != g.cells[v] && kit::arithmetic_overflow_cell(&model, &g, *x)));
                }
                if !skip {
                    for &v in &affected {
                        let p = g.cells[v];
                        let Some(text) = texts.get(&p).copied() else { continue };
                        let iso = match panics::catch(|| kit::isolate(&model, &case.names, &g.reads[v], p, text)) {
                            Ok(Ok(m)) => m,
                            _ => continue,
                        };
                        let want = cell_value(&iso, p.0, p.1, p.2);
                        let got = cell_value(&model, p.0, p.1, p.2);
                        if kit::key15(&want) != kit::key15(&got) {
                            return o.fail(
                                format!("C05:stale-after-edit:{}", head(&p)),
                                format!(
                                    "after typing 7.25 into {} and evaluating, {} `{text}` stores {} but evaluates to {} over the stored values of the cells it reads",
                                    kit::pos_name(q),
                                    kit::pos_name(p),
                                    got.render(false),
                                    want.render(false)
                                ),
                            );
                        }
                    }
                    o = o.label("edit-and-reevaluate-checked");
                }
            }
        }
    }

    if maxdepth >= 3 || cyc.iter().any(|k| *k >= 3) {
        let key = serde_json::to_string(case).unwrap_or_default();
        o = o.nontrivial(key);
        if !cyc.is_empty() {
            o = o.label("nontrivial-with-cycle");
        }
    }
    o
}

pub fn check_chain(ch: &Chain) -> Outcome {
    let case = expand_chain(ch);
    let mut o = check(&case, false);
    o = o.label(format!("chain:layout={}", ch.layout));
    o = o.label(format!("chain:n={}", match ch.n { 0..=99 => "<100", 100..=299 => "100-299", 300..=999 => "300-999", _ => ">=1000" }));
    if ch.close {
        o = o.label("chain:closed-into-cycle");
    }
    if o.nontrivial.is_some() {
        o.nontrivial = Some(serde_json::to_string(ch).unwrap_or_default());
    }
    o
}

// ------------------------------------------------------------------------------------------
// spill readers: scalar formulas next to dynamic arrays (clause 1 for the scalar cells only)
// ------------------------------------------------------------------------------------------

/// A workbook on one sheet mixing dynamic-array formulas with scalar formulas that read cells in
/// (and around) their spill areas. Clause 1 is checked for the *scalar* formula cells; the anchors
/// themselves are C31's business.
#[derive(Clone, Debug, Serialize, Deserialize, PartialEq)]
pub struct SpillCase {
    pub cells: Vec<CellIn>,
}

fn stale_spill_read_trigger(model: &ironcalc_base::Model) -> bool {
    // see evalkit::SpillTriggers::demanded_cell_reads_spill
    kit::spill_triggers(model).demanded_cell_reads_spill
}

pub fn check_spill(case: &SpillCase, avoid_stale: bool, avoid_empty: bool, avoid_competing: bool) -> Outcome {
    let mut o = Outcome::pass();
    let built = panics::catch(|| {
        let mut m = kit::new_model(1);
        for c in &case.cells {
            m.set_user_input(0, c.r, c.c, c.t.clone())?;
        }
        m.evaluate();
        Ok::<_, String>(m)
    });
    let mut model = match built {
        Err(p) => return o.fail(format!("C05:{}", p.class()), format!("building/evaluating panicked: {}", p.describe())),
        Ok(Err(_)) => return o.label("harness:build-rejected"),
        Ok(Ok(m)) => m,
    };
    let anchors = kit::dynamic_anchors(&model, 0);
    if anchors.is_empty() {
        return o.label("spill:no-anchor");
    }
    let trig = kit::spill_triggers(&model);
    if trig.reads_own_spill {
        // circular input (an array that depends on its own spill area): no defined value
        return o.label("spill:circular-through-own-spill");
    }
    if avoid_stale && trig.demanded_cell_reads_spill {
        o.excluded += 1;
        return o.label("excluded:scalar-under-anchor-reads-other-spill");
    }
    {
        let anchors = kit::all_dynamic_anchors(&model);
        let gx = Graph::build_ext(&model, true);
        if gx.cells.iter().any(|a| kit::needs_reorder_while_starved(&model, &gx, &anchors, *a)) {
            // listed under C07/C31 (anchor cycle uses up the restart budget); the anchors involved
            // are circular inputs, which this campaign does not examine
            return o.label("spill:anchor-cycle-starves-reordering");
        }
    }
    if avoid_empty && trig.anchor_phase_reads_blocked_anchor {
        o.excluded += 1;
        return o.label("excluded:blocked-dynamic-array-read-in-anchor-phase");
    }
    if avoid_competing {
        // listed under C07 (competing dynamic anchors): an anchor that shows #SPILL! although no
        // typed cell lies in the block it would fill is blocked by another array's spill; which
        // of the two spills depends on the pass
        let typed: BTreeSet<Pos> = case.cells.iter().map(|c| (0u32, c.r, c.c)).collect();
        let competing = kit::all_dynamic_anchors(&model).into_iter().any(|(a, w, h)| {
            if !matches!(cell_value(&model, a.0, a.1, a.2), TV::Err(k) if k == "#SPILL!") || (w, h) != (1, 1) {
                return false;
            }
            match kit::reference_result(&model, a) {
                kit::RefResult::Array(rw, rh, _) => {
                    !(a.1..a.1 + rh).any(|r| (a.2..a.2 + rw).any(|c| (r, c) != (a.1, a.2) && typed.contains(&(a.0, r, c))))
                }
                kit::RefResult::SpillInIsolation => false,
                _ => true,
            }
        });
        if competing {
            o.excluded += 1;
            return o.label("excluded:competing-dynamic-anchors");
        }
    }
    let texts: std::collections::HashMap<Pos, &str> = case.cells.iter().map(|c| ((0u32, c.r, c.c), c.t.as_str())).collect();
    let g = Graph::build(&model);
    if avoid_empty && kit::empty_result_is_read(&model, &g) {
        o.excluded += 1;
        return o.label("excluded:formula-yielding-an-empty-reference-is-read");
    }
    let mut reads_spill = 0;
    for v in 0..g.cells.len() {
        let p = g.cells[v];
        let Some(text) = texts.get(&p).copied() else { continue };
        let cell = model.workbook.worksheets[0].cell(p.1, p.2).cloned();
        if !matches!(cell, Some(ironcalc_base::types::Cell::CellFormula { .. })) {
            continue; // anchors: C31
        }
        if g.tainted[v] || text.contains('#') {
            continue;
        }
        let spilled: Vec<&Pos> = g.reads[v]
            .iter()
            .filter(|q| matches!(model.workbook.worksheets[0].cell(q.1, q.2), Some(ironcalc_base::types::Cell::SpillCell { .. })))
            .collect();
        if !spilled.is_empty() {
            reads_spill += 1;
        }
        let iso = match panics::catch(|| kit::isolate(&model, &[], &g.reads[v], p, text)) {
            Err(pn) => return o.fail(format!("C05:{}", pn.class()), format!("isolated evaluation of `{text}` panicked: {}", pn.describe())),
            Ok(Err(_)) => continue,
            Ok(Ok(m)) => m,
        };
        let want = cell_value(&iso, p.0, p.1, p.2);
        let got = cell_value(&model, p.0, p.1, p.2);
        if kit::key15(&want) != kit::key15(&got) {
            let under_anchor = stale_spill_read_trigger(&model);
            let reads_yielder = g.reads[v].iter().any(|q| g.index.contains_key(q) && kit::yields_empty(&model, *q, 64));
            let reads_blocked = trig.anchor_phase_reads_blocked_anchor
                && g.reads[v].iter().any(|q| {
                    matches!(model.workbook.worksheets[0].cell(q.1, q.2), Some(ironcalc_base::types::Cell::ArrayFormula { .. }))
                        && matches!(cell_value(&model, q.0, q.1, q.2), TV::Err(k) if k == "#SPILL!")
                });
            let sig = if reads_yielder {
                "C05:inconsistent-with-inputs:reads-formula-whose-result-is-an-empty-reference".to_string()
            } else if reads_blocked {
                "C05:inconsistent-with-inputs:reads-blocked-dynamic-array-in-anchor-phase".to_string()
            } else if under_anchor && !spilled.is_empty() {
                "C05:inconsistent-with-inputs:scalar-read-by-an-anchor-reads-another-spill".to_string()
            } else {
                format!("C05:inconsistent-with-inputs:with-spills:{}", kit::formula_head(text))
            };
            let inputs: Vec<String> = g.reads[v]
                .iter()
                .take(12)
                .map(|q| format!("{}={}", kit::pos_name(*q), cell_value(&model, q.0, q.1, q.2).render(false)))
                .collect();
            return o.fail(
                sig,
                format!(
                    "{} `{text}` stores {} but evaluates to {} over the stored values of the cells it reads [{}]",
                    kit::pos_name(p),
                    got.render(false),
                    want.render(false),
                    inputs.join(", ")
                ),
            );
        }
    }
    let before = kit::values(&model);
    if let Err(pn) = panics::catch(|| model.evaluate()) {
        return o.fail(format!("C05:{}", pn.class()), format!("second evaluate() panicked: {}", pn.describe()));
    }
    let after = kit::values(&model);
    if before != after {
        let d = kit::map_diff(&before, &after, "first", "second", 6);
        return o.fail(
            "C05:second-evaluate-changes-values:with-spills",
            format!("evaluating a second time changes values:\n{}", d.join("\n")),
        );
    }
    o = o.label(format!("spill:anchors={}", anchors.len().min(4)));
    if reads_spill > 0 {
        o = o.label("spill:scalar-reads-spill-cell");
        o = o.nontrivial(serde_json::to_string(case).unwrap_or_default());
    }
    o
}

// ------------------------------------------------------------------------------------------
// generators
// ------------------------------------------------------------------------------------------

const ROWS: i32 = 8;
const COLS: i32 = 5;

#[derive(Clone, Debug)]
struct RawCell {
    s: u8,
    r: i32,
    c: i32,
    prio: u16,
    formula: bool,
    val: u8,
    kind: u8,
    sel: [u16; 3],
    k: i8,
    rh: u8,
    rw: u8,
    qualify: bool,
}

#[derive(Clone, Debug)]
struct Raw {
    sheets: u8,
    /// 0 dag, 1 free, 2 dag + ring
    mode: u8,
    strict: bool,
    cells: Vec<RawCell>,
    ring: Vec<u16>,
    tails: Vec<(u16, u16, i8)>,
    name_sel: (u16, u16, u8, u8),
}

fn raw_cell() -> impl Strategy<Value = RawCell> {
    (
        (0u8..3, 1..=ROWS, 1..=COLS, any::<u16>()),
        (prop::bool::weighted(0.65), 0u8..16, 0u8..24),
        (any::<u16>(), any::<u16>(), any::<u16>()),
        (-3i8..4, 0u8..3, 0u8..3, prop::bool::weighted(0.15)),
    )
        .prop_map(|((s, r, c, prio), (formula, val, kind), (s0, s1, s2), (k, rh, rw, qualify))| RawCell {
            s,
            r,
            c,
            prio,
            formula,
            val,
            kind,
            sel: [s0, s1, s2],
            k,
            rh,
            rw,
            qualify,
        })
}

fn raw(max_cells: usize) -> impl Strategy<Value = Raw> {
    (
        (2u8..=3, prop_oneof![3 => Just(0u8), 2 => Just(1u8), 4 => Just(2u8)], prop::bool::weighted(0.55)),
        prop::collection::vec(raw_cell(), 10..=max_cells),
        prop::collection::vec(any::<u16>(), 1..=6),
        prop::collection::vec((any::<u16>(), any::<u16>(), -3i8..4), 0..=4),
        (any::<u16>(), any::<u16>(), 0u8..3, 0u8..3),
    )
        .prop_map(|((sheets, mode, strict), cells, ring, tails, name_sel)| Raw { sheets, mode, strict, cells, ring, tails, name_sel })
}

fn value_text(strict: bool, v: u8, k: i8) -> String {
    match v {
        0..=5 => (k as i32 * 3 + v as i32).to_string(),
        6 => format!("{}.5", k),
        7 => "TRUE".into(),
        8 => "FALSE".into(),
        9 => "0".into(),
        _ if strict => ((v as i32) - 12).to_string(),
        10 => "abc".into(),
        11 => "12abc".into(),
        12 => "#N/A".into(),
        13 => "#DIV/0!".into(),
        14 => "1E+300".into(), // (the generator replaces this under the avoid switch, see build_case)
        _ => "#VALUE!".into(),
    }
}

fn build_case(raw: &Raw, avoid_empty: bool) -> Case {
    let sheets = raw.sheets;
    // distinct positions, first wins
    let mut seen = BTreeSet::new();
    let cells: Vec<&RawCell> = raw
        .cells
        .iter()
        .filter(|c| c.s < sheets)
        .filter(|c| seen.insert((c.s, c.r, c.c)))
        .collect();
    let n = cells.len();
    if n == 0 {
        return Case { sheets, names: vec![], cells: vec![], strict: raw.strict };
    }
    let pos = |i: usize| (cells[i].s, cells[i].r, cells[i].c);
    let prio_at = |s: u8, r: i32, c: i32| -> Option<u16> {
        cells.iter().find(|x| (x.s, x.r, x.c) == (s, r, c)).map(|x| x.prio)
    };
    // names
    let t1 = pos(raw.name_sel.0 as usize % n);
    let t2 = pos(raw.name_sel.1 as usize % n);
    let (h2, w2) = (raw.name_sel.2 as i32, raw.name_sel.3 as i32);
    let names = vec![
        ("nam_a".to_string(), format!("Sheet{}!${}${}", t1.0 + 1, kit::col_name(t1.2), t1.1)),
        (
            "nam_rng".to_string(),
            format!(
                "Sheet{}!${}${}:${}${}",
                t2.0 + 1,
                kit::col_name(t2.2),
                t2.1,
                kit::col_name((t2.2 + w2).min(COLS)),
                (t2.1 + h2).min(ROWS)
            ),
        ),
    ];
    let rect_max_prio = |s: u8, r1: i32, c1: i32, r2: i32, c2: i32| -> Option<u16> {
        let mut m: Option<u16> = None;
        for x in &cells {
            if x.s == s && x.r >= r1 && x.r <= r2 && x.c >= c1 && x.c <= c2 {
                m = Some(m.map(|y| y.max(x.prio)).unwrap_or(x.prio));
            }
        }
        m
    };
    let nm1_prio = prio_at(t1.0, t1.1, t1.2);
    let nm2_prio = rect_max_prio(t2.0, t2.1, t2.2, (t2.1 + h2).min(ROWS), (t2.2 + w2).min(COLS));
    let dag = raw.mode != 1;
    let mut texts: Vec<String> = Vec::with_capacity(n);
    for i in 0..n {
        let me = cells[i];
        if !me.formula {
            let t = value_text(raw.strict, me.val, me.k);
            texts.push(if avoid_empty && t == "1E+300" { "1E+30".to_string() } else { t });
            continue;
        }
        let allowed = |p: Option<u16>| -> bool { !dag || p.map(|q| q < me.prio).unwrap_or(true) };
        let cand: Vec<usize> = (0..n).filter(|&j| if dag { cells[j].prio < me.prio } else { true }).collect();
        let cell_ref = |sel: u16| -> String {
            if cand.is_empty() {
                return ((sel % 7) as i32 - 2).to_string();
            }
            if sel % 11 == 0 && !avoid_empty {
                // an empty cell outside the generated window
                return format!("{}{}", kit::col_name(COLS + 2), (sel % 5) + 1);
            }
            let j = cand[sel as usize % cand.len()];
            let (s, r, c) = pos(j);
            let a = match sel % 5 {
                0 => format!("${}${}", kit::col_name(c), r),
                1 => format!("{}${}", kit::col_name(c), r),
                _ => kit::a1(r, c),
            };
            if s != me.s || me.qualify {
                format!("Sheet{}!{}", s + 1, a)
            } else {
                a
            }
        };
        let range_ref = |sel: u16| -> String {
            if cand.is_empty() {
                return format!("{}1:{}2", kit::col_name(COLS + 2), kit::col_name(COLS + 3));
            }
            let j = cand[sel as usize % cand.len()];
            let (s, r, c) = pos(j);
            let (mut r2, mut c2) = ((r + me.rh as i32).min(ROWS), (c + me.rw as i32).min(COLS));
            let ok = |r2: i32, c2: i32| -> bool {
                let self_inside = s == me.s && me.r >= r && me.r <= r2 && me.c >= c && me.c <= c2;
                if dag && self_inside {
                    return false;
                }
                allowed(rect_max_prio(s, r, c, r2, c2))
            };
            if !ok(r2, c2) {
                r2 = r;
                c2 = c;
            }
            let a = format!("{}:{}", kit::a1(r, c), kit::a1(r2, c2));
            if s != me.s || me.qualify {
                format!("Sheet{}!{}", s + 1, a)
            } else {
                a
            }
        };
        // a whole column / whole row of a candidate cell (SUM clamps such ranges to the used
        // dimension of the sheet the range lives on)
        let band_ref = |sel: u16| -> Option<String> {
            if cand.is_empty() {
                return None;
            }
            let j = cand[sel as usize % cand.len()];
            let (s, r, c) = pos(j);
            let column = (sel / 7) % 2 == 0;
            let (r1, c1, r2, c2) = if column { (1, c, ROWS, c) } else { (r, 1, r, COLS) };
            let self_inside = s == me.s && me.r >= r1 && me.r <= r2 && me.c >= c1 && me.c <= c2;
            if (dag && self_inside) || !allowed(rect_max_prio(s, r1, c1, r2, c2)) {
                return None;
            }
            let a = if column { format!("{0}:{0}", kit::col_name(c)) } else { format!("{r}:{r}") };
            Some(if s != me.s || me.qualify { format!("Sheet{}!{}", s + 1, a) } else { a })
        };
        let nm1 = || if allowed(nm1_prio) { "nam_a".to_string() } else { "3".to_string() };
        let nm2 = || if allowed(nm2_prio) { "nam_rng".to_string() } else { range_ref(me.sel[2]) };
        let (a, b, c3) = (cell_ref(me.sel[0]), cell_ref(me.sel[1]), cell_ref(me.sel[2]));
        let mut rg = range_ref(me.sel[0]);
        if matches!(if raw.strict { me.kind % 13 } else { me.kind }, 5 | 6) && me.sel[1] % 5 == 0 {
            if let Some(b) = band_ref(me.sel[0]) {
                rg = b;
            }
        }
        let k = me.k as i32;
        let kind = if raw.strict { me.kind % 13 } else { me.kind };
        let t = match kind {
            0 => format!("={a}"),
            1 => format!("={a}+{}", k.abs()),
            2 => format!("={a}-{b}"),
            3 => format!("={a}*{}", (k % 3).abs().max(1) * if k < 0 { -1 } else { 1 }),
            4 => format!("={a}/{}", if k % 2 == 0 { 2 } else { 4 }),
            5 => format!("=SUM({rg})"),
            6 => format!("=SUM({rg},{b})"),
            7 => format!("=MIN({rg})"),
            8 => format!("=MAX({rg},{b})"),
            9 => format!("=AVERAGE({rg},1)"),
            10 => format!("={}+{}", nm1(), k.abs()),
            11 => format!("=SUM({})", nm2()),
            12 => format!("={a}+{b}-{c3}"),
            // ---- absorbing profile only
            13 => format!("=IF({a}>{k},{b},{c3})"),
            14 => format!("=IFERROR({a},{k})"),
            15 => format!("=ISERROR({a})"),
            16 => format!("=AND({a}>0,{b})"),
            17 => format!("=OR({a},{b}>1)"),
            18 => format!("=CHOOSE({},{a},{b})", (k.abs() % 2) + 1),
            19 => format!("=COUNT({rg})"),
            20 => format!("={a}&\"x\""),
            21 => format!("={a}*{b}"),
            22 => format!("={a}/{b}"),
            _ => format!("=IF(ISERROR({a}),{k},COUNTA({rg}))"),
        };
        texts.push(t);
    }
    // planted ring with tails
    if raw.mode == 2 {
        let mut members: Vec<usize> = vec![];
        for sel in &raw.ring {
            let j = *sel as usize % n;
            if !members.contains(&j) {
                members.push(j);
            }
        }
        let m = members.len();
        let xref = |from: usize, to: usize| -> String {
            let (s, r, c) = pos(to);
            if s != cells[from].s {
                format!("Sheet{}!{}", s + 1, kit::a1(r, c))
            } else {
                kit::a1(r, c)
            }
        };
        for t in 0..m {
            let from = members[t];
            let to = members[(t + 1) % m];
            let x = xref(from, to);
            texts[from] = match cells[from].kind % 5 {
                0 => format!("={x}+1"),
                1 => format!("=SUM({x}:{x})"),
                2 => format!("=MAX({x},2)"),
                3 => format!("={x}*2"),
                _ => format!("=SUM({x},1)"),
            };
        }
        let mut last: Vec<usize> = members.clone();
        for (a, b, k) in &raw.tails {
            let from = *a as usize % n;
            if members.contains(&from) || last[m..].contains(&from) {
                continue;
            }
            let to = last[*b as usize % last.len()];
            texts[from] = format!("={}+{}", xref(from, to), (*k as i32).abs());
            last.push(from);
        }
    }
    let out: Vec<CellIn> = (0..n)
        .map(|i| CellIn { s: cells[i].s, r: cells[i].r, c: cells[i].c, t: texts[i].clone() })
        .filter(|c| !c.t.is_empty())
        .collect();
    Case { sheets, names, cells: out, strict: raw.strict }
}

pub fn case_strategy(max_cells: usize, avoid_empty: bool) -> BoxedStrategy<Case> {
    raw(max_cells).prop_map(move |r| build_case(&r, avoid_empty)).boxed()
}

pub fn chain_strategy(max_n: i32) -> BoxedStrategy<Chain> {
    (
        prop_oneof![1 => 3..40i32, 2 => (max_n / 2)..=max_n],
        0u8..6,
        prop_oneof![4 => Just(0u8), 1 => Just(1u8), 1 => Just(2u8), 1 => Just(3u8), 1 => Just(4u8)],
        prop::bool::weighted(0.3),
        0u8..4,
    )
        .prop_map(|(n, layout, link, close, tail)| {
            // a row holds 16384 cells; the two-sheet and column layouts have room for any n.
            // Cost guard: every formula that mentions a defined name is a dynamic anchor, and a
            // cycle of n anchors makes Model::evaluate swap pairs until its n*n+1 restart budget
            // is used up (cubic: 28 cells 24 ms, 300 cells about 30 s per evaluate); closed chains
            // therefore do not use the name link
            let link = if close && link == 4 { 0 } else { link };
            // the same restart loop is cubic on an *acyclic* forward chain of anchors as well (each
            // restart repairs one pair): 1600 name links took 47-376 s; name chains stay short
            let n = if link == 4 { n.min(120) } else { n };
            Chain { n, layout, link, close, tail }
        })
        .boxed()
}

/// One sheet, window A1:H8: a few dynamic arrays, values around them, scalar formulas reading
/// cells and ranges of the window (no `#`, no cycles by construction are attempted; tainted
/// cells are skipped by the check).
pub fn spill_strategy() -> BoxedStrategy<SpillCase> {
    let anchor = prop_oneof![
        (1..4i32, 1..4i32).prop_map(|(a, b)| format!("=SEQUENCE({a},{b})")),
        (1..=6i32, 1..=6i32, 0..3i32, 0..3i32).prop_map(|(r, c, h, w)| format!("={}:{}*2", kit::a1(r, c), kit::a1(r + h, c + w))),
        (1..=6i32, 1..=6i32, 1..3i32, 0..3i32).prop_map(|(r, c, h, w)| format!("={}:{}", kit::a1(r, c), kit::a1(r + h, c + w))),
        Just("={1,2;3,4}".to_string()),
        (1..=6i32, 1..=6i32, 0..3i32, 1..3i32).prop_map(|(r, c, h, w)| format!("=TRANSPOSE({}:{})", kit::a1(r, c), kit::a1(r + h, c + w))),
    ];
    let scalar = prop_oneof![
        (1..=8i32, 1..=8i32, 0..3i32, 0..3i32).prop_map(|(r, c, h, w)| format!("=SUM({}:{})", kit::a1(r, c), kit::a1((r + h).min(8), (c + w).min(8)))),
        (1..=8i32, 1..=8i32, 0..3i32, 0..3i32).prop_map(|(r, c, h, w)| format!("=COUNTA({}:{})", kit::a1(r, c), kit::a1((r + h).min(8), (c + w).min(8)))),
        (1..=8i32, 1..=8i32, 0..9i32).prop_map(|(r, c, k)| format!("={}+{k}", kit::a1(r, c))),
        (1..=8i32, 1..=8i32, 1..=8i32, 1..=8i32).prop_map(|(r, c, r2, c2)| format!("={}*{}", kit::a1(r, c), kit::a1(r2, c2))),
        (1..=8i32, 1..=8i32).prop_map(|(r, c)| format!("=IF(ISNUMBER({0}),{0}+1,\"t\")", kit::a1(r, c))),
    ];
    let value = prop_oneof![(0..20i32).prop_map(|n| n.to_string()), Just("x".to_string()), Just("TRUE".to_string())];
    let cell = (1..=8i32, 1..=8i32, prop_oneof![3 => anchor, 5 => scalar, 3 => value]).prop_map(|(r, c, t)| CellIn { s: 0, r, c, t });
    prop::collection::vec(cell, 3..=12)
        .prop_map(|cells| {
            let mut seen = BTreeSet::new();
            SpillCase { cells: cells.into_iter().filter(|c| seen.insert((c.r, c.c))).collect() }
        })
        .boxed()
}

pub fn run(ctx: &Ctx) {
    ctx.set_rule(
        "Workbooks of 2-3 sheets with 10-60 generated cell inputs (numbers, booleans, text, error literals, \
         formulas of a strict error-propagating profile or an absorbing profile with IF/IFERROR/ISERROR/AND/OR/\
         CHOOSE/COUNT) whose dependency shape is generated explicitly: DAGs by random priority (forward and \
         backward references, cross-sheet, through ranges and two defined names), free graphs, planted rings of \
         length 1-6 with tails; plus long chains (compact cases, up to 300 quick / 3000 thorough cells, six \
         layouts, optionally closed into one cycle) and one-sheet workbooks mixing dynamic arrays with scalar \
         readers of their spill areas. Non-trivial: the static dependency graph has a chain of >=3 formula cells \
         or a cycle of length >=3 (spill campaign: a scalar formula reads a spill cell); distinct by the full \
         input list. Label 'nontrivial-with-cycle' counts the non-trivial workbooks that contain a cycle.",
    );
    ctx.assume("locale and language en; plain Model API (set_user_input, new_defined_name, evaluate); no volatile functions");
    ctx.assume("numbers are compared to 15 significant digits, other values by type and content; error values by kind only");
    ctx.assume("cells on a static cycle are not subject to the local-consistency check (their inputs include themselves); in the absorbing profile only '#CIRC! implies cycle or #CIRC! input' is asserted");
    ctx.assume("COUNT is placed in the absorbing profile: it ignores error values in references (as in Excel), so it does not propagate #CIRC!");
    ctx.assume("workbooks with more than 96 non-cyclic formula cells (long chains) get the local check on an evenly spread sample of 96 cells including both ends");
    ctx.assume("chains are evaluated on the driver's 512 MiB worker stacks; depth 3000 was verified to fit; a stack overflow at larger depths / smaller stacks cannot be caught in-process and is reported separately (see notes)");
    ctx.assume("CSE array formulas are not generated here (CSE self-reads are a listed finding, replay only); whole-column / whole-row ranges are generated inside SUM only (the other aggregations walk all 1,048,576 rows)");
    ctx.assume("spill-readers campaign: anchors themselves are C31's business; only plain formula cells are checked; workbooks in which an array depends on its own spill area, or in which two anchors form a cycle (restart budget exhausted, listed under C07/C31), are skipped");
    ctx.note("stack depth probe (child process, this build profile): a forward chain A1=A2+1,... evaluates with 3000 cells in 1 s on a 512 MiB stack and 30000 cells in 3 s; it aborts the process with 'stack overflow' at 1000 cells on a 2 MiB thread stack (500 still fit), at 500 cells on 1 MiB (300 fit) and at 5000 cells on the 8 MiB main-thread stack (2000 fit); see the listed finding C05:stack-overflow:long-forward-reference-chain");
    ctx.note("cost observation: a formula that mentions a defined name is classified as dynamic (spill anchor); on a cycle of n such formulas Model::evaluate re-orders and restarts until its n*n+1 budget is exhausted: 28 cells take 24 ms (23 us without the name), 300 cells about 30 s per evaluate(); closed chains in the campaign avoid the name link for this reason; the restart loop is also cubic on an acyclic forward chain of such formulas (1600 cells: 47-376 s per case), so chains that use the name link are capped at 120 cells");
    let (cases, cells, chains, chain_n, spills) = match ctx.tier {
        Tier::Quick => (60000, 60, 256, 300, 40000),
        Tier::Thorough => (120000, 60, 1200, 3000, 300000),
    };
    let enc = |c: &Case| serde_json::to_value(c).unwrap_or(Value::Null);
    let avoid_empty = ctx.avoid("c05-empty-reference-result");
    ctx.campaign("workbooks", cases, || case_strategy(cells, avoid_empty), move |c: &Case| check(c, avoid_empty), enc);
    ctx.campaign("chains", chains, || chain_strategy(chain_n), check_chain, |c: &Chain| serde_json::to_value(c).unwrap_or(Value::Null));
    let avoid = ctx.avoid("c05-scalar-under-anchor-reads-spill");
    let avoid_competing = ctx.avoid("c07-competing-dynamic-anchors");
    ctx.campaign(
        "spill-readers",
        spills,
        spill_strategy,
        move |c: &SpillCase| check_spill(c, avoid, avoid_empty, avoid_competing),
        |c: &SpillCase| serde_json::to_value(c).unwrap_or(Value::Null),
    );
}

pub fn replay(ctx: &Ctx, campaign: &str, case: &Value) -> Result<Outcome, String> {
    let o = replay_inner(ctx, campaign, case)?;
    if std::env::var("VERIF_TRACE").is_ok() {
        eprintln!("labels: {:?}", o.labels);
    }
    Ok(o)
}

fn replay_inner(ctx: &Ctx, campaign: &str, case: &Value) -> Result<Outcome, String> {
    match campaign {
        "chains" => {
            let c: Chain = serde_json::from_value(case.clone()).map_err(|e| e.to_string())?;
            Ok(check_chain(&c))
        }
        "spill-readers" => {
            let c: SpillCase = serde_json::from_value(case.clone()).map_err(|e| e.to_string())?;
            // replays are never steered away from their own trigger
            let _ = ctx;
            Ok(check_spill(&c, false, false, false))
        }
        "cse-self-read" => {
            let c: CseCase = serde_json::from_value(case.clone()).map_err(|e| e.to_string())?;
            Ok(check_cse(&c))
        }
        _ => {
            let c: Case = serde_json::from_value(case.clone()).map_err(|e| e.to_string())?;
            Ok(check(&c, false))
        }
    }
}

// ------------------------------------------------------------------------------------------
// CSE array formula reading its own range (listed finding; replay only)
// ------------------------------------------------------------------------------------------

/// `set_user_array_formula(row, col, w, h, text)` on an empty sheet, plus plain inputs.
#[derive(Clone, Debug, Serialize, Deserialize, PartialEq)]
pub struct CseCase {
    pub cells: Vec<CellIn>,
    pub row: i32,
    pub col: i32,
    pub w: i32,
    pub h: i32,
    pub text: String,
}

pub fn check_cse(case: &CseCase) -> Outcome {
    let o = Outcome::pass();
    let built = panics::catch(|| {
        let mut m = kit::new_model(1);
        for c in &case.cells {
            m.set_user_input(0, c.r, c.c, c.t.clone())?;
        }
        m.set_user_array_formula(0, case.row, case.col, case.w, case.h, &case.text)?;
        m.evaluate();
        Ok::<_, String>(m)
    });
    let mut model = match built {
        Err(p) => return o.fail(format!("C05:{}", p.class()), p.describe()),
        Ok(Err(e)) => return o.label(format!("harness:build-rejected:{e}")),
        Ok(Ok(m)) => m,
    };
    let at = (0u32, case.row, case.col);
    let Some(node) = kit::node_of(&model, at) else { return o.label("harness:no-formula") };
    let Some(rects) = kit::read_rects(&model, node, at) else { return o.label("harness:unresolved-read-set") };
    let reads_own = rects.iter().any(|&(s, r1, c1, r2, c2)| {
        s == 0 && r1 < case.row + case.h && r2 >= case.row && c1 < case.col + case.w && c2 >= case.col
    });
    let first = kit::values(&model);
    let v = cell_value(&model, 0, case.row, case.col);
    if reads_own && !matches!(&v, TV::Err(k) if k == "#CIRC!") {
        model.evaluate();
        let second = kit::values(&model);
        return o.fail(
            "C05:cycle-not-reported:cse-array-reads-own-range",
            format!(
                "array formula `{}` entered over {}:{} reads cells of its own range but its anchor shows {} instead of #CIRC!; a second evaluate() {}",
                case.text,
                kit::a1(case.row, case.col),
                kit::a1(case.row + case.h - 1, case.col + case.w - 1),
                v.render(false),
                if first == second { "keeps the values".to_string() } else { format!("changes them: {}", kit::map_diff(&first, &second, "first", "second", 4).join("; ")) }
            ),
        );
    }
    o
}
